"""C16 — multisig descriptors (structural clauses)."""
import ast
import re

from sa import rl
from sa.cfg import cfg_of
from sa.dataflow import call_name, dotted, expand, origins
from sa.fold import Folder, Unknown, module_const
from sa.guard import BAD_FALSE, BAD_TRUE
from sa.loader import AnalysisError, param_names

EXPLANATION = (
    "Static analysis of buidl/descriptor.py: input and checksum character sets and the five generator constants equal Bitcoin Core's descriptor "
    "checksum, with the 35-bit shift/mask, 3-symbol class groups, 8 final rounds and 8 output symbols; a supplied checksum that differs from the "
    "computed one raises; the parser's regular expression (parsed to its AST) captures exactly 8 characters of the checksum alphabet after '#', and a '#' "
    "without a captured checksum raises; child keys reach the witness script through sorted() and key records reach the text through sorted(); receive "
    "and change branches differ by a non-zero constant; m > n is refused. Not decided: checksum error detection, address values."
)

CORE_INPUT_CHARSET = "0123456789()[],'/*abcdefgh@:$%{}" "IJKLMNOPQRSTUVWXYZ&+-.;<=>?!^_|~" "ijklmnopqrstuvwxyzABCDEFGH`#\"\\ "  # bitcoin/src/script/descriptor.cpp
CORE_CHECKSUM_CHARSET = "qpzry9x8gf2tvdw0s3jn54khce6mua7l"
CORE_GEN = {1: 0xF5DEE51989, 2: 0xA9FDCA3312, 4: 0x1BAB10E32D, 8: 0x3706B1677A, 16: 0x644D626FFD}


def _core_polymod(c, val):
    c0 = c >> 35
    c = ((c & 0x7FFFFFFFF) << 5) ^ val
    for bit, g in CORE_GEN.items():
        if c0 & bit:
            c ^= g
    return c


def _core_descsum(s):
    """DescriptorChecksum() of Bitcoin Core (script/descriptor.cpp), the reference the library's function is compared with"""
    c, cls, clscount = 1, 0, 0
    for ch in s:
        pos = CORE_INPUT_CHARSET.find(ch)
        if pos == -1:
            return None
        c = _core_polymod(c, pos & 31)
        cls = cls * 3 + (pos >> 5)
        clscount += 1
        if clscount == 3:
            c = _core_polymod(c, cls)
            cls, clscount = 0, 0
    if clscount > 0:
        c = _core_polymod(c, cls)
    for _ in range(8):
        c = _core_polymod(c, 0)
    c ^= 1
    return "".join(CORE_CHECKSUM_CHARSET[(c >> (5 * (7 - j))) & 31] for j in range(8))


def _descsum_cells(ctx):
    """calc_poly_mod and calc_core_checksum evaluated against Bitcoin Core's algorithm: the step function on every (set top bit, 5-bit value)
    cell, and the checksum on every symbol of the input character set in each of the three group positions, on every length 0..12, on a real
    descriptor and on strings with a character outside the set (bounded in the text length; the function treats every symbol alike inside one
    loop).  None when outside the evaluator's subset."""
    from sa.cells import Evaluator, Raised, Undecided
    out = []
    try:
        mod, fn = rl.get(ctx, "descriptor:calc_poly_mod")
        bad = None
        n = 0
        for top in [0] + [1 << (35 + i) for i in range(5)] + [0x1F << 35, 0x15 << 35]:
            for val in range(32):
                n += 1
                c = top | 0x2AAAAAAAA
                try:
                    r = Evaluator(ctx.repo).call("descriptor:calc_poly_mod", [c, val])
                except Raised as x:
                    r = "raises %s" % x.name
                if r != _core_polymod(c, val):
                    bad = (c, val)
                    break
            if bad:
                break
        ctx.count("cells", n)
        if bad:
            which = [i for i in range(5) if (bad[0] >> (35 + i)) & 1]
            out.append(ctx.bad("descriptor:calc_poly_mod", "PolyMod step differs from Bitcoin Core for c with top bits %s set and value %d (generator constants / shift 35 / mask "
                                                           "0x7ffffffff / 5-bit shift)" % (which, bad[1]), fn, mod, key="gen"))
        else:
            out.append(ctx.ok("descriptor:calc_poly_mod", "five generator constants equal PolyMod() of Bitcoin Core", fn, mod, key="gen"))
            out.append(ctx.ok("descriptor:calc_poly_mod", "c0 = c >> 35; c = ((c & 0x7ffffffff) << 5) ^ val", fn, mod, key="shape"))
        mod2, fn2 = rl.get(ctx, "descriptor:calc_core_checksum")
        texts = [""] + ["wsh(sortedmulti(2,[aa]"[:k] for k in range(1, 13)]
        for ch in CORE_INPUT_CHARSET:
            texts += [ch, "a" + ch, "ab" + ch]
        texts.append("wsh(sortedmulti(1,[c7d0648a/48h/1h/0h/2h]tpubDEpefcgzY6ZyEV2uF4xcW2z8bZ3DNeWx9h2BcwcX973BHrmkQxJhpAXoSWZeHkmkiTtnUjfERsTDTVCcifW6po3PFR1JRjUUTJHvPpDqJhr/0/*))")
        bad2 = None
        for t in texts:
            ctx.count("cells")
            try:
                r = Evaluator(ctx.repo, max_steps=400000).call("descriptor:calc_core_checksum", [t])
            except Raised as x:
                r = "raises %s" % x.name
            if r != _core_descsum(t):
                bad2 = (t, r)
                break
        if bad2 is None:
            for t in ("wsh(é)", "abc\x01", "a\nb"):
                ctx.count("cells")
                try:
                    r = Evaluator(ctx.repo).call("descriptor:calc_core_checksum", [t])
                    bad2 = (t, r)
                    break
                except Raised:
                    pass
        if bad2:
            out.append(ctx.bad("descriptor:calc_core_checksum", "checksum of %r is %r, Bitcoin Core's DescriptorChecksum gives %r" % (bad2[0][:24], bad2[1], _core_descsum(bad2[0])), fn2, mod2,
                               key="algo"))
        else:
            out.append(ctx.ok("descriptor:calc_core_checksum", "DescriptorChecksum() structure: equals Bitcoin Core's on every symbol of the input set in each group position, lengths 0..12 and "
                                                               "a full descriptor; symbols outside the set are refused", fn2, mod2, key="algo"))
    except Undecided:
        return None
    return out


def c16_1(ctx):
    out = [
        rl.const_eq(ctx, "descriptor", "DESCRIPTOR_INPUT_CHARSET", CORE_INPUT_CHARSET, "Bitcoin Core INPUT_CHARSET"),
        rl.const_eq(ctx, "descriptor", "DESCRIPTOR_CHECKSUM_CHARSET", CORE_CHECKSUM_CHARSET, "Bitcoin Core CHECKSUM_CHARSET"),
    ]
    ev = _descsum_cells(ctx)
    if ev is not None:
        return out + ev
    mod, fn = rl.get(ctx, "descriptor:calc_poly_mod")
    f = Folder(ctx.repo, mod.name)
    gen = {}
    for st in ast.walk(fn):
        if isinstance(st, ast.If) and isinstance(st.test, ast.BinOp) and isinstance(st.test.op, ast.BitAnd):
            bit = f.fold(st.test.right)
            for b in st.body:
                if isinstance(b, ast.AugAssign) and isinstance(b.op, ast.BitXor):
                    gen[bit] = f.fold(b.value)
    if not gen:
        # table form: a sequence / dict of the five constants xored in by a bit loop (`for i, g in enumerate(TABLE): if c0 >> i & 1: c ^= g`)
        for nm in sorted({x.id for x in ast.walk(fn) if isinstance(x, ast.Name)} | set()):
            v = f.fold(ast.Name(id=nm, ctx=ast.Load()))
            if isinstance(v, (tuple, list)) and len(v) == 5 and all(isinstance(x, int) for x in v):
                gen = {1 << i: x for i, x in enumerate(v)}
            elif isinstance(v, dict) and len(v) == 5 and all(isinstance(k, int) and isinstance(x, int) for k, x in v.items()):
                gen = dict(v)
        if gen and not any(isinstance(x, ast.AugAssign) and isinstance(x.op, ast.BitXor) for x in ast.walk(fn)):
            gen = {}
    if any(not isinstance(v, int) for v in gen.values()):
        gen = {}
        for e_ in [x for x in ast.walk(fn) if isinstance(x, (ast.Name, ast.Tuple, ast.List)) and isinstance(getattr(x, "ctx", None), ast.Load)]:
            v = f.fold(e_)
            if isinstance(v, (tuple, list)) and len(v) == 5 and all(isinstance(x, int) for x in v):
                gen = {1 << i: x for i, x in enumerate(v)}
    ctx.count("table_entries", 5)
    if not gen:
        out.append(ctx.err("descriptor:calc_poly_mod", "the five generator constants were not found (neither as an if-chain on the bits of c0 nor as a table)", fn, mod))
    elif gen == CORE_GEN:
        out.append(ctx.ok("descriptor:calc_poly_mod", "five generator constants equal PolyMod() of Bitcoin Core", fn, mod, key="gen"))
    else:
        diff = {k: (hex(gen.get(k)) if isinstance(gen.get(k), int) else gen.get(k), hex(v)) for k, v in CORE_GEN.items() if gen.get(k) != v}
        out.append(ctx.bad("descriptor:calc_poly_mod", "generator constants differ from Bitcoin Core: %s" % diff, fn, mod, key="gen"))
    consts = {f.fold(c) for c in ast.walk(fn) if isinstance(c, ast.Constant) and isinstance(c.value, int)}
    if {35, 0x7FFFFFFFF, 5} <= consts:
        out.append(ctx.ok("descriptor:calc_poly_mod", "c0 = c >> 35; c = ((c & 0x7ffffffff) << 5) ^ val", fn, mod, key="shape"))
    else:
        out.append(ctx.bad("descriptor:calc_poly_mod", "shift/mask constants %s, Core uses 35 / 0x7ffffffff / 5" % sorted(consts), fn, mod, key="shape"))
    mod, fn = rl.get(ctx, "descriptor:calc_core_checksum")
    src = ast.unparse(fn)
    needles = [("pos & 31", "low 5 bits feed the polymod"), ("cls * 3 + (pos >> 5)", "class groups of three symbols"), ("clscount == 3", "group flush every 3 symbols"),
               ("range(0, 8)", "8 closing rounds / 8 output symbols"), ("c ^= 1", "final xor 1"), ("c >> 5 * (7 - j) & 31", "output symbols MSB first")]
    missing = [w for n, w in needles if n not in src]
    if not missing:
        out.append(ctx.ok("descriptor:calc_core_checksum", "DescriptorChecksum() structure: " + "; ".join(w for _, w in needles), fn, mod, key="algo"))
    else:
        out.append(ctx.err("descriptor:calc_core_checksum", "checksum algorithm shape not recognised: missing %s" % missing, fn, mod))
    return out


def c16_2(ctx):
    spec = "descriptor:P2WSHSortedMulti.__init__"
    mod, fn = rl.get(ctx, spec)

    def match(node, ex, atoms):
        t = node.ast
        if isinstance(t, ast.Compare) and len(t.ops) == 1 and isinstance(t.ops[0], (ast.Eq, ast.NotEq)):
            lo, ro = origins(fn, node.id, t.left), origins(fn, node.id, t.comparators[0])
            for a, b in ((lo, ro), (ro, lo)):
                if "call:calc_core_checksum" in a and "param:checksum" in b and "call:calc_core_checksum" not in b:
                    return BAD_TRUE if isinstance(t.ops[0], ast.NotEq) else BAD_FALSE
        return None

    def exempt(m, f):
        return [(n.id, False) for n in cfg_of(f).tests() if isinstance(n.ast, ast.Name) and n.ast.id == "checksum"]
    out = [rl.guard(ctx, spec, match, what="a supplied checksum must equal the computed one", key="checksum", exempt=exempt)]
    # computed over the text that is stored
    cs = [c for _, c in rl.find_calls(fn, "calc_core_checksum")]
    if cs and ast.unparse(cs[0].args[0]) == "descriptor_text" and "self.descriptor_text = descriptor_text" in ast.unparse(fn):
        out.append(ctx.ok(spec, "checksum is computed over the stored descriptor text", cs[0], mod, key="over-text"))
    else:
        out.append(ctx.bad(spec, "checksum is not computed over the stored descriptor text", fn, mod, key="over-text"))
    # the origin path, fingerprint and branch of every key record reach the text exactly as supplied: the checksum is
    # defined over the characters of the descriptor, so rewriting `'` to `h`, changing case or stripping changes which
    # descriptors verify (Core's own checksum for 48'/1'/0'/2' no longer matches and h/' substitutions go undetected)
    cfg = cfg_of(fn)
    recs = []
    for n in cfg.stmts(("stmt",)):
        a = n.ast
        if isinstance(a, ast.Expr) and isinstance(a.value, ast.Call) and call_name(a.value) == "append" and a.value.args and isinstance(a.value.args[0], ast.Dict):
            recs.append((n, a.value.args[0]))
    if not recs:
        out.append(ctx.err(spec, "the saved key-record dict is not recognised", fn, mod))
        return out
    for n, d in recs:
        for k, v in zip(d.keys, d.values):
            if not (isinstance(k, ast.Constant) and k.value in ("path", "xfp", "account_index")):
                continue
            ex = expand(fn, n.id, v, depth=6)
            calls = [c for c in ast.walk(ex) if isinstance(c, ast.Call) and isinstance(c.func, ast.Attribute) and c.func.attr in
                     ("replace", "lower", "upper", "strip", "lstrip", "rstrip", "casefold", "title", "translate", "format")]
            src_ok = ast.unparse(ex) in ("key_record.get('%s')" % k.value, "key_record['%s']" % k.value)
            if src_ok:
                out.append(ctx.ok(spec, "key record field `%s` is stored exactly as supplied" % k.value, v, mod, key="verbatim:" + k.value))
            elif calls:
                out.append(ctx.bad(spec, "key record field `%s` is rewritten (`%s`) before the descriptor text and its checksum are built: a descriptor in another notation "
                                         "(e.g. 48'/1'/0'/2' with Bitcoin Core's checksum) no longer verifies or round-trips" % (k.value, ast.unparse(calls[0])[:80]), v, mod,
                                   key="verbatim:" + k.value))
            elif [c for c in ast.walk(ex) if isinstance(c, ast.Call) and isinstance(c.func, ast.Name) and c.func.id in ("format", "hex", "int", "str", "oct", "bin")]:
                # re-rendered through a number: int(text, 16) forgets leading zeros and case, format(.., "x") / hex() do not put them back
                c0 = [c for c in ast.walk(ex) if isinstance(c, ast.Call) and isinstance(c.func, ast.Name) and c.func.id in ("format", "hex", "int", "str", "oct", "bin")][0]
                out.append(ctx.bad(spec, "key record field `%s` is re-rendered through a number (`%s`) before the descriptor text and its checksum are built: leading zeros "
                                         "(fingerprint 0f056943 -> f056943) and the supplied spelling are lost, the text no longer matches Bitcoin Core's and does not parse back" % (
                                             k.value, ast.unparse(c0)[:80]), v, mod, key="verbatim:" + k.value))
            else:
                # verbatim storage is also decided by evaluation: C16.16 supplies both path notations, a fingerprint with a leading zero and multi-digit
                # account indexes and compares the whole text
                cells = c16_16(ctx)
                if cells and all(r.status == "ok" for r in cells):
                    out.append(ctx.ok(spec, "key record field `%s` reaches the text as supplied: decided by the text-of-a-key-set cells (C16.16)" % k.value, v, mod, key="verbatim:" + k.value))
                else:
                    out.append(ctx.err(spec, "origin of key record field `%s` not recognised: `%s`" % (k.value, ast.unparse(ex)[:80]), v, mod))
    return out


def _regex_checksum_group(pattern):
    """(min, max, set of chars) of the repeated class following a literal '#' inside an optional group"""
    import re._parser as sre
    tree = sre.parse(pattern)
    found = []

    def flat(items):
        """capturing / non-capturing groups are transparent for the question "what follows the `#`" """
        out = []
        for op, av in items:
            if str(op) == "SUBPATTERN":
                out.extend(flat(av[3]))
            else:
                out.append((op, av))
        return out

    def walk(items):
        items = flat(items)
        for i, (op, av) in enumerate(items):
            opn = str(op)
            if opn == "SUBPATTERN":
                walk(av[3])
            elif opn in ("MAX_REPEAT", "MIN_REPEAT"):
                lo, hi, sub = av
                sub = list(sub)
                # optional group containing the subpattern
                walk(sub)
                if len(sub) == 1 and str(sub[0][0]) == "IN" and i > 0 and str(items[i - 1][0]) == "LITERAL" and items[i - 1][1] == ord("#"):
                    chars = set()
                    for o2, a2 in sub[0][1]:
                        if str(o2) == "LITERAL":
                            chars.add(chr(a2))
                        elif str(o2) == "RANGE":
                            chars |= {chr(c) for c in range(a2[0], a2[1] + 1)}
                    found.append((lo, hi, chars))
            elif opn == "BRANCH":
                for b in av[1]:
                    walk(b)
    walk(tree)
    return found


def c16_3(ctx):
    spec = "descriptor:P2WSHSortedMulti.parse"
    mod, fn = rl.get(ctx, spec)
    out = []
    f = Folder(ctx.repo, mod.name)
    pats = [f.fold(c.args[0]) for c in ast.walk(fn) if isinstance(c, ast.Call) and call_name(c) == "match" and dotted(c.func.value) == "re"]
    pats = [p for p in pats if isinstance(p, str)]
    if not pats:
        raise AnalysisError("P2WSHSortedMulti.parse: regular expression not found")
    groups = _regex_checksum_group(pats[0])
    if not groups:
        out.append(ctx.bad(spec, "the regular expression has no `#` + checksum capture", fn, mod, key="regex-checksum"))
    else:
        lo, hi, chars = groups[0]
        if (lo, hi) == (8, 8) and chars == set(CORE_CHECKSUM_CHARSET):
            out.append(ctx.ok(spec, "regex captures `#` followed by exactly 8 characters of the checksum alphabet", fn, mod, key="regex-checksum"))
        else:
            out.append(ctx.bad(spec, "regex checksum capture: repeat {%s,%s} over %d characters (extra %s, missing %s); descriptor checksums are 8 characters of %s" % (
                lo, hi, len(chars), sorted(chars - set(CORE_CHECKSUM_CHARSET)), sorted(set(CORE_CHECKSUM_CHARSET) - chars), CORE_CHECKSUM_CHARSET), fn, mod, key="regex-checksum"))
    # '#' present but no checksum parsed => raise
    cfg = cfg_of(fn)
    hash_tests = [n for n in cfg.tests() if isinstance(n.ast, ast.Compare) and isinstance(n.ast.ops[0], ast.In) and isinstance(n.ast.left, ast.Constant) and n.ast.left.value == "#"]
    ok = False
    if hash_tests:
        for s, l in cfg.succ[hash_tests[0].id]:
            if l is True and cfg.nodes[s].kind == "test" and isinstance(cfg.nodes[s].ast, ast.Name) and cfg.nodes[s].ast.id == "checksum":
                fails = [x for x, l2 in cfg.succ[s] if l2 is False]
                if fails and not any(cfg.nodes[y].kind == "return" for y in cfg.reach(fails)):
                    ok = True
    out.append(ctx.ok(spec, "a `#` without a well-formed checksum raises instead of silently dropping the checksum", hash_tests[0].ast, mod, key="hash-without-checksum") if ok else
               ctx.bad(spec, "a descriptor containing `#` but no parsable checksum is accepted without verification", fn, mod, key="hash-without-checksum"))
    # the captured checksum is handed to the constructor
    rets = [n for n in cfg.returns() if n.ast is not None and isinstance(n.ast.value, ast.Call)]
    kw = {k.arg: ast.unparse(k.value) for k in rets[0].ast.value.keywords} if rets else {}
    if kw.get("checksum") == "checksum":
        out.append(ctx.ok(spec, "the parsed checksum is passed to the verifying constructor", rets[0].ast, mod, key="checksum-forwarded"))
    else:
        out.append(ctx.bad(spec, "the parsed checksum is not passed to the constructor (checksum=%s)" % kw.get("checksum"), fn, mod, key="checksum-forwarded"))
    return out


def c16_4(ctx):
    out = []
    spec = "descriptor:P2WSHSortedMulti.get_address"
    mod, fn = rl.get(ctx, spec)
    cfg = cfg_of(fn)
    t = [n for n in cfg.tests() if isinstance(n.ast, ast.Name) and n.ast.id == "sort_keys"]
    if not t:
        raise AnalysisError("get_address: sort_keys test not found")
    arms = {}
    st_if = t[0].stmt
    if isinstance(st_if, ast.If):
        arms[True] = ast.unparse(ast.Module(body=st_if.body, type_ignores=[]))
        arms[False] = ast.unparse(ast.Module(body=st_if.orelse, type_ignores=[])) if st_if.orelse else ""
    else:
        for s, l in cfg.succ[t[0].id]:
            a = cfg.nodes[s].ast
            arms[l] = ast.unparse(a) if a is not None else ""
    t_arm, f_arm = arms.get(True, ""), arms.get(False, "")
    sorts = lambda txt: "sorted(" in txt or ".sort(" in txt
    if ("sorted(sec_hexes_to_use)" in t_arm or "sec_hexes_to_use.sort()" in t_arm) and not sorts(f_arm):
        out.append(ctx.ok(spec, "with sort_keys the child keys enter the script through sorted() (BIP67)", t[0].ast, mod, key="sorted-children"))
    elif not sorts(t_arm) or sorts(f_arm):
        out.append(ctx.bad(spec, "child keys are not sorted when sort_keys is set: %s" % arms, t[0].ast, mod, key="sorted-children"))
    else:
        out.append(ctx.err(spec, "what is sorted under sort_keys is not recognised: %s" % t_arm[:120], t[0].ast, mod))
    # default of sort_keys is True
    d = fn.args.defaults
    ps = param_names(fn)
    dv = dict(zip(ps[len(ps) - len(d):], d))
    if isinstance(dv.get("sort_keys"), ast.Constant) and dv["sort_keys"].value is True:
        out.append(ctx.ok(spec, "sort_keys defaults to True", fn, mod, key="sort-default"))
    else:
        out.append(ctx.bad(spec, "sort_keys does not default to True", fn, mod, key="sort-default"))
    spec2 = "descriptor:P2WSHSortedMulti.__init__"
    mod2, fn2 = rl.get(ctx, spec2)
    cfg2 = cfg_of(fn2)
    t2 = [n for n in cfg2.tests() if isinstance(n.ast, ast.Name) and n.ast.id == "sort_key_records"]
    good = False
    if t2:
        for s, l in cfg2.succ[t2[0].id]:
            a = cfg2.nodes[s].ast
            if l is True and isinstance(a, ast.Assign) and isinstance(a.value, ast.Call) and call_name(a.value) == "sorted" and "xpub_parent" in ast.unparse(a.value):
                good = True
    if not good:
        # the order of the records in the text is also decided by evaluation (C16.16: every supply order gives the text sorted by the xpub shown);
        # the syntactic form `x = sorted(..., key=xpub_parent)` is the fallback reading
        cells = c16_16(ctx)
        by_cells = bool(cells) and all(r.status == "ok" for r in cells)
    else:
        by_cells = False
    if by_cells:
        out.append(ctx.ok(spec2, "key records reach the text sorted by parent xpub: decided by the text-of-a-key-set cells (C16.16)", fn2, mod2, key="sorted-records"))
    else:
        out.append(ctx.ok(spec2, "key records are sorted by parent xpub before the text is generated", t2[0].ast, mod2, key="sorted-records") if good else
                   ctx.bad(spec2, "key records are not sorted before the descriptor text is generated", fn2, mod2, key="sorted-records"))
    # the text is generated from the sorted list
    loops = [lp for lp in cfg2.loops.values() if isinstance(lp.stmt, ast.For) and any(isinstance(x, ast.AugAssign) and ast.unparse(x.target) == "descriptor_text" for x in ast.walk(lp.stmt))]
    if loops and ast.unparse(loops[0].stmt.iter) == "key_records_to_save" and t2 and loops[0].stmt.lineno > t2[0].lineno:
        out.append(ctx.ok(spec2, "descriptor text is generated from the (sorted) saved key records", loops[0].stmt, mod2, key="text-from-sorted"))
    else:
        out.append(ctx.bad(spec2, "descriptor text is not generated from the sorted key-record list", fn2, mod2, key="text-from-sorted"))
    return out


def _get_address_terms(ctx):
    """P2WSHSortedMulti.get_address over free terms: three key records whose derived keys sort differently from the records, the
    xpub parser / child derivation / script classes / sha256 are stand-ins that record their arguments.  For every combination of
    is_change x sort_keys x offset the address must be P2WSH(sha256(m <keys> n CHECKMULTISIG)) with key_i =
    parent_i.child(account_i [+1 for change]).child(offset), the keys in BIP67 order when sort_keys."""
    from sa.cells import Evaluator, Obj, Raised, Undecided
    spec = "descriptor:P2WSHSortedMulti.get_address"
    mod, fn = rl.get(ctx, spec)
    recs = [{"xpub_parent": "xpubC", "account_index": 0, "xfp": "aa", "path": "m/48h"}, {"xpub_parent": "xpubA", "account_index": 0, "xfp": "bb", "path": "m/48h"},
            {"xpub_parent": "xpubB", "account_index": 7, "xfp": "cc", "path": "m/48h"}]

    def sec_of(name, path):
        return bytes([2, ord(name[-1])]) + b"".join(i.to_bytes(2, "big") for i in path) + bytes(27)

    def opaque(name, args, kw):
        if name == "number_to_op_code":
            return ("OPN", args[0])
        if name == "sha256":
            return ("sha256", args[0])
        return NotImplemented

    def hd_child(o, i, *a, **k):
        return Obj("hd", "HDPublicKey", {"name": o.attrs["name"], "path": o.attrs["path"] + (i,)})

    def script_init(o, commands=None, *a, **k):
        o.attrs["commands"] = list(commands or [])

    def spk_init(o, h=None, *a, **k):
        o.attrs["h"] = h
    hooks = {("HDPublicKey", "parse"): lambda cls, x, *a, **k: Obj("hd", "HDPublicKey", {"name": x, "path": ()}), ("HDPublicKey", "child"): hd_child,
             ("HDPublicKey", "sec"): lambda o, *a, **k: sec_of(o.attrs["name"], o.attrs["path"]),
             ("WitnessScript", "__init__"): script_init, ("WitnessScript", "raw_serialize"): lambda o: ("raw", tuple(o.attrs["commands"])),
             ("P2WSHScriptPubKey", "__init__"): spk_init, ("P2WSHScriptPubKey", "address"): lambda o, network="mainnet", **k: ("addr", o.attrs["h"], network)}
    seen = {}
    cells = 0
    for is_change in (False, True):
        for sort_keys in (True, False):
            for offset in (0, 5):
                cells += 1
                me = Obj("descriptor", "P2WSHSortedMulti", {"quorum_m": 2, "key_records": [dict(r) for r in recs], "network": "testnet", "sort_key_records": True})
                try:
                    r = Evaluator(ctx.repo, opaque=opaque, method_hooks=hooks).call(spec, [], kwargs={"offset": offset, "is_change": is_change, "sort_keys": sort_keys}, self_obj=me)
                except Raised as x:
                    return [ctx.bad(spec, "get_address(offset=%d, is_change=%s, sort_keys=%s) raises %s" % (offset, is_change, sort_keys, x.name), fn, mod, key="script-shape")]
                keys = [sec_of(k["xpub_parent"], (k["account_index"] + (1 if is_change else 0), offset)) for k in recs]
                if sort_keys:
                    keys = sorted(keys)
                want = ("addr", ("sha256", ("raw", (("OPN", 2),) + tuple(keys) + (("OPN", 3), 174))), "testnet")
                seen[(is_change, sort_keys, offset)] = r
                if r == want:
                    continue
                what = "get_address(offset=%d, is_change=%s, sort_keys=%s)" % (offset, is_change, sort_keys)
                if not (isinstance(r, tuple) and len(r) == 3 and r[0] == "addr"):
                    raise Undecided("result %r" % (r,))
                if r[2] != "testnet":
                    return [ctx.bad(spec, "%s: the address is encoded for network %r, not the descriptor's network" % (what, r[2]), fn, mod, key="script-shape")]
                h = r[1]
                if not (isinstance(h, tuple) and h[0] == "sha256" and isinstance(h[1], tuple) and h[1][0] == "raw"):
                    return [ctx.bad(spec, "%s: the address is not P2WSH(sha256(witness script))" % what, fn, mod, key="script-shape")]
                cmds = list(h[1][1])
                got_keys = [c for c in cmds if isinstance(c, bytes)]
                if sorted(got_keys) != sorted(keys):
                    other = [sec_of(k["xpub_parent"], (k["account_index"] + (0 if is_change else 1), offset)) for k in recs]
                    if sorted(got_keys) == sorted(other):
                        return [ctx.bad(spec, "%s: the keys are derived on the %s branch" % (what, "receive" if is_change else "change"), fn, mod, key="branches-differ")]
                    return [ctx.bad(spec, "%s: the script's keys are not parent.child(branch).child(offset) of every key record" % what, fn, mod, key="derivation")]
                if got_keys != keys:
                    return [ctx.bad(spec, "%s: the keys are %s" % (what, "not in BIP67 (lexicographic) order" if sort_keys else "re-ordered although sort_keys is off"), fn, mod,
                                    key="script-shape")]
                return [ctx.bad(spec, "%s: the script is not `m <keys> n OP_CHECKMULTISIG` (got %s around the keys)" % (what, [c for c in cmds if not isinstance(c, bytes)]), fn, mod,
                                key="script-shape")]
    ctx.count("cells", cells)
    return [ctx.ok(spec, "change branch = account + 1, receive branch = account: never equal (free-term evaluation, %d combinations)" % cells, fn, mod, key="branches-differ"),
            ctx.ok(spec, "leaf key = parent.child(branch).child(offset)", fn, mod, key="derivation"),
            ctx.ok(spec, "script = m <keys> n OP_CHECKMULTISIG; address = P2WSH(sha256(script))", fn, mod, key="script-shape")]


def c16_5(ctx):
    from sa.cells import Undecided
    try:
        return _get_address_terms(ctx)
    except Undecided:
        pass
    spec = "descriptor:P2WSHSortedMulti.get_address"
    mod, fn = rl.get(ctx, spec)
    cfg = cfg_of(fn)
    t = [n for n in cfg.tests() if "is_change" in ast.unparse(n.ast) and n.loops]
    arms = {}
    if t:
        for s, l in cfg.succ[t[0].id]:
            a = cfg.nodes[s].ast
            if isinstance(a, ast.Assign):
                arms[l] = a.value
    else:
        # conditional expression: account = X if is_change else Y
        for n in cfg.stmts(("stmt",)):
            a = n.ast
            if isinstance(a, ast.Assign) and isinstance(a.value, ast.IfExp) and "is_change" in ast.unparse(a.value.test) and n.loops:
                pos = not (isinstance(a.value.test, ast.UnaryOp) and isinstance(a.value.test.op, ast.Not))
                arms[pos] = a.value.body
                arms[not pos] = a.value.orelse
                t = [n]
    if not t:
        raise AnalysisError("get_address: is_change test not found")
    if len(arms) != 2:
        raise AnalysisError("get_address: account selection not recognised")
    f = Folder(ctx.repo, mod.name)

    def off(e):
        if isinstance(e, ast.BinOp) and isinstance(e.op, (ast.Add, ast.Sub)) and isinstance(f.fold(e.right), int):
            return ast.unparse(e.left), (f.fold(e.right) if isinstance(e.op, ast.Add) else -f.fold(e.right))
        return ast.unparse(e), 0
    (b1, o1), (b2, o2) = off(arms[True]), off(arms[False])
    out = []
    if b1 == b2 and o1 != o2:
        out.append(ctx.ok(spec, "change branch = %s%+d, receive branch = %s%+d: never equal" % (b1, o1, b2, o2), t[0].ast, mod, key="branches-differ"))
    else:
        out.append(ctx.bad(spec, "change and receive branches `%s` / `%s` can coincide" % (ast.unparse(arms[True]), ast.unparse(arms[False])), t[0].ast, mod, key="branches-differ"))
    # derivation: parent.child(account).child(offset)
    src = ast.unparse(fn)
    if "hdpubkey.child(account).child(offset)" in src:
        out.append(ctx.ok(spec, "leaf key = parent.child(branch).child(offset)", fn, mod, key="derivation"))
    else:
        out.append(ctx.err(spec, "leaf key derivation idiom parent.child(branch).child(offset) not recognised", fn, mod))
    # script: m, keys, n = len(key_records), OP_CHECKMULTISIG; address = P2WSH(sha256(script))
    if "number_to_op_code(self.quorum_m)" in src and "number_to_op_code(len(self.key_records))" in src and "commands.append(174)" in src \
            and "P2WSHScriptPubKey(sha256(witness_script.raw_serialize()))" in src:
        out.append(ctx.ok(spec, "script = m <keys> n OP_CHECKMULTISIG; address = P2WSH(sha256(script))", fn, mod, key="script-shape"))
    else:
        out.append(ctx.err(spec, "witness script construction idiom not recognised", fn, mod))
    return out


def c16_6(ctx):
    spec = "descriptor:P2WSHSortedMulti.parse"
    mod, fn = rl.get(ctx, spec)

    def match(node, ex, atoms):
        t = node.ast
        r = rl.rel_x(fn, node, lambda e: "quorum_m" in ast.unparse(e), "len(key_records)")
        if r in (">", "<="):
            return BAD_TRUE if r == ">" else BAD_FALSE
        return None
    return [rl.guard(ctx, spec, match, what="threshold greater than the number of keys is refused", key="m<=n")]


def c16_7(ctx):
    """addresses exist for every unhardened offset / branch: HDPublicKey.child accepts exactly [0, 2^31 - 1]"""
    from rules.C08 import c08_1
    return c08_1(ctx)


def _group_language(pattern, index):
    """(min width, max width, characters that may occur) of capturing group `index` of a regular expression"""
    import re._parser as sre
    tree = sre.parse(pattern)
    found = []

    def chars_of(items):
        out = set()
        for op, av in items:
            opn = str(op)
            if opn == "LITERAL":
                out.add(chr(av))
            elif opn == "ANY":
                out |= {chr(c) for c in range(32, 127)}
            elif opn == "IN":
                neg = any(str(o2) == "NEGATE" for o2, _ in av)
                cs = set()
                for o2, a2 in av:
                    if str(o2) == "LITERAL":
                        cs.add(chr(a2))
                    elif str(o2) == "RANGE":
                        cs |= {chr(c) for c in range(a2[0], a2[1] + 1)}
                    elif str(o2) == "CATEGORY":
                        nm = str(a2)
                        if nm.endswith("CATEGORY_DIGIT"):
                            cs |= set("0123456789")
                        elif nm.endswith("CATEGORY_WORD"):
                            cs |= set("0123456789_abcdefghijklmnopqrstuvwxyzABCDEFGHIJKLMNOPQRSTUVWXYZ")
                        else:
                            cs |= {chr(c) for c in range(32, 127)}
                out |= ({chr(c) for c in range(32, 127)} - cs) if neg else cs
            elif opn in ("MAX_REPEAT", "MIN_REPEAT", "POSSESSIVE_REPEAT"):
                out |= chars_of(av[2])
            elif opn == "SUBPATTERN":
                out |= chars_of(av[3])
            elif opn == "BRANCH":
                for b in av[1]:
                    out |= chars_of(b)
        return out

    def walk(items):
        for op, av in items:
            opn = str(op)
            if opn == "SUBPATTERN":
                if av[0] == index:
                    lo, hi = av[3].getwidth()
                    found.append((lo, hi, chars_of(av[3])))
                walk(av[3])
            elif opn in ("MAX_REPEAT", "MIN_REPEAT", "POSSESSIVE_REPEAT"):
                walk(av[2])
            elif opn == "BRANCH":
                for b in av[1]:
                    walk(b)
    walk(tree)
    return found[0] if found else None


def c16_8(ctx):
    """the key-record reader accepts every key origin the writer emits: the derivation-path capture of the key-record regular
    expression is nullable (an origin `[xfp]` with path `m` has nothing after the fingerprint) and admits `/`, digits and both
    hardened notations (regex syntax tree, no matching is run)"""
    spec = "descriptor:parse_partial_key_record"
    mod, fn = rl.get(ctx, spec)
    f = Folder(ctx.repo, mod.name)
    pats = []
    for c in ast.walk(fn):
        if not (isinstance(c, ast.Call) and call_name(c) in ("match", "fullmatch", "search", "compile") and c.args and isinstance(c.func, ast.Attribute)):
            continue
        recv = c.func.value
        if dotted(recv) == "re":
            pats.append(f.fold(c.args[0]))
        elif isinstance(recv, ast.Name):
            # a pattern compiled once at module level: PATTERN = re.compile(r"...")
            r_ = ctx.repo.resolve_name(mod.name, recv.id)
            v = ctx.repo.modules[r_[0]].constants.get(r_[1]) if r_ else None
            if isinstance(v, ast.Call) and call_name(v) == "compile" and v.args:
                pats.append(Folder(ctx.repo, r_[0]).fold(v.args[0]))
    pats = [p for p in pats if isinstance(p, str)]
    if not pats:
        raise AnalysisError("parse_partial_key_record: regular expression not found")
    g = _group_language(pats[0], 2)
    if g is None:
        raise AnalysisError("parse_partial_key_record: second capturing group (derivation path) not found")
    lo, hi, chars = g
    need = set("/0123456789h'")
    out = []
    if lo > 0:
        out.append(ctx.bad(spec, "the derivation-path group of %r needs at least %d character(s): a key origin whose path is `m` (written `[xfp]xpub...`) is emitted by the "
                                 "descriptor but no longer parses, so str() -> parse() fails" % (pats[0], lo), fn, mod, key="origin-path-nullable"))
    else:
        out.append(ctx.ok(spec, "the derivation-path group may be empty (origin path `m`)", fn, mod, key="origin-path-nullable"))
    if need - chars:
        out.append(ctx.bad(spec, "the derivation-path group of %r cannot contain %s" % (pats[0], sorted(need - chars)), fn, mod, key="origin-path-alphabet"))
    else:
        out.append(ctx.ok(spec, "the derivation-path group admits `/`, digits, `h` and `'`", fn, mod, key="origin-path-alphabet"))
    return out


def c16_10(ctx):
    """the checksum is compared as written: the parser neither matches case-insensitively nor folds the case of the captured checksum
    (every single-character alteration must be detected, and an upper-cased letter is an alteration)"""
    spec = "descriptor:P2WSHSortedMulti.parse"
    mod, fn = rl.get(ctx, spec)
    out = []
    calls = [c for c in ast.walk(fn) if isinstance(c, ast.Call) and call_name(c) in ("match", "fullmatch", "search", "compile") and dotted(c.func.value if isinstance(c.func, ast.Attribute) else c.func) == "re"]
    if not calls:
        raise AnalysisError("P2WSHSortedMulti.parse: regular expression call not found")
    for c in calls:
        flags = list(c.args[2:]) + [k.value for k in c.keywords if k.arg == "flags"]
        ftxt = " ".join(ast.unparse(f) for f in flags)
        pat = Folder(ctx.repo, mod.name).fold(c.args[0]) if c.args else None
        inline = isinstance(pat, str) and "(?i" in pat
        if "IGNORECASE" in ftxt or re.search(r"\bre\.I\b", ftxt) or inline:
            out.append(ctx.bad(spec, "the descriptor is matched case-insensitively (`%s`): `#T0v98kwu` for `#t0v98kwu`, or `WSH(` for `wsh(`, is accepted -- a single altered "
                                     "character goes undetected" % (ftxt or "(?i)"), c, mod, key="case-sensitive"))
        else:
            out.append(ctx.ok(spec, "the regular expression is matched case-sensitively", c, mod, key="case-sensitive"))
    cfg = cfg_of(fn)
    rets = [n for n in cfg.returns() if n.ast is not None and isinstance(n.ast.value, ast.Call)]
    for n in rets:
        kw = {k.arg: k.value for k in n.ast.value.keywords}
        if "checksum" in kw:
            ex = expand(fn, n.id, kw["checksum"], depth=6)
            folds = [x.func.attr for x in ast.walk(ex) if isinstance(x, ast.Call) and isinstance(x.func, ast.Attribute) and x.func.attr in ("lower", "upper", "casefold", "swapcase", "title")]
            # the same for definitions reaching through if-arms (expand stops at joins): look at every assignment to the name
            nm = kw["checksum"].id if isinstance(kw["checksum"], ast.Name) else None
            if nm:
                for st in ast.walk(fn):
                    if isinstance(st, ast.Assign) and any(isinstance(t, ast.Name) and t.id == nm for t in st.targets):
                        folds += [x.func.attr for x in ast.walk(st.value) if isinstance(x, ast.Call) and isinstance(x.func, ast.Attribute) and x.func.attr in ("lower", "upper", "casefold", "swapcase", "title")]
            if folds:
                out.append(ctx.bad(spec, "the captured checksum is case-folded (.%s()) before it is verified: an upper-cased checksum character is accepted" % folds[0], n.ast, mod,
                                   key="checksum-verbatim"))
            else:
                out.append(ctx.ok(spec, "the captured checksum reaches the verifying constructor as written", n.ast, mod, key="checksum-verbatim"))
    return out


def c16_11(ctx):
    """PARALLEL LISTS: two lists filled side by side in one loop stay aligned.  When one of them is re-ordered afterwards (sorted by
    xpub) and the other is not, pairing them up again (`zip`) matches each key record with another record's key: the address is not
    the script over each cosigner's own child key, and depends on the order the records were supplied in"""
    mod = ctx.repo.module("descriptor")
    out = []
    pairs = 0
    for qn, fn in mod.functions.items():
        for lp in [x for x in ast.walk(fn) if isinstance(x, ast.For)]:
            apps = {}
            for c in ast.walk(lp):
                if isinstance(c, ast.Call) and isinstance(c.func, ast.Attribute) and c.func.attr == "append" and isinstance(c.func.value, ast.Name):
                    apps[c.func.value.id] = c
            if len(apps) < 2:
                continue
            resorted = set()
            for st in ast.walk(fn):
                if isinstance(st, ast.Assign) and len(st.targets) == 1 and isinstance(st.targets[0], ast.Name) and st.targets[0].id in apps \
                        and isinstance(st.value, ast.Call) and call_name(st.value) in ("sorted", "reversed") and st.value.args and dotted(st.value.args[0]) == st.targets[0].id:
                    resorted.add(st.targets[0].id)
                elif isinstance(st, ast.Expr) and isinstance(st.value, ast.Call) and isinstance(st.value.func, ast.Attribute) and st.value.func.attr in ("sort", "reverse") \
                        and isinstance(st.value.func.value, ast.Name) and st.value.func.value.id in apps:
                    resorted.add(st.value.func.value.id)
            stored = {}
            for st in ast.walk(fn):
                if isinstance(st, ast.Assign) and isinstance(st.value, ast.Name) and st.value.id in apps:
                    for t in st.targets:
                        if isinstance(t, ast.Attribute) and dotted(t.value) == "self":
                            stored[st.value.id] = t.attr
            names = sorted(apps)
            for i, a in enumerate(names):
                for b in names[i + 1:]:
                    if a in stored and b in stored:
                        pairs += 1
                        if (a in resorted) != (b in resorted):
                            # are the two attributes paired up positionally anywhere?
                            zipped = None
                            for qn2, fn2 in mod.functions.items():
                                for c in ast.walk(fn2):
                                    if isinstance(c, ast.Call) and call_name(c) == "zip" and {"self." + stored[a], "self." + stored[b]} <= {ast.unparse(x) for x in c.args}:
                                        zipped = (qn2, c)
                            if zipped:
                                s_, u_ = (a, b) if a in resorted else (b, a)
                                out.append(ctx.bad("descriptor:" + qn, "`%s` and `%s` are filled side by side, then only `%s` is re-ordered, and %s pairs them up again with `%s`: "
                                                                     "every key record is matched with another record's key" % (a, b, s_, zipped[0], ast.unparse(zipped[1])[:60]),
                                                   zipped[1], mod, key="parallel-lists:%s+%s" % (a, b)))
    if not out:
        out.append(ctx.ok("descriptor:*", "no two lists built side by side are re-ordered separately and zipped again (%d stored pair(s) inspected)" % pairs, key="parallel-lists"))
    return out


def c16_12(ctx):
    """MEMO: a derived branch / leaf key is not remembered under a key that does not determine it (fingerprint instead of xpub)"""
    from sa.memo import cache_obligation
    return cache_obligation(ctx, ["descriptor", "hd", "script"], "two key records that share a master fingerprint would get each other's branch key, and the address is no longer the "
                                                 "script over each cosigner's own child key")


def c16_9(ctx):
    """the SLIP-132 version tables decide the network of every key record (and with it xpub text and address prefix)"""
    from rules.C08 import c08_5
    return c08_5(ctx)


def c16_13(ctx):
    """SET-ORDER: no ordered result (list, serialisation, yielded sequence) of the modules this property is anchored in takes its
    order from the iteration order of a set"""
    from sa.setorder import setorder_obligation
    return setorder_obligation(ctx, ["descriptor", "hd", "script"], "the same inputs give different output from run to run")


def c16_14(ctx):
    """SHARED necessary conditions over the modules this property is anchored in: FALSY-DEFAULT, MUTABLE-DEFAULT, IDENTITY, ALIAS,
    CTOR-FORWARD (sa/shared.py)"""
    from sa.shared import shared_obligations
    return shared_obligations(ctx, ["descriptor", "hd", "script"], "the result would depend on something other than the arguments and the object's current state")


def c16_15(ctx):
    """the key records of a descriptor are separated by exactly one comma: the text is split on "," and on nothing else.  A separator
    *pattern* that also matches other characters (blanks, semicolons, runs) makes different texts parse to the same records, so a
    substitution of a separator is not detected although the checksum of the regenerated text is right"""
    import re._parser as sre
    spec = "descriptor:P2WSHSortedMulti.parse"
    mod, fn = rl.get(ctx, spec)
    out = []
    splits = []
    for n in ast.walk(fn):
        if isinstance(n, ast.Call) and isinstance(n.func, ast.Attribute) and n.func.attr == "split":
            recv = ast.unparse(n.func.value)
            if recv == "re" and len(n.args) >= 2 and "key_record" in ast.unparse(n.args[1]):
                splits.append(("re", n))
            elif "key_records" in recv:
                splits.append(("str", n))
    if not splits:
        return [ctx.err(spec, "how the key records are separated is not recognised", fn, mod)]
    f = Folder(ctx.repo, mod.name)
    for kind, n in splits:
        if kind == "str":
            sep = f.fold(n.args[0]) if n.args else None
            if sep == ",":
                out.append(ctx.ok(spec, "key records are split on \",\" only", n, mod, key="record-separator"))
            elif isinstance(sep, str) or not n.args:
                out.append(ctx.bad(spec, "key records are split with `%s`: the separator is %s, not a single comma" % (ast.unparse(n), "any run of blanks" if not n.args else repr(sep)), n, mod,
                                   key="record-separator"))
            else:
                out.append(ctx.err(spec, "separator `%s` not foldable" % ast.unparse(n.args[0]), n, mod))
            continue
        pat = f.fold(n.args[0])
        if not isinstance(pat, str):
            out.append(ctx.err(spec, "separator pattern `%s` not foldable" % ast.unparse(n.args[0]), n, mod))
            continue
        try:
            parsed = list(sre.parse(pat))
        except Exception as e:
            out.append(ctx.err(spec, "separator pattern %r not parsable: %s" % (pat, e), n, mod))
            continue
        if len(parsed) == 1 and str(parsed[0][0]) == "LITERAL" and parsed[0][1] == ord(","):
            out.append(ctx.ok(spec, "key records are split on the pattern \",\" only", n, mod, key="record-separator"))
        else:
            out.append(ctx.bad(spec, "key records are split on the pattern %r, which matches more than a single comma (other characters or runs of them): a descriptor in which a "
                                     "separating comma was replaced parses to the same key records, so that substitution is not detected" % pat, n, mod, key="record-separator"))
    return out


def _xpub_standins():
    """Stand-in extended public keys: the string `<prefix>K<id>`; HDPublicKey.parse accepts exactly the strings listed (anything else is a
    Base58Check failure, C09's clause), .xpub() renders the key with the prefix its pub_version attribute selects -- the network default
    once the attribute has been removed, which is how the constructor normalises SLIP-132 spellings."""
    from sa.cells import Obj, Raised
    PREFIXES = {"tpub": "testnet", "Vpub": "testnet", "Upub": "testnet", "vpub": "testnet", "upub": "testnet", "xpub": "mainnet", "Zpub": "mainnet"}

    def parse(cls, s=None, *a, **k):
        if not isinstance(s, str) or len(s) < 6 or s[:4] not in PREFIXES or s[4] != "K" or not s[5:].isalnum():
            raise Raised("ValueError")
        return Obj("hd", "HDPublicKey", {"keyid": s[5:], "network": PREFIXES[s[:4]], "pub_version": s[:4], "_raw": None, "trail": ()})

    def init(o, **kw):
        o.attrs.update(kw)

    def xpub(o, *a, **k):
        pre = o.attrs.get("pub_version") or ("xpub" if o.attrs.get("network") == "mainnet" else "tpub")
        return pre + "K" + o.attrs["keyid"] + "".join("c%d" % i for i in o.attrs.get("trail", ()))

    def child(o, index=None, *a, **k):
        if not isinstance(index, int) or index < 0 or index >= 2 ** 31:
            raise Raised("ValueError")
        at = dict(o.attrs)
        at["trail"] = tuple(at.get("trail", ())) + (index,)
        return Obj("hd", "HDPublicKey", at)
    return {("HDPublicKey", "parse"): parse, ("HDPublicKey", "__init__"): init, ("HDPublicKey", "xpub"): xpub, ("HDPublicKey", "child"): child}

def c16_18(ctx):
    """writer and reader of a key record agree on the fingerprint: for every spelling of a fingerprint (lower, upper, mixed case hex; a non-hex letter; 7 and 9
    digits) the constructor's validator `is_valid_xfp_hex` and the reader `parse_partial_key_record` are evaluated on the same key record `[<xfp>/48h/1h/0h/2h]<key>`:
    what the validator admits into the text the reader must read back as written (else the descriptor the constructor just produced is refused by parse), and what the
    validator refuses the reader must refuse too.  Key parsing is a stand-in"""
    from sa.cells import Evaluator, Raised, Undecided
    spec_v, spec_r = "descriptor:is_valid_xfp_hex", "descriptor:parse_partial_key_record"
    mod, fn = rl.get(ctx, spec_r)
    hooks = _xpub_standins()
    n = 0
    try:
        for what, xfp in (("lower-case hex", "c7d0648a"), ("digits only", "12980011"), ("upper-case hex", "C7D0648A"), ("mixed-case hex", "c7D0648a"), ("a last letter in upper case", "c7d0648A"),
                          ("a letter outside hex", "c7d0648g"), ("seven digits", "c7d0648"), ("nine digits", "c7d0648a1")):
            n += 1
            admitted = Evaluator(ctx.repo, method_hooks=hooks).call(spec_v, [xfp])
            try:
                rec = Evaluator(ctx.repo, method_hooks=hooks, max_steps=1000000).call(spec_r, ["[%s/48h/1h/0h/2h]tpubKA" % xfp])
                read = rec.get("xfp") if isinstance(rec, dict) else None
            except Raised:
                read = None
            if admitted and read != xfp:
                return [ctx.bad(spec_r, "a fingerprint in %s (`%s`) is admitted by the constructor's validator and written into the descriptor text, but the reader %s: the text the "
                                        "constructor produced does not parse back to the same descriptor" % (what, xfp, "refuses the key record" if read is None else "reads it as `%s`" % read),
                                fn, mod, key="xfp-agreement")]
            if not admitted and read is not None and len(xfp) == 8:
                return [ctx.bad(spec_r, "a fingerprint with %s (`%s`) is refused by the constructor but read by the parser" % (what, xfp), fn, mod, key="xfp-agreement")]
    except Undecided as u:
        return [ctx.err(spec_r, "key record reader not evaluable: %s" % u, fn, mod)]
    ctx.count("cells", n)
    return [ctx.ok(spec_r, "%d fingerprint spellings: every one the constructor admits is read back as written, every 8-character one it refuses is refused" % n, fn, mod, key="xfp-agreement")]



def c16_16(ctx):
    if not hasattr(ctx, "_c16_16"):
        ctx._c16_16 = _c16_16(ctx)
    return ctx._c16_16


def _c16_16(ctx):
    """the descriptor text is a function of the set of cosigner keys: P2WSHSortedMulti.__init__ evaluated for 1..3 key records in every order
    they can be supplied and with every mix of SLIP-132 spellings of the same keys (tpub / Vpub / Upub …) gives one text -- the key records
    ordered by the normalised xpub that appears in it -- and the Bitcoin Core checksum of that text.  Key parsing is a stand-in"""
    import itertools
    from sa.cells import Evaluator, Obj, Raised, Undecided
    spec = "descriptor:P2WSHSortedMulti.__init__"
    mod, fn = rl.get(ctx, spec)
    hooks = _xpub_standins()
    # key ids chosen so that the order of the raw strings differs from the order of the normalised ones for some spellings
    keys = [("KB", "0f056943", "m/48h/1h/0h/2h", 0), ("KA", "bbbbbbbb", "m/45'/0", 3), ("KC", "c7d0648a", "m", 10)]
    n, texts = 0, {}
    quick = getattr(ctx, "tier", "quick") != "thorough"
    for size in (1, 2, 3):
        for m_ in ((size,) if quick else range(1, size + 1)):
            base = keys[:size]
            for spell in itertools.product(("tpub", "Vpub") if quick and size == 3 else ("tpub", "Vpub", "Upub"), repeat=size):
                for perm in itertools.permutations(range(size)):
                    n += 1
                    recs = [{"xfp": base[i][1], "path": base[i][2], "xpub_parent": spell[i] + base[i][0], "account_index": base[i][3]} for i in perm]
                    me = Obj("descriptor", "P2WSHSortedMulti", {})
                    try:
                        Evaluator(ctx.repo, method_hooks=hooks, max_steps=2000000).call(spec, [], kwargs={"quorum_m": m_, "key_records": recs}, self_obj=me)
                    except Raised as x:
                        return [ctx.bad(spec, "%d-of-%d with xpub spellings %s supplied in order %s: the constructor raises %s" % (m_, size, list(spell), list(perm), x.name), fn, mod, key="text-of-set")]
                    except Undecided as u:
                        return [ctx.err(spec, "constructor not evaluable: %s" % u, fn, mod)]
                    srt = sorted(base, key=lambda k_: "tpub" + k_[0])
                    want = "wsh(sortedmulti(%d" % m_ + "".join(",[%s%s]tpub%s/%d/*" % (k_[1], k_[2][1:], k_[0], k_[3]) for k_ in srt) + "))"
                    got = me.attrs.get("descriptor_text")
                    if got != want:
                        return [ctx.bad(spec, "%d-of-%d, the same keys spelled %s and supplied in order %s: the text is `%s`, not the key records ordered by the xpub shown in the text "
                                              "(`%s`): text and checksum of one wallet depend on how it was handed over" % (m_, size, list(spell), list(perm), got, want), fn, mod, key="text-of-set")]
                    if me.attrs.get("checksum") != _core_descsum(want):
                        return [ctx.bad(spec, "the checksum attached to `%s` is %r, Bitcoin Core's is %s" % (want, me.attrs.get("checksum"), _core_descsum(want)), fn, mod, key="text-of-set")]
    ctx.count("cells", n)
    return [ctx.ok(spec, "%d (m, n, spelling, supply order) cells: one text per key set, ordered by the normalised xpub, with Bitcoin Core's checksum" % n, fn, mod, key="text-of-set")]


def c16_17(ctx):
    """single-character substitution, evaluated: every character of a 2-of-2 descriptor outside the key material (where Base58Check, C09,
    detects it) is replaced by every other character of the descriptor character set (quick tier: the structural characters) and the altered
    text, with the original checksum, is given to P2WSHSortedMulti.parse.  Either the parser refuses, or the text the checksum is computed
    over is the altered text itself (then the checksum differs -- C16.1 decides the code equals Bitcoin Core's, whose distance covers one
    substitution); a parse that silently maps the altered text back to another text whose checksum matches is an undetected alteration"""
    from sa.cells import ClassRef, Evaluator, Obj, Raised, Undecided
    spec = "descriptor:P2WSHSortedMulti.parse"
    mod, fn = rl.get(ctx, spec)
    hooks = _xpub_standins()
    body = "wsh(sortedmulti(2,[c7d0648a/48h/1h/0h/2h]tpubKA1/10/*,[0f056943/45'/0]tpubKB2/0/*))"
    chk = _core_descsum(body)
    text = body + "#" + chk
    seen_text = []

    def checksum_standin(t):
        seen_text.append(t)
        return _core_descsum(t) or "!"
    quick = getattr(ctx, "tier", "quick") != "thorough"
    alphabet = "/*[]()',#h m019afx" if quick else CORE_INPUT_CHARSET
    protected = set()
    for token in ("tpubKA1", "tpubKB2"):
        i = body.index(token)
        protected |= set(range(i, i + len(token)))
    protected.add(len(body))   # the `#` separator is neither body nor checksum: without it the text is a descriptor without a checksum followed by ignored text
    n = 0
    try:
        # the unaltered text parses, and to itself
        del seen_text[:]
        Evaluator(ctx.repo, method_hooks=hooks, externals={"calc_core_checksum": checksum_standin}, max_steps=2000000).call(spec, [text], self_obj=ClassRef("descriptor", "P2WSHSortedMulti"))
        if seen_text[-1:] != [body]:
            return [ctx.bad(spec, "the unaltered descriptor `%s` is regenerated as `%s`" % (body, seen_text[-1:] and seen_text[-1]), fn, mod, key="substitution")]
        for pos in range(len(text)):
            if pos in protected:
                continue
            for ch in alphabet:
                if ch == text[pos]:
                    continue
                n += 1
                altered = text[:pos] + ch + text[pos + 1:]
                del seen_text[:]
                try:
                    Evaluator(ctx.repo, method_hooks=hooks, externals={"calc_core_checksum": checksum_standin}, max_steps=2000000).call(
                        spec, [altered], self_obj=ClassRef("descriptor", "P2WSHSortedMulti"))
                except Raised:
                    continue
                where = "position %d (`%s` → `%s`, in `…%s…`)" % (pos, text[pos], ch, text[max(0, pos - 6):pos + 7])
                return [ctx.bad(spec, "the descriptor altered at %s is accepted: the parser regenerates `%s` and compares its checksum, so the alteration is not detected" % (
                    where, seen_text[-1] if seen_text else "nothing"), fn, mod, key="substitution")]
    except Undecided as u:
        return [ctx.err(spec, "descriptor parser not evaluable: %s" % u, fn, mod)]
    ctx.count("cells", n)
    return [ctx.ok(spec, "%d single-character substitutions (%d positions outside the key material × %s) are all refused" % (
        n, len(text) - len(protected), "18 structural characters" if quick else "the whole descriptor character set"), fn, mod, key="substitution")]



OBLIGATIONS = [
    ("C16.17", "CELLS single substitution", c16_17),
    ("C16.16", "CELLS text of a key set", c16_16),
    ("C16.18", "CELLS fingerprint writer/reader", c16_18),
    ("C16.15", "TABLE separator", c16_15),
    ("C16.14", "SHARED", c16_14),
    ("C16.13", "SET-ORDER", c16_13),
    ("C16.1", "TABLE", c16_1),
    ("C16.2", "GUARD", c16_2),
    ("C16.3", "REGEX AST", c16_3),
    ("C16.4", "ORDER", c16_4),
    ("C16.5", "AFFINE", c16_5),
    ("C16.6", "GUARD", c16_6),
    ("C16.7", "RANGE accept-set", c16_7),
    ("C16.8", "REGEX AST", c16_8),
    ("C16.9", "TABLE", c16_9),
    ("C16.10", "REGEX flags + verbatim", c16_10),
    ("C16.11", "PARALLEL LISTS", c16_11),
    ("C16.12", "MEMO", c16_12),
]
FLOORS = {"C16.1": 5, "C16.2": 2, "C16.3": 3, "C16.4": 4, "C16.5": 3}
