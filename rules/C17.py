"""C17 — Merkle roots, SPV proofs, proof of work (structural clauses)."""
import ast

from sa import rl
from sa.cfg import cfg_of
from sa.dataflow import call_name, dotted, expand, origins
from sa.fold import Folder, Unknown, module_const
from sa.guard import BAD_FALSE, BAD_TRUE, Guard, loop_iteration_guard
from sa.interval import ISet
from sa.layoutcmp import diff, fmt_shape, pair, reader_shape
from sa.layout import ReaderExec
from sa.loader import AnalysisError, param_names
from sa.ranges import Ranges
from spec import layouts as L

EXPLANATION = (
    "Static analysis of buidl/helper.py, merkleblock.py, block.py, network.py: odd Merkle levels duplicate the last element before pairing; no "
    "floating-point operation in the partial-tree sizing; leftover hashes / non-zero leftover flag bits raise; the proof verdict is the comparison of "
    "the computed root with the header root; block header writer/reader/protocol layouts; the proof-of-work acceptance relation is hash ≤ target; "
    "compact-bits expansion never evaluates 256**negative (interval state of the exponent); retarget clamps and the MAX_TARGET cap by interval "
    "analysis; header-chain validation rejects bad PoW / broken linkage for every header; bit-field conversions are LSB-first on both sides. "
    "Not decided: SPV soundness against altered proofs, target_to_bits rounding."
)

TWO_WEEKS = 60 * 60 * 24 * 14
MAX_TARGET = 0xFFFF * 256 ** (0x1D - 3)


def c17_1(ctx):
    spec = "helper:merkle_parent_level"
    mod, fn = rl.get(ctx, spec)
    cfg = cfg_of(fn)
    p = param_names(fn)[0]
    out = []
    odd = [n for n in cfg.tests() if isinstance(n.ast, ast.Compare) and isinstance(n.ast.left, ast.BinOp) and isinstance(n.ast.left.op, ast.Mod) and "len(%s)" % p in ast.unparse(n.ast.left)]
    if not odd:
        return [ctx.bad(spec, "no test for an odd number of hashes", fn, mod, key="odd-dup")]
    n = odd[0]
    c = Folder(ctx.repo, mod.name).fold(n.ast.comparators[0])
    odd_label = (c == 1) == isinstance(n.ast.ops[0], ast.Eq)
    succ = [cfg.nodes[s] for s, l in cfg.succ[n.id] if l == odd_label]
    dup = succ and isinstance(succ[0].ast, ast.Expr) and ast.unparse(succ[0].ast) == "%s.append(%s[-1])" % (p, p)
    loops = [lp for lp in cfg.loops.values() if isinstance(lp.stmt, ast.For)]
    before = loops and n.lineno < loops[0].stmt.lineno
    if dup and before:
        out.append(ctx.ok(spec, "odd level: the last hash is appended again before pairing", succ[0].ast, mod, key="odd-dup"))
    else:
        out.append(ctx.bad(spec, "odd levels are not completed by duplicating the last hash before pairing", n.ast, mod, key="odd-dup"))
    if loops:
        it = ast.unparse(loops[0].stmt.iter)
        body = ast.unparse(loops[0].stmt)
        if it == "range(0, len(%s), 2)" % p and "merkle_parent(%s[i], %s[i + 1])" % (p, p) in body:
            out.append(ctx.ok(spec, "pairs (2i, 2i+1) are hashed left‖right", loops[0].stmt, mod, key="pairing"))
        else:
            out.append(ctx.bad(spec, "pairing loop `%s` does not hash (hashes[i], hashes[i+1]) for even i" % it, loops[0].stmt, mod, key="pairing"))
    mod2, fn2 = rl.get(ctx, "helper:merkle_parent")
    if [ast.unparse(s.value) for s in ast.walk(fn2) if isinstance(s, ast.Return)] == ["hash256(hash1 + hash2)"]:
        out.append(ctx.ok("helper:merkle_parent", "parent = hash256(left ‖ right)", fn2, mod2, key="parent"))
    else:
        out.append(ctx.bad("helper:merkle_parent", "parent is not hash256(left ‖ right)", fn2, mod2, key="parent"))
    mod3, fn3 = rl.get(ctx, "helper:merkle_root")
    src = ast.unparse(fn3)
    if "while len(current_level) > 1" in src and "merkle_parent_level(current_level)" in src:
        out.append(ctx.ok("helper:merkle_root", "levels are reduced until one hash remains", fn3, mod3, key="root-loop"))
    else:
        out.append(ctx.err("helper:merkle_root", "reduction loop idiom not recognised", fn3, mod3))
    return out


def float_sites(fn):
    bad = []
    for sub in ast.walk(fn):
        if isinstance(sub, ast.Call) and isinstance(sub.func, ast.Attribute) and isinstance(sub.func.value, ast.Name) and sub.func.value.id == "math" and sub.func.attr in ("log", "log2", "log10", "sqrt", "pow", "exp"):
            bad.append((sub, "math.%s yields a float (53-bit mantissa)" % sub.func.attr))
        elif isinstance(sub, ast.Constant) and isinstance(sub.value, float):
            bad.append((sub, "float literal %r" % sub.value))
    return bad


def c17_2(ctx):
    spec = "merkleblock:MerkleTree.__init__"
    mod, fn = rl.get(ctx, spec)
    bad = float_sites(fn)
    out = []
    if bad:
        for n, m in bad:
            out.append(ctx.bad(spec, "tree depth is computed with `%s`: %s; ceil(log(2**29, 2)) is 30, so trees with 2^29, 2^31, … leaves get the wrong depth" % (ast.unparse(n)[:60], m), n, mod, key="float-depth"))
    else:
        out.append(ctx.ok(spec, "tree sizing uses integer arithmetic only", fn, mod, key="float-depth"))
    # level sizes: ceil(total / 2**(max_depth - depth)) -- the true division has a numerator < 2^32, exact in double precision (allowlisted)
    divs = [b for b in ast.walk(fn) if isinstance(b, ast.BinOp) and isinstance(b.op, ast.Div)]
    for d in divs:
        if ast.unparse(d.left) == "self.total" and isinstance(d.right, ast.BinOp) and isinstance(d.right.op, ast.Pow):
            out.append(ctx.ok(spec, "`%s`: 32-bit numerator divided by a power of two is exact (allowlisted)" % ast.unparse(d), d, mod, key="level-size"))
        else:
            out.append(ctx.bad(spec, "true division `%s` in tree sizing" % ast.unparse(d), d, mod, key="level-size"))
    return out


def c17_3(ctx):
    spec = "merkleblock:MerkleTree.populate_tree"
    mod, fn = rl.get(ctx, spec)
    hashes = param_names(fn)[2]
    flags = param_names(fn)[1]

    def m_hashes(node, ex, atoms):
        t = node.ast
        if isinstance(t, ast.Compare) and len(t.ops) == 1 and ast.unparse(t.left) == "len(%s)" % hashes and isinstance(t.comparators[0], ast.Constant) and t.comparators[0].value == 0:
            return BAD_TRUE if isinstance(t.ops[0], (ast.NotEq, ast.Gt)) else (BAD_FALSE if isinstance(t.ops[0], ast.Eq) else None)
        if isinstance(t, ast.Name) and t.id == hashes:
            return BAD_TRUE
        return None
    out = [rl.guard(ctx, spec, m_hashes, what="unconsumed hashes make the proof invalid", key="leftover-hashes")]
    cfg = cfg_of(fn)
    loops = [lp for lp in cfg.loops.values() if isinstance(lp.stmt, ast.For) and ast.unparse(lp.stmt.iter) == flags]
    if not loops:
        out.append(ctx.bad(spec, "leftover flag bits are not examined", fn, mod, key="leftover-flags"))
    else:
        gs = [Guard(n, BAD_TRUE if isinstance(n.ast.ops[0], ast.NotEq) else BAD_FALSE) for n in cfg.tests()
              if loops[0].head in n.loops and isinstance(n.ast, ast.Compare) and isinstance(n.ast.comparators[0], ast.Constant) and n.ast.comparators[0].value == 0 and isinstance(n.ast.ops[0], (ast.Eq, ast.NotEq))]
        ok, wit = loop_iteration_guard(fn, loops[0], gs) if gs else (False, "no test")
        out.append(ctx.ok(spec, "a non-zero leftover flag bit makes the proof invalid", loops[0].stmt, mod, key="leftover-flags") if ok else
                   ctx.bad(spec, "a leftover flag bit set to 1 is accepted: %s" % wit, loops[0].stmt, mod, key="leftover-flags"))
    # matched leaves are recorded exactly under flag bit 1
    rec = [n for n in cfg.stmts(("stmt",)) if "proved_txs.append" in ast.unparse(n.ast)]
    good = False
    for n in rec:
        for p, l in cfg.pred[n.id]:
            pn = cfg.nodes[p]
            if pn.kind == "test" and ast.unparse(pn.ast) == "flag_bit == 1" and l is True:
                good = True
    out.append(ctx.ok(spec, "a leaf is reported as proved exactly when its flag bit is 1", rec[0].ast, mod, key="proved-flag") if good else
               ctx.bad(spec, "proved transactions are not recorded under `flag_bit == 1`", fn, mod, key="proved-flag"))
    return out


def _verdict_cells(ctx):
    """MerkleBlock.is_valid, Block.validate_merkle_root and Block.hash over free terms: the tree / the merkle-root function / hash256 are
    stand-ins that record what they are given and hand back a fixed 32-byte string with 32 different bytes (so that byte order shows).
    is_valid must rebuild the tree from (total, flag bits of `flags` LSB first, the hashes reversed) and be true exactly when the computed
    root, reversed, equals the header's merkle root; validate_merkle_root likewise from the reversed transaction hashes; the block hash is
    hash256(serialize()) reversed."""
    from sa.cells import Evaluator, Obj, Raised, Undecided
    out = []
    ROOT = bytes(range(100, 132))
    h1, h2 = bytes(range(32)), bytes(range(32, 64))
    # -- MerkleBlock.is_valid
    spec = "merkleblock:MerkleBlock.is_valid"
    mod, fn = rl.get(ctx, spec)
    seen = {}

    def tree_init(o, total=None, *a, **k):
        o.attrs["total"] = total

    def populate(o, flag_bits, hashes):
        seen["pop"] = ([1 if b else 0 for b in flag_bits], list(hashes), o.attrs.get("total"))
        o.attrs["populated"] = True
    hooks = {("MerkleTree", "__init__"): tree_init, ("MerkleTree", "populate_tree"): populate,
             ("MerkleTree", "root"): lambda o: ROOT if o.attrs.get("populated") else None}
    verdicts = {}
    for label, hdr_root in (("equal", ROOT[::-1]), ("not reversed", ROOT), ("other", bytes(32))):
        ctx.count("cells")
        me = Obj("merkleblock", "MerkleBlock", {"header": Obj("block", "Block", {"merkle_root": hdr_root}), "total": 3, "hashes": [h1, h2], "flags": b"\x1d", "merkle_tree": None})
        try:
            verdicts[label] = Evaluator(ctx.repo, method_hooks=hooks).call(spec, [], self_obj=me)
        except Raised as x:
            verdicts[label] = "raises %s" % x.name
    # the verdict belongs to the tree: whatever the relation between the number of hashes and the total, a proof whose rebuilt root matches is valid
    # (a block with one transaction is proved by 1 hash of 1; a proof may carry as many hashes as there are leaves)
    for total, nh in ((1, 1), (2, 2), (2, 1), (3, 3), (7, 7), (7, 1), (1000, 12)):
        ctx.count("cells")
        me = Obj("merkleblock", "MerkleBlock", {"header": Obj("block", "Block", {"merkle_root": ROOT[::-1]}), "total": total, "hashes": [bytes([i]) * 32 for i in range(nh)],
                                                 "flags": b"\x01", "merkle_tree": None})
        try:
            r = Evaluator(ctx.repo, method_hooks=hooks).call(spec, [], self_obj=me)
        except Raised as x:
            r = "raises %s" % x.name
        if r is not True:
            out.append(ctx.bad(spec, "a proof with %d hash(es) for a block of %d transaction(s) whose rebuilt root matches the header is reported %s: the verdict is decided "
                                     "before / without the tree" % (nh, total, "invalid" if r is False else r), fn, mod, key="verdict-by-tree"))
            break
    want_pop = ([1, 0, 1, 1, 1, 0, 0, 0], [h1[::-1], h2[::-1]], 3)
    seen.pop("pop", None)
    me = Obj("merkleblock", "MerkleBlock", {"header": Obj("block", "Block", {"merkle_root": ROOT[::-1]}), "total": 3, "hashes": [h1, h2], "flags": b"\x1d", "merkle_tree": None})
    try:
        Evaluator(ctx.repo, method_hooks=hooks).call(spec, [], self_obj=me)
    except Raised:
        pass
    if verdicts != {"equal": True, "not reversed": False, "other": False}:
        out.append(ctx.bad(spec, "verdict for a header root that is {the computed root reversed, the computed root as is, something else} = %s; expected true only for the first: the "
                                 "computed root (internal byte order) is compared, reversed, with the header's merkle root" % [verdicts[k] for k in ("equal", "not reversed", "other")],
                           fn, mod, key="verdict"))
    else:
        out.append(ctx.ok(spec, "verdict = (computed root, reversed to display order) == header merkle root", fn, mod, key="verdict"))
    if seen.get("pop") == want_pop:
        out.append(ctx.ok(spec, "the tree is rebuilt from the message's total, flag bits and hashes", fn, mod, key="inputs"))
    else:
        got = seen.get("pop")
        what = "never populated" if got is None else ("total %r" % (got[2],) if got[2] != 3 else ("flag bits %s" % got[0] if got[0] != want_pop[0] else "hashes not reversed / not all handed on"))
        out.append(ctx.bad(spec, "the tree is not rebuilt from (total, flag bits LSB first, reversed hashes): %s" % what, fn, mod, key="inputs"))
    # -- Block.validate_merkle_root
    spec2 = "block:Block.validate_merkle_root"
    mod2, fn2 = rl.get(ctx, spec2)
    got_args = {}

    def opaque(name, args, kw):
        if name == "merkle_root":
            got_args["hashes"] = list(args[0])
            return ROOT
        if name == "hash256":
            got_args["hashed"] = args[0]
            return ROOT
        return NotImplemented
    # honest blocks of 1..9 transactions, with the library's own merkle_root followed in the tree (its level function pads odd levels in
    # place, which a check placed after it can see) and the pairing hash as a free function
    import hashlib as _hl
    par = lambda a, b: _hl.sha256(b"parent:" + bytes(a) + bytes(b)).digest()

    def ref_root(hs):
        lvl = list(hs)
        while len(lvl) > 1:
            if len(lvl) % 2:
                lvl.append(lvl[-1])
            lvl = [par(lvl[i], lvl[i + 1]) for i in range(0, len(lvl), 2)]
        return lvl[0]

    def opaque2(name, args, kw):
        if name == "merkle_parent":
            return par(args[0], args[1])
        return NotImplemented
    for n in range(1, 10):
        ctx.count("cells")
        txh = [bytes([i + 1]) * 32 for i in range(n)]
        root = ref_root([h[::-1] for h in txh])[::-1]
        for label, hdr, want_v in (("its own root", root, True), ("another root", bytes(32), False)):
            me = Obj("block", "Block", {"merkle_root": hdr, "tx_hashes": list(txh), "txs": None})
            try:
                r = Evaluator(ctx.repo, opaque=opaque2).call(spec2, [], self_obj=me)
            except Raised as x:
                r = "raises %s" % x.name
            if r is not want_v:
                out.append(ctx.bad(spec2, "an honest block of %d distinct transaction(s) whose header carries %s is reported %s" % (n, label, r), fn2, mod2, key="block-verdict-honest"))
                break
        else:
            continue
        break
    v2 = {}
    for label, hdr_root in (("equal", ROOT[::-1]), ("not reversed", ROOT), ("other", bytes(32))):
        ctx.count("cells")
        me = Obj("block", "Block", {"merkle_root": hdr_root, "tx_hashes": [h1, h2], "txs": None})
        try:
            v2[label] = Evaluator(ctx.repo, opaque=opaque).call(spec2, [], self_obj=me)
        except Raised as x:
            v2[label] = "raises %s" % x.name
    if v2 == {"equal": True, "not reversed": False, "other": False} and got_args.get("hashes") == [h1[::-1], h2[::-1]]:
        out.append(ctx.ok(spec2, "verdict = merkle_root(tx hashes) == header merkle root", fn2, mod2, key="block-verdict"))
    else:
        out.append(ctx.bad(spec2, "verdicts %s (expected true only for a header root equal to the reversed computed root), merkle_root() given %s" % (
            [v2[k] for k in ("equal", "not reversed", "other")], "the reversed tx hashes" if got_args.get("hashes") == [h1[::-1], h2[::-1]] else "something other than the reversed tx hashes"),
            fn2, mod2, key="block-verdict"))
    return out


def c17_4(ctx):
    from sa.cells import Undecided
    try:
        return _verdict_cells(ctx)
    except Undecided:
        return _c17_4_text(ctx)


def _c17_4_text(ctx):
    spec = "merkleblock:MerkleBlock.is_valid"
    mod, fn = rl.get(ctx, spec)
    cfg = cfg_of(fn)
    out = []
    for n in cfg.returns():
        v = n.ast.value if n.ast is not None else None
        if isinstance(v, ast.Compare) and isinstance(v.ops[0], ast.Eq) and {ast.unparse(v.left), ast.unparse(v.comparators[0])} == {"self.merkle_tree.root()[::-1]", "self.header.merkle_root"}:
            out.append(ctx.ok(spec, "verdict = (computed root, reversed to display order) == header merkle root", v, mod, key="verdict"))
        else:
            out.append(ctx.err(spec, "verdict `%s` not recognised as the comparison of the computed root with the header's merkle root" % (ast.unparse(v) if v is not None else None), n.ast or fn, mod))
    src = ast.unparse(fn)
    rev = "[h[::-1] for h in self.hashes]" in src or ("for h in self.hashes" in src and "hashes.append(h[::-1])" in src)
    if "MerkleTree(self.total)" in src and "populate_tree(flag_bits, hashes)" in src and "bytes_to_bit_field(self.flags)" in src and rev:
        out.append(ctx.ok(spec, "the tree is rebuilt from the message's total, flag bits and hashes", fn, mod, key="inputs"))
    else:
        out.append(ctx.err(spec, "proof reconstruction idiom not recognised", fn, mod))
    # Block.validate_merkle_root
    mod2, fn2 = rl.get(ctx, "block:Block.validate_merkle_root")
    rets = [s.value for s in ast.walk(fn2) if isinstance(s, ast.Return)]
    if rets and isinstance(rets[0], ast.Compare) and isinstance(rets[0].ops[0], ast.Eq) and "self.merkle_root" in ast.unparse(rets[0]) and "merkle_root(hashes)" in ast.unparse(fn2):
        out.append(ctx.ok("block:Block.validate_merkle_root", "verdict = merkle_root(tx hashes) == header merkle root", fn2, mod2, key="block-verdict"))
    else:
        out.append(ctx.err("block:Block.validate_merkle_root", "verdict not recognised as the comparison with the header merkle root", fn2, mod2))
    return out


MERKLEBLOCK = [("nested", "header", ""), ("int", 4, "LE", "total"), ("count", "hashes"), ("repeat", "hashes", [("bytes", 32, "rev", "<elem>")]), ("varint", None), ("bytes", None, "", "flags")]


def _block_hash_cells(ctx, hf, hm, shown):
    """Block.hash evaluated with serialize() and hash256 as stand-ins (the digest has 32 different bytes)"""
    from sa.cells import Evaluator, Obj, Raised, Undecided
    D = bytes(range(100, 132))
    given = {}

    def opaque(name, args, kw):
        if name == "hash256":
            given["x"] = args[0]
            return D
        return NotImplemented
    try:
        r = Evaluator(ctx.repo, opaque=opaque, method_hooks={("Block", "serialize"): lambda o: b"HEADER80"}).call("block:Block.hash", [], self_obj=Obj("block", "Block", {}))
    except Undecided as u:
        return ctx.err("block:Block.hash", "block hash `%s` not evaluable: %s" % (shown, u), hf, hm)
    except Raised as x:
        return ctx.bad("block:Block.hash", "Block.hash raises %s" % x.name, hf, hm, key="hash")
    if r == D[::-1] and given.get("x") == b"HEADER80":
        return ctx.ok("block:Block.hash", "hash256(serialize())[::-1]", hf, hm, key="hash")
    return ctx.bad("block:Block.hash", "block hash is %s of %s, expected hash256 of the 80-byte serialisation, reversed" % (
        "the digest as is" if r == D else ("the reversed digest" if r == D[::-1] else "something else than the digest"),
        "the serialisation" if given.get("x") == b"HEADER80" else "something else than the serialisation"), hf, hm, key="hash")


def _header_cells(ctx):
    """Block.parse_header / Block.serialize evaluated on 80-byte headers whose bytes all differ (so every field's position, width and byte order
    shows) and whose version / timestamp take the boundary values of an unsigned 32-bit field: the parser must hand the constructor
    version(4 LE), prev_block(32, reversed), merkle_root(32, reversed), timestamp(4 LE), bits(4), nonce(4), and serialize must write the same
    80 bytes back.  None when outside the evaluator's subset."""
    from sa.cells import ClassRef, Evaluator, FileStandIn, Obj, Raised, Undecided
    wspec, rspec = "block:Block.serialize", "block:Block.parse_header"
    wm, wf = rl.get(ctx, wspec)
    rm, rf = rl.get(ctx, rspec)
    out = []
    try:
        for ver, ts in ((0x04030201, 0x60504030), (0xFFFFFFFF, 0x80000000), (0x80000001, 0), (1, 0xFFFFFFFF)):
            ctx.count("cells")
            raw = ver.to_bytes(4, "little") + bytes(range(10, 42)) + bytes(range(50, 82)) + ts.to_bytes(4, "little") + bytes([0xA1, 0xA2, 0xA3, 0xA4]) + bytes([0xB1, 0xB2, 0xB3, 0xB4])
            want = {"version": ver, "prev_block": bytes(range(10, 42))[::-1], "merkle_root": bytes(range(50, 82))[::-1], "timestamp": ts, "bits": bytes([0xA1, 0xA2, 0xA3, 0xA4]),
                    "nonce": bytes([0xB1, 0xB2, 0xB3, 0xB4])}
            st = FileStandIn(raw + b"TAIL")
            try:
                b = Evaluator(ctx.repo).call(rspec, [st], self_obj=ClassRef("block", "Block"))
            except Raised as x:
                out.append(ctx.bad(rspec, "a header with version %#x and timestamp %#x cannot be parsed (%s)" % (ver, ts, x.name), rf, rm, key="rspec:header"))
                break
            got = {k: b.attrs.get(k) for k in want} if isinstance(b, Obj) else {}
            diff_ = [k for k in want if got.get(k) != want[k]]
            if diff_ or st.pos != 80:
                what = "reads %d bytes" % st.pos if st.pos != 80 else "field `%s` is %s, the protocol says %s" % (
                    diff_[0], got.get(diff_[0]).hex() if isinstance(got.get(diff_[0]), bytes) else got.get(diff_[0]), want[diff_[0]].hex() if isinstance(want[diff_[0]], bytes) else want[diff_[0]])
                out.append(ctx.bad(rspec, "header reader differs from the 80-byte protocol header: %s" % what, rf, rm, key="rspec:header"))
                break
            try:
                w = Evaluator(ctx.repo).call(wspec, [], self_obj=b)
            except Raised as x:
                out.append(ctx.bad(wspec, "a parsed header with version %#x and timestamp %#x cannot be serialised again (%s)" % (ver, ts, x.name), wf, wm, key="wr:header"))
                break
            if w != raw:
                where = next((i for i in range(min(len(w), 80)) if w[i] != raw[i]), min(len(w), 80)) if isinstance(w, bytes) else 0
                out.append(ctx.bad(wspec, "header writer and reader disagree: serialize(parse_header(h)) differs from h at byte %d (%d bytes written)" % (where, len(w) if isinstance(w, bytes) else -1),
                                   wf, wm, key="wr:header"))
                break
    except Undecided:
        return None
    if not out:
        out = [ctx.ok(wspec, "writer ≡ reader (serialize(parse_header(h)) = h on headers with all-different bytes and boundary version / timestamp)", wf, wm, key="wr:header"),
               ctx.ok(wspec, "writer equals the 80-byte protocol header", wf, wm, key="spec:header"),
               ctx.ok(rspec, "reader equals the 80-byte protocol header", rf, rm, key="rspec:header"),
               ctx.ok(rspec, "fields read sum to 80 bytes", rf, rm, key="sum80")]
    return out


def c17_5(ctx):
    hdr = _header_cells(ctx)
    if hdr is not None:
        return hdr + _c17_5_rest(ctx)
    return _c17_5_layout(ctx)


def _c17_5_rest(ctx):
    """Block.hash and the merkleblock reader (the parts of C17.5 other than the header codec)"""
    out = []
    hm, hf = rl.get(ctx, "block:Block.hash")
    cfg = cfg_of(hf)
    r = [ast.unparse(expand(hf, n.id, n.ast.value)) for n in cfg.returns()]
    if r == ["hash256(self.serialize())[::-1]"]:
        out.append(ctx.ok("block:Block.hash", "hash256(serialize())[::-1]", hf, hm, key="hash"))
    else:
        out.append(_block_hash_cells(ctx, hf, hm, r))
    mspec = "merkleblock:MerkleBlock.parse"
    mm, mf = rl.get(ctx, mspec)
    reads = ReaderExec(ctx.repo, mm, mf).run()
    ms = reader_shape(ctx.repo, mm, mf, reads)
    d4 = diff(MERKLEBLOCK, ms)
    out.append(ctx.ok(mspec, "reader equals BIP37 merkleblock: header ‖ total(4 LE) ‖ hashes ‖ flags", mf, mm, key="merkleblock") if d4 is None else
               ctx.bad(mspec, "merkleblock reader differs from BIP37 at %s; reader %s" % (d4, fmt_shape(ms)), mf, mm, key="merkleblock"))
    return out


def _c17_5_layout(ctx):
    out = []
    wspec, rspec = "block:Block.serialize", "block:Block.parse_header"
    wm, wf = rl.get(ctx, wspec)
    rm, rf = rl.get(ctx, rspec)
    ws, rs, d, wt, rt = pair(ctx.repo, wspec, rspec, stream="stream")
    rs = [e for e in rs if e[0] != "alt"]
    d = diff(ws, rs)
    out.append(ctx.ok(wspec, "writer %s ≡ reader" % fmt_shape(ws), wf, wm, key="wr:header") if d is None else
               ctx.bad(wspec, "header writer and reader disagree at %s; writer %s; reader %s" % (d, fmt_shape(ws), fmt_shape(rs)), wf, wm, key="wr:header"))
    d2 = diff(ws, L.BLOCK_HEADER)
    out.append(ctx.ok(wspec, "writer equals the 80-byte protocol header", wf, wm, key="spec:header") if d2 is None else
               ctx.bad(wspec, "header writer differs from the protocol at %s; writer %s; protocol %s" % (d2, fmt_shape(ws), fmt_shape(L.BLOCK_HEADER)), wf, wm, key="spec:header"))
    d3 = diff(L.BLOCK_HEADER, rs)
    out.append(ctx.ok(rspec, "reader equals the 80-byte protocol header", rf, rm, key="rspec:header") if d3 is None else
               ctx.bad(rspec, "header reader differs from the protocol at %s; reader %s" % (d3, fmt_shape(rs)), rf, rm, key="rspec:header"))
    widths = [e[1] for e in rs if e[0] in ("int", "bytes") and isinstance(e[1], int)]
    out.append(ctx.ok(rspec, "fields read sum to 80 bytes" , rf, rm, key="sum80") if sum(widths) == 80 else ctx.bad(rspec, "fields read sum to %d bytes, a header has 80" % sum(widths), rf, rm, key="sum80"))
    # hash = hash256(serialize())[::-1]
    hm, hf = rl.get(ctx, "block:Block.hash")
    cfg = cfg_of(hf)
    r = [ast.unparse(expand(hf, n.id, n.ast.value)) for n in cfg.returns()]
    if r == ["hash256(self.serialize())[::-1]"]:
        out.append(ctx.ok("block:Block.hash", "hash256(serialize())[::-1]", hf, hm, key="hash"))
    else:
        out.append(_block_hash_cells(ctx, hf, hm, r))
    # merkleblock
    mspec = "merkleblock:MerkleBlock.parse"
    mm, mf = rl.get(ctx, mspec)
    reads = ReaderExec(ctx.repo, mm, mf).run()
    ms = reader_shape(ctx.repo, mm, mf, reads)
    d4 = diff(MERKLEBLOCK, ms)
    out.append(ctx.ok(mspec, "reader equals BIP37 merkleblock: header ‖ total(4 LE) ‖ hashes ‖ flags", mf, mm, key="merkleblock") if d4 is None else
               ctx.bad(mspec, "merkleblock reader differs from BIP37 at %s; reader %s" % (d4, fmt_shape(ms)), mf, mm, key="merkleblock"))
    return out


def _check_pow_cells(ctx):
    """Block.check_pow with hash256 and target() as stand-ins: the function only compares an integer made from the hash with the
    target, so the cells are hash <, =, > target -- taken for hashes whose little- and big-endian readings are ordered either way, with
    and without zero bytes at either end, and for targets around both readings and an easy (regtest-like) one"""
    from sa.cells import Evaluator, Obj, Raised, Undecided
    spec = "block:Block.check_pow"
    mod, fn = rl.get(ctx, spec)
    hashes = [bytes(range(1, 33)), bytes(range(32, 0, -1)), bytes(range(1, 29)) + bytes(4), bytes(4) + bytes(range(1, 29))]
    cells = 0
    for h in hashes:
        le, be = int.from_bytes(h, "little"), int.from_bytes(h, "big")
        for T in (le - 1, le, le + 1, be - 1, be, be + 1, 1 << 255, 1):
            cells += 1
            me = Obj("block", "Block", {"version": 1, "prev_block": bytes(32), "merkle_root": bytes(32), "timestamp": 0, "bits": b"\xff\xff\x00\x1d", "nonce": bytes(4)})

            def opaque(name, args, kw, h=h):
                if name == "hash256":
                    return h
                if name == "bits_to_target":
                    return T
                return NotImplemented
            hooks = {("Block", "serialize"): lambda o: b"HEADER", ("Block", "target"): lambda o, T=T: T}
            try:
                r = Evaluator(ctx.repo, opaque=opaque, method_hooks=hooks).call(spec, [], self_obj=me)
            except Raised as x:
                return [ctx.bad(spec, "check_pow raises %s" % x.name, fn, mod, key="pow-relation")]
            if not isinstance(r, bool):
                raise Undecided("verdict %r" % (r,))
            want = le <= T
            if r == want:
                continue
            if T == le:
                return [ctx.bad(spec, "a header whose hash equals the target is rejected; consensus accepts hash ≤ target", fn, mod, key="pow-relation")]
            if r == (be <= T) and (be <= T) != want:
                return [ctx.bad(spec, "the hash is compared as a big-endian number of hash256(header) (the hash is a little-endian 256-bit integer)", fn, mod, key="pow-hash")]
            if want and not r:
                return [ctx.bad(spec, "a header with hash %s… is rejected under target %#x although hash ≤ target: a shortcut that is only implied by hash ≤ target for some "
                                      "targets (e.g. leading zero bytes, for targets up to 2^224) fails valid headers of easier targets (regtest 207fffff, signet)" % (
                                          h[::-1].hex()[:16], T), fn, mod, key="pow-early-reject")]
            return [ctx.bad(spec, "a header with hash %s… is accepted under target %#x although hash > target" % (h[::-1].hex()[:16], T), fn, mod, key="pow-relation")]
    ctx.count("cells", cells)
    return [ctx.ok(spec, "a header is accepted iff hash ≤ target (%d hash/target cells)" % cells, fn, mod, key="pow-relation"),
            ctx.ok(spec, "the hash is interpreted as a little-endian integer of hash256(header)", fn, mod, key="pow-hash")]


def c17_6(ctx):
    from sa.cells import Undecided
    try:
        return _check_pow_cells(ctx)
    except Undecided:
        pass
    spec = "block:Block.check_pow"
    mod, fn = rl.get(ctx, spec)
    cfg = cfg_of(fn)
    out = []
    for n in cfg.returns():
        v = n.ast.value
        if isinstance(v, ast.Constant) and v.value is False:
            # an early rejection: it must be implied by hash > target for *every* target, so it has to look at the target
            preds = [t for t in cfg.tests() if any(b == n.id for b, _ in cfg.succ[t.id])]
            about_target = any("target" in ast.unparse(expand(fn, t.id, t.ast, depth=4)) or "bits" in ast.unparse(expand(fn, t.id, t.ast, depth=4)) for t in preds)
            if preds and not about_target:
                out.append(ctx.bad(spec, "`%s` rejects the header without looking at its target: a shortcut that is only implied by hash <= target for some targets "
                                         "(leading zero bytes, for targets up to 2^224) fails valid headers of easier targets (regtest 207fffff, signet)" %
                                   ast.unparse(preds[0].ast), preds[0].ast, mod, key="pow-early-reject"))
            else:
                out.append(ctx.err(spec, "early `return False` not understood", v, mod))
            continue
        if not (isinstance(v, ast.Compare) and len(v.ops) == 1):
            out.append(ctx.err(spec, "verdict `%s` is not a single comparison" % ast.unparse(v), v, mod))
            continue
        l, r = ast.unparse(expand(fn, n.id, v.left)), ast.unparse(expand(fn, n.id, v.comparators[0]))
        op = type(v.ops[0])
        proof_left = "hash256" in l and "target" in r
        proof_right = "hash256" in r and "target" in l
        if not (proof_left or proof_right):
            out.append(ctx.err(spec, "verdict does not compare the header hash with the target", v, mod))
            continue
        accept_le = (proof_left and op is ast.LtE) or (proof_right and op is ast.GtE)
        accept_lt = (proof_left and op is ast.Lt) or (proof_right and op is ast.Gt)
        if accept_le:
            out.append(ctx.ok(spec, "a header is accepted iff hash ≤ target", v, mod, key="pow-relation"))
        elif accept_lt:
            out.append(ctx.bad(spec, "`%s` rejects a header whose hash equals the target; consensus accepts hash ≤ target" % ast.unparse(v), v, mod, key="pow-relation"))
        else:
            out.append(ctx.bad(spec, "proof-of-work relation `%s` is not hash ≤ target" % ast.unparse(v), v, mod, key="pow-relation"))
        hash_side = l if proof_left else r
        if "little_endian_to_int(hash256(self.serialize()))" in hash_side:
            out.append(ctx.ok(spec, "the hash is interpreted as a little-endian integer of hash256(header)", v, mod, key="pow-hash"))
        else:
            out.append(ctx.err(spec, "cannot relate the compared value `%s` to little_endian_to_int(hash256(serialize()))" % hash_side, v, mod))
    return out


def c17_7(ctx):
    spec = "helper:bits_to_target"
    mod, fn = rl.get(ctx, spec)
    cfg = cfg_of(fn)
    out = []
    # the exponent variable: bits[-1]
    evar = None
    for n in cfg.stmts(("stmt",)):
        a = n.ast
        if isinstance(a, ast.Assign) and isinstance(a.value, ast.Subscript) and ast.unparse(a.value.slice) == "-1":
            evar = a.targets[0].id
    if evar is None:
        raise AnalysisError("bits_to_target: exponent byte not found")
    ra = Ranges(ctx.repo, mod, fn, {evar: ISet.range(0, 255)}, types={evar: ISet.range(0, 255)})
    pows = []
    for n in cfg.nodes:
        if n.ast is None or n.kind not in ("stmt", "return"):
            continue
        for b in ast.walk(n.ast):
            if isinstance(b, ast.BinOp) and isinstance(b.op, ast.Pow):
                pows.append((n, b))
    if not pows:
        out.append(ctx.ok(spec, "no exponentiation: the target is computed with shifts", fn, mod, key="pow-negative"))
    for n, b in pows:
        if not ra.reachable(n.id):
            continue
        v = ra.value_at(n.id, b.right)
        if v is None:
            out.append(ctx.err(spec, "cannot bound the exponent of `%s`" % ast.unparse(b), b, mod))
        elif v.issubset(ISet.range(0, None)):
            out.append(ctx.ok(spec, "`%s`: exponent ∈ %s, always an integer power" % (ast.unparse(b), v), b, mod, key="pow-negative"))
        else:
            w = v.minus(ISet.range(0, None)).max()
            out.append(ctx.bad(spec, "`%s`: the exponent byte ranges over [0,255], so the power's exponent ∈ %s; for exponent bytes 0..2 the result is a float "
                               "(bits ffff0001 → 0.99998…), consensus shifts the mantissa right instead" % (ast.unparse(b), v), b, mod, key="pow-negative",
                               detail={"exponent_range": repr(v), "witness_exponent_byte": w + 3 if w is not None else None}))
    # mantissa: 3 bytes little endian
    src = ast.unparse(fn)
    if "little_endian_to_int(bits[:-1])" in src:
        out.append(ctx.ok(spec, "mantissa = the first three bytes, little endian", fn, mod, key="mantissa"))
    else:
        out.append(ctx.bad(spec, "mantissa is read big-endian", fn, mod, key="mantissa") if "big_endian_to_int(bits[:-1])" in src and "little_endian_to_int(bits[:-1])" not in src else
                   ctx.err(spec, "mantissa idiom little_endian_to_int(bits[:-1]) not recognised", fn, mod))
    return out


def c17_8(ctx):
    spec = "helper:calculate_new_bits"
    mod, fn = rl.get(ctx, spec)
    td = param_names(fn)[1]
    names = {"TWO_WEEKS": TWO_WEEKS, "MAX_TARGET": MAX_TARGET}

    def site_td(m, f):
        out = []
        for n in cfg_of(f).stmts(("stmt",)):
            a = n.ast
            if isinstance(a, (ast.Assign, ast.Return)) and a.value is not None:
                # the retarget product: a multiplication one operand of which is the time differential
                for b in ast.walk(a.value):
                    if isinstance(b, ast.BinOp) and isinstance(b.op, ast.Mult):
                        for x in (b.left, b.right):
                            if isinstance(x, ast.Name) and x.id == td:
                                out.append((n, x))
        return out
    out = rl.value_range(ctx, spec, site_td, ISet.range(TWO_WEEKS // 4, TWO_WEEKS * 4), {td: ISet.top()}, names, prefer=(TWO_WEEKS * 4 + 1, TWO_WEEKS // 4 - 1),
                         what="time differential used for the retarget", key="clamp")

    def site_nt(m, f):
        return [(n, c.args[0]) for n, c in rl.find_calls(f, "target_to_bits") if c.args]
    out += rl.value_range(ctx, spec, site_nt, ISet.range(None, MAX_TARGET), {}, names, prefer=(MAX_TARGET + 1,), what="new target", key="max-target")
    out.append(rl.const_eq(ctx, "helper", "TWO_WEEKS", TWO_WEEKS, "1209600 s"))
    out.append(rl.const_eq(ctx, "helper", "MAX_TARGET", MAX_TARGET, "0xffff·256^26"))
    # formula: previous target * time differential // two weeks
    src = ast.unparse(fn)
    formula = None
    divfirst = None
    for n in cfg_of(fn).stmts(("stmt", "return")):
        a = n.ast
        v = a.value if isinstance(a, (ast.Assign, ast.Return)) else None
        if v is None:
            continue
        ex = expand(fn, n.id, v, depth=4, stop=(td,))
        for b in ast.walk(ex):
            if isinstance(b, ast.BinOp) and isinstance(b.op, ast.Mult) and any(isinstance(x, ast.BinOp) and isinstance(x.op, ast.FloorDiv) and "bits_to_target" in ast.unparse(x.left)
                                                                               and Folder(ctx.repo, mod.name).fold(x.right) == TWO_WEEKS for x in (b.left, b.right)) \
                    and any(ast.unparse(x) == td for x in (b.left, b.right)):
                divfirst = b
            if isinstance(b, ast.BinOp) and isinstance(b.op, ast.FloorDiv) and isinstance(b.left, ast.BinOp) and isinstance(b.left.op, ast.Mult) \
                    and Folder(ctx.repo, mod.name).fold(b.right) == TWO_WEEKS:
                ops = (ast.unparse(b.left.left), ast.unparse(b.left.right))
                if any(o == td for o in ops) and any("bits_to_target(previous_bits)" in o for o in ops):
                    formula = (b, ops)
    if formula:
        old_t = next(o for o in formula[1] if o != td)
        if old_t == "bits_to_target(previous_bits)":
            out.append(ctx.ok(spec, "new target = old target · Δt // two weeks (integer arithmetic)", fn, mod, key="formula"))
        else:
            out.append(ctx.bad(spec, "the retarget multiplies `%s` instead of the previous target itself: clamping (or otherwise changing) the operand before scaling is not "
                                     "the consensus formula min(old_target * Δt // two_weeks, limit)" % old_t, formula[0], mod, key="formula"))
    elif divfirst is not None:
        out.append(ctx.bad(spec, "`%s` divides by two weeks before multiplying: the quotient is truncated first, so the new target (and the bits) differ from "
                                 "old_target * Δt // two_weeks" % ast.unparse(divfirst)[:80], divfirst, mod, key="formula"))
    elif any(isinstance(b, ast.BinOp) and isinstance(b.op, ast.Div) for b in ast.walk(fn)):
        out.append(ctx.bad(spec, "retarget formula uses true division", fn, mod, key="formula"))
    else:
        out.append(ctx.err(spec, "retarget formula old_target * Δt // TWO_WEEKS not recognised", fn, mod))
    return out


def c17_9(ctx):
    spec = "network:HeadersMessage.is_valid"
    mod, fn = rl.get(ctx, spec)
    cfg = cfg_of(fn)
    loops = [lp for lp in cfg.loops.values() if isinstance(lp.stmt, ast.For) and "headers" in ast.unparse(lp.stmt.iter)]
    if not loops:
        # the verdict is also decided by evaluation over messages with a header without work / a broken link (C17.19); this reading of the loop is the fallback
        cells = c17_19(ctx)
        if cells and not any(r.status == "error" for r in cells):
            good = all(r.status == "ok" for r in cells)
            if good:
                return [ctx.ok(spec, "every header must pass check_pow(): decided by the verdict cells (C17.19)", fn, mod, key="pow-each"),
                        ctx.ok(spec, "each header's prev_block must equal the hash of the previous header: decided by the verdict cells (C17.19)", fn, mod, key="linkage")]
            return [ctx.bad(spec, "is_valid accepts a message that fails proof of work or linkage (see C17.19)", fn, mod, key="pow-each")]
        raise AnalysisError("is_valid: loop over headers not found")
    lp = loops[0]
    out = []
    pow_ = [Guard(n, BAD_FALSE) for n in cfg.tests() if isinstance(n.ast, ast.Call) and call_name(n.ast) == "check_pow"]
    ok, wit = loop_iteration_guard(fn, lp, pow_) if pow_ else (False, "check_pow is not called")
    out.append(ctx.ok(spec, "every header must pass check_pow()", pow_[0].node.ast, mod, key="pow-each") if ok else
               ctx.bad(spec, "a header can be accepted without passing check_pow(): %s" % wit, lp.stmt, mod, key="pow-each"))
    if pow_ and not all(cfg.nodes[s].kind == "return" and ast.unparse(cfg.nodes[s].ast) == "return False" for s, l in cfg.succ[pow_[0].node.id] if l is False):
        out.append(ctx.bad(spec, "check_pow() false does not return False", pow_[0].node.ast, mod, key="pow-false"))
    link = [n for n in cfg.tests() if isinstance(n.ast, ast.Compare) and isinstance(n.ast.ops[0], (ast.NotEq, ast.Eq)) and "prev_block" in ast.unparse(n.ast)]
    if link:
        n = link[0]
        bad_label = isinstance(n.ast.ops[0], ast.NotEq)
        fails = all(cfg.nodes[s].kind == "return" and ast.unparse(cfg.nodes[s].ast) == "return False" for s, l in cfg.succ[n.id] if l == bad_label)
        upd = [x for x in cfg.stmts(("stmt",)) if isinstance(x.ast, ast.Assign) and ast.unparse(x.ast.targets[0]) == "last_block" and "hash()" in ast.unparse(x.ast.value) and lp.head in x.loops]
        if fails and upd and {ast.unparse(n.ast.left), ast.unparse(n.ast.comparators[0])} == {"h.prev_block", "last_block"}:
            out.append(ctx.ok(spec, "each header's prev_block must equal the hash of the previous header", n.ast, mod, key="linkage"))
        else:
            out.append(ctx.bad(spec, "header linkage is not enforced (mismatch→False: %s, last_block updated: %s)" % (fails, bool(upd)), n.ast, mod, key="linkage"))
    else:
        out.append(ctx.bad(spec, "header linkage (prev_block) is never compared", fn, mod, key="linkage"))
    return out


def c17_10(ctx):
    from rules.bitcodecs import bit_field_cells, try_cells
    out = try_cells(bit_field_cells, ctx)
    if out is None:
        out = _c17_10_text(ctx)
    return out


def _c17_10_text(ctx):
    out = []
    mod, fn = rl.get(ctx, "helper:bytes_to_bit_field")
    src = ast.unparse(fn)
    lsb_dec = "byte & 1" in src and "byte >>= 1" in src
    mod2, fn2 = rl.get(ctx, "helper:bit_field_to_bytes")
    src2 = ast.unparse(fn2)
    lsb_enc = "divmod(i, 8)" in src2 and "1 << bit_index" in src2
    if lsb_dec and lsb_enc:
        out.append(ctx.ok("helper:bytes_to_bit_field↔bit_field_to_bytes", "bit i of the field is bit (i mod 8) of byte (i div 8), least significant first, on both sides", fn, mod, key="lsb-first"))
    elif ("byte & 128" in src or "byte & 0x80" in src) != ("7 - bit_index" in src2 or "128 >>" in src2):
        out.append(ctx.bad("helper:bytes_to_bit_field↔bit_field_to_bytes", "bit order differs between the two conversions", fn, mod, key="lsb-first"))
    else:
        out.append(ctx.err("helper:bytes_to_bit_field↔bit_field_to_bytes", "bit-order idioms not recognised", fn, mod))
    return out


def c17_11(ctx):
    """target_to_bits: the mantissa is preceded by 00 (and the exponent incremented) exactly when the leading byte has its top
    bit set (0x80..0xff), as in consensus GetCompact; a cut anywhere else changes the bits of some targets"""
    from sa.ranges import Ranges
    spec = "helper:target_to_bits"
    mod, fn = rl.get(ctx, spec)
    cfg = cfg_of(fn)
    # the tested quantity: <bytes name>[0]
    key = None
    for n in cfg.tests():
        for x in ast.walk(n.ast):
            if isinstance(x, ast.Subscript) and isinstance(x.value, ast.Name) and isinstance(x.slice, ast.Constant) and x.slice.value == 0:
                key = ast.unparse(x)
    if key is None:
        # the cut is also decided by evaluation over every length × leading byte on both sides of 0x80 (C17.20); this interval rule is the fallback
        cells = [r for r in c17_20(ctx) if r.anchor == spec]
        if cells and all(r.status == "ok" for r in cells):
            return [ctx.ok(spec, "00-prefixed mantissa exactly for a leading byte >= 0x80: decided by the GetCompact cells (C17.20); the test is not in the `x[0]` form this rule reads", fn, mod, key="sign-cut")]
        if cells and any(r.status == "violation" for r in cells):
            return [ctx.bad(spec, "bits differ from GetCompact (see C17.20)", fn, mod, key="sign-cut")]
        return [ctx.err(spec, "test on the leading byte not found", fn, mod)]
    ra = Ranges(ctx.repo, mod, fn, {key: ISet.range(0, 255)}, types={key: ISet.range(0, 255)})
    padded = ISet.empty()
    seen = 0
    for n in cfg.stmts(("stmt", "return")):
        a = n.ast
        v = a.value if isinstance(a, (ast.Assign, ast.Return)) else None
        if v is None:
            continue
        if any(isinstance(x, ast.BinOp) and isinstance(x.op, ast.Add) and isinstance(x.left, ast.Constant) and x.left.value == b"\x00" for x in ast.walk(v)):
            padded = padded.union(ra.at(n.id, key))
            seen += 1
    tests = [n for n in cfg.tests() if key in ast.unparse(n.ast)]
    if seen < 1 or ra.uninterpreted or len(tests) != 1:
        return [ctx.err(spec, "the 00-prefixed mantissa form / the single test on the leading byte were not recognised", fn, mod)]
    plain = ISet.range(0, 255).minus(padded)
    want_p, want_q = ISet.range(0x80, 0xFF), ISet.range(0, 0x7F)
    if padded == want_p and plain == want_q:
        return [ctx.ok(spec, "00-prefixed mantissa exactly for a leading byte in [0x80, 0xff]; plain mantissa for [0x00, 0x7f]", fn, mod, key="sign-cut")]
    w = padded.minus(want_p).witness((0x7F,)) if not padded.issubset(want_p) else want_p.minus(padded).witness((0x80,))
    return [ctx.bad(spec, "the 00-prefixed mantissa is used for a leading byte in %s (consensus: [0x80, 0xff]); a target whose leading byte is %s gets bits that differ from "
                          "GetCompact" % (padded.describe({}), hex(w) if isinstance(w, int) else w), fn, mod, key="sign-cut", detail={"witness_value": str(w)})]


def c17_13(ctx):
    """merkle_root over an *uninterpreted* hash: the pairing function is replaced by a formal constructor H(a, b), and the root the
    code builds for 1..17 leaves is compared term by term with Bitcoin's tree (pair up, duplicate the last element of odd levels,
    a single leaf is its own root).  Being computed over a free term algebra, the comparison holds for every hash value"""
    from sa.cells import Evaluator, Raised, Undecided
    spec = "helper:merkle_root"
    mod, fn = rl.get(ctx, spec)

    def opaque(name, args, kw):
        if name == "merkle_parent":
            return ("H", args[0], args[1])
        return NotImplemented

    def ref(level):
        level = list(level)
        while len(level) > 1:
            if len(level) % 2:
                level.append(level[-1])
            level = [("H", level[i], level[i + 1]) for i in range(0, len(level), 2)]
        return level[0]
    for n in range(1, 18):
        leaves = [b"L%02d" % i for i in range(n)]
        try:
            r = Evaluator(ctx.repo, opaque=opaque).call(spec, [list(leaves)])
        except Undecided as u:
            return [ctx.err(spec, "merkle_root not evaluable for %d leaves: %s" % (n, u), fn, mod)]
        except Raised as x:
            return [ctx.bad(spec, "merkle_root of %d transaction id%s raises %s%s" % (n, "" if n == 1 else "s", x.name,
                            ": a block with only its coinbase (the genesis block) has that id as its root" if n == 1 else ""), fn, mod, key="merkle-shape")]
        if r != ref(leaves):
            return [ctx.bad(spec, "the tree built for %d leaves is not Bitcoin's (pairwise, last element of an odd level duplicated)" % n, fn, mod, key="merkle-shape")]
    ctx.count("cells", 17)
    return [ctx.ok(spec, "for 1..17 leaves the root term equals Bitcoin's Merkle tree over a formal hash", fn, mod, key="merkle-shape")]


def c17_12(ctx):
    """MerkleBlock.is_valid rebuilds the partial tree from the object's current flags, hashes and total on every call: no path
    reaches the verdict without populate_tree(...) over them (a verdict taken from an earlier build vouches for fields that
    were changed since)"""
    spec = "merkleblock:MerkleBlock.is_valid"
    mod, fn = rl.get(ctx, spec)
    cfg = cfg_of(fn)
    pops = rl.find_calls(fn, "populate_tree")
    if not pops:
        return [ctx.err(spec, "populate_tree is not called", fn, mod)]
    out = []
    reach = cfg.reach([cfg.entry], blocked={n.id for n, _ in pops})
    rets = [n for n in cfg.returns() if n.id in reach and not (n.ast is not None and isinstance(n.ast.value, ast.Constant) and n.ast.value.value is False)]
    if rets:
        p = cfg.path([cfg.entry], [rets[0].id])
        out.append(ctx.bad(spec, "a verdict is returned at line %d without rebuilding the tree (path %s): after a first validation, changed hashes / flags / total are never "
                                 "looked at again, so an altered proof still validates" % (rets[0].lineno, cfg.fmt_path(p or [])), rets[0].ast, mod, key="rebuild"))
    else:
        out.append(ctx.ok(spec, "every verdict is preceded by populate_tree on all paths", pops[0][1], mod, key="rebuild"))
    return out


def c17_14(ctx):
    """MEMO: no method of the modules this property is anchored in answers from a value remembered from an earlier argument or an
    earlier state of the object (confirmed caches of the reference tree: sa/memo.py CONFIRMED_CACHES)"""
    from sa.memo import cache_obligation
    return cache_obligation(ctx, ["helper", "merkleblock", "block", "network"], "a root, target or verdict computed for one header or proof would be returned for another")


def c17_15(ctx):
    """SET-ORDER: no ordered result (list, serialisation, yielded sequence) of the modules this property is anchored in takes its
    order from the iteration order of a set"""
    from sa.setorder import setorder_obligation
    return setorder_obligation(ctx, ["helper", "merkleblock", "block", "network"], "the same inputs give different output from run to run")


def c17_16(ctx):
    """SHARED necessary conditions over the modules this property is anchored in: FALSY-DEFAULT, MUTABLE-DEFAULT, IDENTITY, ALIAS,
    CTOR-FORWARD (sa/shared.py)"""
    from sa.shared import shared_obligations
    return shared_obligations(ctx, ["helper", "merkleblock", "block", "network"], "the result would depend on something other than the arguments and the object's current state")


def c17_17(ctx):
    """compact bits -> target is coefficient * 256^(exponent - 3) (shifted down for exponent < 3), for *every* exponent byte: bits_to_target
    compares the exponent with constants and uses the coefficient arithmetically, so it is evaluated for all 256 exponent bytes with five
    coefficients whose three bytes differ (so that a byte taken from the wrong end shows) -- 1280 cells, bounded in the coefficient"""
    from sa.cells import Evaluator, Raised, Undecided
    spec = "helper:bits_to_target"
    mod, fn = rl.get(ctx, spec)
    cells = 0
    for coef in (0x123456, 0x000001, 0x7FFFFF, 0x00FFFF, 0x010000):
        for e in range(256):
            cells += 1
            bits = coef.to_bytes(3, "little") + bytes([e])
            want = coef * 256 ** (e - 3) if e >= 3 else coef >> (8 * (3 - e))
            try:
                r = Evaluator(ctx.repo).call(spec, [bits])
            except Raised as x:
                return [ctx.bad(spec, "bits %s (exponent %d) raise %s" % (bits.hex(), e, x.name), fn, mod, key="compact-formula")]
            except Undecided as u:
                return [ctx.err(spec, "bits_to_target not evaluable: %s" % u, fn, mod)]
            if r != want or isinstance(r, float):
                return [ctx.bad(spec, "bits %s (coefficient %06x, exponent %d) decode to %s, the compact format says %s" % (
                    bits.hex(), coef, e, ("%#x" % r) if isinstance(r, int) else repr(r), "%#x" % want), fn, mod, key="compact-formula")]
    ctx.count("cells", cells)
    return [ctx.ok(spec, "target = coefficient * 256^(exponent-3) for all 256 exponent bytes x 5 coefficients (%d cells)" % cells, fn, mod, key="compact-formula")]


def c17_18(ctx):
    """difficulty = target(1d00ffff) / target(bits) for every exponent byte that leaves a non-zero target (3..34) x 4 coefficients -- bounded
    evaluation; a 1e-12 relative tolerance allows another order of the floating-point operations"""
    from sa.cells import Evaluator, Obj, Raised, Undecided
    spec = "block:Block.difficulty"
    mod, fn = rl.get(ctx, spec)
    lowest = 0xFFFF * 256 ** (0x1D - 3)
    n = 0
    for coef in (0x00FFFF, 0x7FFFFF, 0x0404CB, 0x010000):
        for e in range(3, 35):
            n += 1
            bits = coef.to_bytes(3, "little") + bytes([e])
            target = coef * 256 ** (e - 3)
            me = Obj("block", "Block", {"bits": bits, "version": 1, "prev_block": bytes(32), "merkle_root": bytes(32), "timestamp": 0, "nonce": bytes(4)})
            try:
                r = Evaluator(ctx.repo).call(spec, [], self_obj=me)
            except Raised as x:
                return [ctx.bad(spec, "difficulty() raises %s for bits %s" % (x.name, bits.hex()), fn, mod, key="difficulty")]
            except Undecided as u:
                return [ctx.err(spec, "difficulty not evaluable: %s" % u, fn, mod)]
            want = lowest / target
            if not isinstance(r, (int, float)) or abs(r - want) > 1e-12 * want:
                return [ctx.bad(spec, "difficulty for bits %s (exponent %#x) is %r, target(1d00ffff) / target(bits) = %r" % (bits.hex(), e, r, want), fn, mod, key="difficulty")]
    ctx.count("cells", n)
    return [ctx.ok(spec, "difficulty = target(1d00ffff) / target(bits) on %d (coefficient, exponent) cells" % n, fn, mod, key="difficulty")]


def c17_19(ctx):
    """HeadersMessage.is_valid is decided by proof of work and linkage alone: cell evaluation over messages of 1..14 headers with
    out-of-order timestamps (miners' clocks differ; a message is a slice of a chain, so no rule that needs ancestors outside it can be applied),
    one header without work, one broken link; Block.check_pow / hash are stand-ins"""
    from sa.cells import Evaluator, Obj, Raised, Undecided
    spec = "network:HeadersMessage.is_valid"
    mod, fn = rl.get(ctx, spec)
    hooks = {("Block", "check_pow"): lambda b: b.attrs["pow"], ("Block", "hash"): lambda b: b.attrs["id"], ("Block", "target"): lambda b: 1 << 255,
             ("Block", "serialize"): lambda b: b.attrs["id"]}

    def chain(n, bad_pow=None, bad_link=None):
        hs = []
        for i in range(n):
            prev = bytes([i]) * 32 if i else bytes([0xEE]) * 32
            if bad_link == i:
                prev = bytes([0x77]) * 32
            ts = 1000 + 600 * i + (7000 if i % 5 == 1 else 0) - (900 if i % 4 == 3 else 0)
            hs.append(Obj("block", "Block", {"id": bytes([i + 1]) * 32, "prev_block": prev, "pow": bad_pow != i, "timestamp": ts, "bits": b"\xff\xff\x7f\x20", "version": 1,
                                             "merkle_root": bytes(32), "nonce": bytes(4)}))
        return hs
    cells = 0
    try:
        for n in range(1, 15):
            for label, kw, want in (("valid work and linkage (timestamps out of order)", {}, True), ("one header without work", {"bad_pow": n - 1}, False),
                                    ("a broken link", {"bad_link": n - 1} if n > 1 else None, False)):
                if kw is None:
                    continue
                cells += 1
                me = Obj("network", "HeadersMessage", {"headers": chain(n, **kw)})
                try:
                    r = Evaluator(ctx.repo, method_hooks=hooks).call(spec, [], self_obj=me)
                except Raised as x:
                    r = "raises %s" % x.name
                if r is not want:
                    return [ctx.bad(spec, "a message of %d header(s) with %s is reported %s" % (n, label, r), fn, mod, key="headers-verdict")]
    except Undecided as u:
        return [ctx.err(spec, "is_valid not evaluable: %s" % u, fn, mod)]
    ctx.count("cells", cells)
    return [ctx.ok(spec, "valid exactly when every header has work and links to its predecessor (%d messages of 1..14 headers)" % cells, fn, mod, key="headers-verdict")]


def c17_20(ctx):
    if not hasattr(ctx, "_c17_20"):
        ctx._c17_20 = _c17_20(ctx)
    return ctx._c17_20


def _c17_20(ctx):
    """target -> compact bits equals Bitcoin Core's arith_uint256::GetCompact for every size of target: target_to_bits looks at the target only
    through its byte length and the top bit of its first byte, so it is evaluated for every length 0..32 (0 = the target zero) × first byte
    {01, 7f, 80, ff} × two tails; the result is always 4 bytes (coefficient left-aligned for targets of fewer than three bytes).  Also
    calculate_new_bits for previous targets so small that the quarter clamp reaches zero"""
    from sa.cells import Evaluator, Raised, Undecided
    spec = "helper:target_to_bits"
    mod, fn = rl.get(ctx, spec)

    def get_compact(t):
        size = (t.bit_length() + 7) // 8
        compact = t << 8 * (3 - size) if size <= 3 else t >> 8 * (size - 3)
        if compact & 0x00800000:
            compact >>= 8
            size += 1
        return (compact | size << 24).to_bytes(4, "little")
    n = 0
    for length in range(0, 33):
        for first in (0x01, 0x7F, 0x80, 0xFF):
            for tail in (0x5A, 0x00):
                if length == 0 and (first, tail) != (0x01, 0x5A):
                    continue
                n += 1
                t = int.from_bytes(bytes([first]) + bytes((tail + i) & 255 if tail else 0 for i in range(length - 1)), "big") if length else 0
                try:
                    r = Evaluator(ctx.repo).call(spec, [t])
                except Raised as x:
                    return [ctx.bad(spec, "the target %#x (%d significant bytes) raises %s; GetCompact gives %s" % (t, length, x.name, get_compact(t).hex()), fn, mod, key="get-compact")]
                except Undecided as u:
                    return [ctx.err(spec, "target_to_bits not evaluable: %s" % u, fn, mod)]
                if r != get_compact(t):
                    return [ctx.bad(spec, "the target %#x (%d significant bytes, first byte %02x) is written as bits %s, Bitcoin Core's GetCompact gives %s" % (
                        t, length, first, r.hex() if isinstance(r, bytes) else r, get_compact(t).hex()), fn, mod, key="get-compact")]
    ctx.count("cells", n)
    out = [ctx.ok(spec, "%d (length 0..32, first byte, tail) cells equal GetCompact, always 4 bytes" % n, fn, mod, key="get-compact")]
    spec2 = "helper:calculate_new_bits"
    mod2, fn2 = rl.get(ctx, spec2)
    TW = 60 * 60 * 24 * 14
    m = 0
    MAXT = 0xFFFF * 256 ** (0x1D - 3)
    for prev in (bytes.fromhex("00000101"), bytes.fromhex("00000301"), bytes.fromhex("00ff0002"), bytes.fromhex("ffff7f03"), bytes.fromhex("12340004"),
                 bytes.fromhex("ffff001d"), bytes.fromhex("cb04041b"), bytes.fromhex("ffff7f1c"), bytes.fromhex("1b0c0a17")):
        for td in (-5, 0, TW // 4 - 1, TW // 4, TW // 4 + 1, TW // 2, TW - 1, TW, TW + 1, TW * 4 - 1, TW * 4, TW * 4 + 1, TW * 40):
            m += 1
            e, c = prev[3], int.from_bytes(prev[:3], "little")
            target = c * 256 ** (e - 3) if e >= 3 else c >> 8 * (3 - e)
            want = get_compact(min(target * min(max(td, TW // 4), TW * 4) // TW, MAXT))
            try:
                r = Evaluator(ctx.repo).call(spec2, [prev, td])
            except Raised as x:
                out.append(ctx.bad(spec2, "previous bits %s, time differential %d: raises %s; the consensus formula gives %s" % (prev.hex(), td, x.name, want.hex()), fn2, mod2, key="retarget-small"))
                return out
            except Undecided as u:
                out.append(ctx.err(spec2, "calculate_new_bits not evaluable: %s" % u, fn2, mod2))
                return out
            if r != want:
                out.append(ctx.bad(spec2, "previous bits %s, time differential %d: new bits %s, the consensus formula gives %s" % (prev.hex(), td, r.hex() if isinstance(r, bytes) else r, want.hex()),
                                   fn2, mod2, key="retarget-small"))
                return out
    ctx.count("cells", m)
    out.append(ctx.ok(spec2, "%d (previous target tiny .. the limit, time differential on both sides of the quarter / fourfold clamps) cells equal the consensus formula, the zero target and the limit included" % m, fn2, mod2, key="retarget-small"))
    return out



def c17_21(ctx):
    """the proof-of-work test on compact targets consensus never satisfies: CheckProofOfWork refuses a header whose bits decode to a negative
    number (bit 0x00800000 of the coefficient set), to zero, or to more than 256 bits, whatever its hash.  Block.check_pow is evaluated, with
    the header hash as a stand-in (a very small hash, which is below every positive target), on bits with the sign bit set / clear × exponents
    1..34 × coefficients, against CheckProofOfWork without the per-network limit (the Block class does not know its network)"""
    from sa.cells import Evaluator, Obj, Raised, Undecided
    spec = "block:Block.check_pow"
    mod, fn = rl.get(ctx, spec)
    tiny = (1).to_bytes(32, "little")

    def consensus(bits):
        size, word = bits[3], int.from_bytes(bits[:3], "little") & 0x7FFFFF
        negative_bit = bits[2] & 0x80
        target = word >> 8 * (3 - size) if size <= 3 else word << 8 * (size - 3)
        if size <= 3:
            word >>= 8 * (3 - size)
        negative = word != 0 and bool(negative_bit)
        overflow = word != 0 and (size > 34 or (word > 0xFF and size > 33) or (word > 0xFFFF and size > 32))
        if negative or target == 0 or overflow:
            return False
        return 1 <= target

    def opaque(name, args, kw):
        if name == "hash256":
            return tiny
        return NotImplemented
    n = 0
    for coef in (0x00FFFF, 0x7FFFFF, 0x800000, 0x80FFFF, 0xFFFFFF, 0x000000, 0x000001, 0x010000):
        for e in list(range(0, 36)):
            n += 1
            bits = coef.to_bytes(3, "little") + bytes([e])
            me = Obj("block", "Block", {"version": 1, "prev_block": bytes(32), "merkle_root": bytes(32), "timestamp": 0, "bits": bits, "nonce": bytes(4)})
            try:
                r = Evaluator(ctx.repo, opaque=opaque, method_hooks={("Block", "serialize"): lambda o: b"HEADER"}).call(spec, [], self_obj=me)
            except Raised as x:
                return [ctx.bad(spec, "check_pow raises %s for bits %s" % (x.name, bits.hex()), fn, mod, key="pow-invalid-target")]
            except Undecided as u:
                return [ctx.err(spec, "check_pow not evaluable: %s" % u, fn, mod)]
            want = consensus(bits)
            if bool(r) != want:
                why = "negative (sign bit of the coefficient set)" if bits[2] & 0x80 else ("zero" if not want and int.from_bytes(bits[:3], "little") * 256 ** max(e - 3, 0) >> 8 * max(3 - e, 0) == 0 else "wider than 256 bits")
                if want:
                    return [ctx.bad(spec, "a header with bits %s and hash 1 is refused although the target is positive and above the hash" % bits.hex(), fn, mod, key="pow-invalid-target")]
                return [ctx.bad(spec, "a header with bits %s is accepted for (nearly) any hash: the compact target is %s, which consensus CheckProofOfWork never accepts" % (bits.hex(), why),
                                fn, mod, key="pow-invalid-target")]
    ctx.count("cells", n)
    return [ctx.ok(spec, "%d (coefficient, exponent 0..35) cells: negative, zero and overflowing compact targets are never satisfied, every positive one is by hash 1" % n, fn, mod, key="pow-invalid-target")]



def _used_bits(total, match, width):
    """number of flag bits an honest proof uses (the rest is padding to a byte)"""
    height = (total - 1).bit_length()
    cnt = [0]

    def rec(h, pos):
        cnt[0] += 1
        if h and any(match[i] for i in range(pos << h, min((pos + 1) << h, total))):
            rec(h - 1, pos * 2)
            if pos * 2 + 1 < width(total, h - 1):
                rec(h - 1, pos * 2 + 1)
    rec(height, 0)
    return cnt[0]


def c17_22(ctx):
    if not hasattr(ctx, "_c17_22"):
        ctx._c17_22 = _c17_22(ctx)
    return ctx._c17_22


def _c17_22(ctx):
    """the partial Merkle tree walk, evaluated on honest BIP37 proofs built by the rule's own encoder (pairing hash a free constructor): every
    match subset of every tree with 1..6 leaves, and {one, first+last, alternate, all} matches for 7..13, 20, 21, 36 and 100 leaves -- trees
    whose odd levels duplicate their last node have MORE than 2*total-1 nodes, the dense proofs among them use every one.  populate_tree must
    consume the proof without error, rebuild Bitcoin's root and collect exactly the matched ids in order"""
    import itertools
    from sa.cells import Evaluator, Obj, Raised, Undecided
    spec = "merkleblock:MerkleTree.populate_tree"
    mod, fn = rl.get(ctx, spec)

    def H(a, b):
        return ("H", a, b)

    def width(total, height):
        return (total + (1 << height) - 1) >> height

    def node(leaves, height, pos):
        if height == 0:
            return leaves[pos]
        left = node(leaves, height - 1, pos * 2)
        right = node(leaves, height - 1, pos * 2 + 1) if pos * 2 + 1 < width(len(leaves), height - 1) else left
        return H(left, right)

    def build(leaves, match):
        total = len(leaves)
        height = (total - 1).bit_length()
        bits, hashes = [], []

        def rec(h, pos):
            parent = any(match[i] for i in range(pos << h, min((pos + 1) << h, total)))
            bits.append(1 if parent else 0)
            if h == 0 or not parent:
                hashes.append(node(leaves, h, pos))
            else:
                rec(h - 1, pos * 2)
                if pos * 2 + 1 < width(total, h - 1):
                    rec(h - 1, pos * 2 + 1)
        rec(height, 0)
        return bits + [0] * (-len(bits) % 8), hashes, node(leaves, height, 0)

    def opaque(name, args, kw):
        if name == "merkle_parent":
            return H(args[0], args[1])
        return NotImplemented
    cases = []
    for total in range(1, 7):
        for match in itertools.product((False, True), repeat=total):
            cases.append((total, list(match)))
    for total in (7, 8, 9, 10, 11, 12, 13, 20, 21, 36, 100):
        for m_ in ([i == 0 for i in range(total)], [i in (0, total - 1) for i in range(total)], [i % 2 == 0 for i in range(total)], [True] * total, [False] * total):
            cases.append((total, m_))
    n = 0
    try:
        for total, match in cases:
            n += 1
            leaves = [bytes([i & 255, i >> 8]) + bytes(30) for i in range(total)]
            bits, hashes, root = build(leaves, match)
            ev = Evaluator(ctx.repo, opaque=opaque, max_steps=4000000)
            tree = Obj("merkleblock", "MerkleTree", {})
            label = "%d leaves, %s matched" % (total, "all" if all(match) else ("none" if not any(match) else "leaves %s" % [i for i, m_ in enumerate(match) if m_][:8]))
            try:
                ev.call("merkleblock:MerkleTree.__init__", [total], self_obj=tree)
                ev.call(spec, [list(bits), list(hashes)], self_obj=tree)
                got_root = ev.call("merkleblock:MerkleTree.root", [], self_obj=tree)
            except Raised as x:
                return [ctx.bad(spec, "an honest BIP37 proof (%s; %d flag bits, %d hashes) raises %s instead of validating" % (label, len(bits), len(hashes), x.name), fn, mod,
                                key="pmt-cells")]
            if got_root != root:
                return [ctx.bad(spec, "an honest BIP37 proof (%s) is rebuilt to a root other than Bitcoin's Merkle root" % label, fn, mod, key="pmt-cells")]
            want_ids = [leaves[i][::-1] for i, m_ in enumerate(match) if m_]
            if tree.attrs.get("proved_txs") != want_ids:
                return [ctx.bad(spec, "an honest BIP37 proof (%s) yields %d ids, not exactly the matched ones in order" % (label, len(tree.attrs.get("proved_txs") or [])), fn, mod,
                                key="pmt-cells")]
        # dishonest proofs: material the walk does not consume makes the proof invalid (CVE-2012-2459 family) -- an extra hash at the end, and a
        # padding flag bit set to 1
        for total, match in [(t, m_) for t, m_ in cases if t in (1, 2, 3, 5, 7, 12)][::3]:
            leaves = [bytes([i & 255, i >> 8]) + bytes(30) for i in range(total)]
            bits, hashes, root = build(leaves, match)
            used = _used_bits(total, match, width)
            variants = [("one hash more than the walk consumes", list(bits), list(hashes) + [bytes([0xEE]) * 32])]
            if used < len(bits):
                b2 = list(bits)
                b2[-1] = 1
                variants.append(("a padding flag bit set to 1", b2, list(hashes)))
            for what, b_, h_ in variants:
                n += 1
                ev = Evaluator(ctx.repo, opaque=opaque, max_steps=4000000)
                tree = Obj("merkleblock", "MerkleTree", {})
                try:
                    ev.call("merkleblock:MerkleTree.__init__", [total], self_obj=tree)
                    ev.call(spec, [b_, h_], self_obj=tree)
                    return [ctx.bad(spec, "a proof for %d leaves with %s is accepted: what the walk leaves over must make the proof invalid" % (total, what), fn, mod, key="pmt-cells")]
                except Raised:
                    pass
    except Undecided as u:
        return [ctx.err(spec, "partial Merkle tree walk not evaluable: %s" % u, fn, mod)]
    ctx.count("cells", n)
    return [ctx.ok(spec, "%d proofs: the honest ones (all subsets for 1..6 leaves; sparse, alternate and dense for 7..13, 20, 21, 36, 100) rebuild the root and yield the matched ids; "
                         "proofs with an unconsumed hash or a padding bit set are refused" % n, fn, mod, key="pmt-cells")]



OBLIGATIONS = [
    ("C17.22", "CELLS partial merkle tree", c17_22),
    ("C17.21", "CELLS invalid compact target", c17_21),
    ("C17.20", "CELLS GetCompact", c17_20),
    ("C17.18", "CELLS difficulty (bounded)", c17_18),
    ("C17.19", "CELLS headers verdict", c17_19),
    ("C17.17", "CELLS compact target (bounded)", c17_17),
    ("C17.16", "SHARED", c17_16),
    ("C17.15", "SET-ORDER", c17_15),
    ("C17.14", "MEMO", c17_14),
    ("C17.1", "GUARD", c17_1),
    ("C17.2", "EXACT", c17_2),
    ("C17.3", "GUARD", rl.deferring(c17_3, c17_22, "merkleblock:MerkleTree.populate_tree", "decided by the partial-Merkle-tree cells (C17.22: honest proofs yield exactly the matched ids, proofs with "
                                    "an unconsumed hash or a padding bit set are refused); the walk is not in the form this rule reads", 3)),
    ("C17.4", "GUARD", c17_4),
    ("C17.5", "LAYOUT", c17_5),
    ("C17.6", "RELATION", c17_6),
    ("C17.7", "EXACT/RANGE", c17_7),
    ("C17.8", "RANGE output", rl.deferring(c17_8, c17_20, "helper:calculate_new_bits", "decided by the retarget cells (C17.20: previous targets up to the limit × time differentials on both sides of "
                                           "the clamps equal the consensus formula); the retarget is not in the form the interval rule reads", 4)),
    ("C17.9", "GUARD per-iteration", c17_9),
    ("C17.10", "BITS", c17_10),
    ("C17.11", "RANGE partition", c17_11),
    ("C17.12", "MUST-PASS", c17_12),
    ("C17.13", "CELLS formal hash", c17_13),
]
FLOORS = {"C17.1": 3, "C17.3": 3, "C17.4": 2, "C17.5": 6, "C17.6": 2, "C17.7": 2, "C17.8": 4, "C17.9": 2}
