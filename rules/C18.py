"""C18 — BIP158 / BIP37 filters (structural clauses)."""
import ast
import re

from sa import rl
from sa.cfg import cfg_of
from sa.dataflow import call_name, dotted, expand, origins
from sa.fold import Folder, Unknown, module_const
from sa.interval import ISet
from sa.layout import WriterExec, fmt_terms
from sa.loader import AnalysisError, param_names

EXPLANATION = (
    "Static analysis of buidl/compactfilter.py, siphash.py, bloomfilter.py, helper.py: Golomb parameters (both copies), BIP37 constant, Murmur3 and "
    "SipHash constants against their specifications; the query range F of a compact filter must derive from the element count carried by the "
    "encoding, not from the cardinality of a de-duplicated set; fixed-width arithmetic hygiene of the hand-written hashes (every rotation "
    "(x<<r)|(x>>s) has r+s = word size, the rotation multiset equals the specification's, right-shift operands are masked, results are masked); "
    "Golomb-Rice and bit packing are unary-then-P-bits, MSB-first, on encoder and decoder; compact-filter message layouts; filter header chaining; "
    "bloom filter seed and bit index formulas. Not decided: hash values, Golomb round trip on all inputs."
)


def _sip_ref(key, msg):
    """SipHash-2-4 (Aumasson, Bernstein), 64-bit output -- the reference the library's class is compared with"""
    M = 0xFFFFFFFFFFFFFFFF
    rotl = lambda x, b: ((x << b) | (x >> (64 - b))) & M
    k0, k1 = int.from_bytes(key[:8], "little"), int.from_bytes(key[8:], "little")
    v = [0x736F6D6570736575 ^ k0, 0x646F72616E646F6D ^ k1, 0x6C7967656E657261 ^ k0, 0x7465646279746573 ^ k1]

    def rnd():
        v[0] = (v[0] + v[1]) & M
        v[1] = rotl(v[1], 13) ^ v[0]
        v[0] = rotl(v[0], 32)
        v[2] = (v[2] + v[3]) & M
        v[3] = rotl(v[3], 16) ^ v[2]
        v[0] = (v[0] + v[3]) & M
        v[3] = rotl(v[3], 21) ^ v[0]
        v[2] = (v[2] + v[1]) & M
        v[1] = rotl(v[1], 17) ^ v[2]
        v[2] = rotl(v[2], 32)
    full = len(msg) // 8 * 8
    words = [int.from_bytes(msg[i:i + 8], "little") for i in range(0, full, 8)]
    words.append(((len(msg) & 0xFF) << 56) | int.from_bytes(msg[full:], "little"))
    for m in words:
        v[3] ^= m
        rnd()
        rnd()
        v[0] ^= m
    v[2] ^= 0xFF
    for _ in range(4):
        rnd()
    return v[0] ^ v[1] ^ v[2] ^ v[3]


def _siphash_cells(ctx):
    """SipHash_2_4 evaluated against the published algorithm: two keys with sixteen different bytes, messages of every length 0..25 (each tail
    length 0..7 at least three times, 0 to 3 full words) and of 255 / 256 / 257 bytes (the length byte wraps), in one piece and fed through
    update() in two pieces.  Bounded in the message length; the class handles every full word in one loop and the tail in one statement.  None
    when the class is outside the evaluator's subset."""
    import struct
    from sa.cells import ClassRef, Evaluator, Namespace, Obj, Raised, Undecided
    one, two = struct.Struct("<Q"), struct.Struct("<QQ")
    ext = {"_oneQ": Namespace(unpack=one.unpack, unpack_from=lambda b, off=0: one.unpack_from(bytes(b), off), pack=one.pack),
           "_twoQ": Namespace(unpack=two.unpack, unpack_from=lambda b, off=0: two.unpack_from(bytes(b), off), pack=two.pack)}
    mod, fn = rl.get(ctx, "siphash:SipHash_2_4.hash")
    modi, fni = rl.get(ctx, "siphash:SipHash_2_4.__init__")
    keys = [bytes(range(16)), bytes(range(255, 239, -1))]
    lens = list(range(0, 26)) + [255, 256, 257]
    try:
        for key in keys:
            for L in lens:
                msg = bytes((7 * i + 3) & 0xFF for i in range(L))
                for split in (None, L // 3):
                    ctx.count("cells")
                    o = Obj("siphash", "SipHash_2_4", {})
                    ev = Evaluator(ctx.repo, externals=ext, max_steps=400000)
                    try:
                        if split is None:
                            ev.call("siphash:SipHash_2_4.__init__", [key, msg], self_obj=o)
                        else:
                            ev.call("siphash:SipHash_2_4.__init__", [key, msg[:split]], self_obj=o)
                            Evaluator(ctx.repo, externals=ext, max_steps=400000).call("siphash:SipHash_2_4.update", [msg[split:]], self_obj=o)
                        r = Evaluator(ctx.repo, externals=ext, max_steps=400000).call("siphash:SipHash_2_4.hash", [], self_obj=o)
                    except Raised as x:
                        r = "raises %s" % x.name
                    if r != _sip_ref(key, msg):
                        where = "sip-init" if L == 0 and split is None else "sip-final"
                        what = "of the empty message" if L == 0 else "of a %d-byte message%s" % (L, " fed in two pieces" if split is not None else "")
                        hint = " (the length byte is (length mod 256) << 56)" if L >= 255 else ""
                        return [ctx.bad("siphash:SipHash_2_4.hash" if where == "sip-final" else "siphash:SipHash_2_4.__init__",
                                        "SipHash-2-4 %s differs from the specification: %s instead of %#018x%s" % (what, ("%#018x" % r) if isinstance(r, int) else r, _sip_ref(key, msg), hint),
                                        fn if where == "sip-final" else fni, mod if where == "sip-final" else modi, key=where)]
    except Undecided:
        return None
    return [ctx.ok("siphash:SipHash_2_4.__init__", "v0..v3 = 'somepseu','dorandom','lygenera','tedbytes' xor k0,k1,k0,k1", fni, modi, key="sip-init"),
            ctx.ok("siphash:SipHash_2_4.hash", "length byte in bits 56..63, v2 ^= 0xff, 4 finalisation rounds, xor of the four words (equals SipHash-2-4 on %d key / message / "
                                               "split cells)" % (len(keys) * len(lens) * 2), fn, mod, key="sip-final")]


def c18_1(ctx):
    out = []
    for modname in ("compactfilter", "helper"):
        out.append(rl.const_eq(ctx, modname, "GOLOMB_P", 19, "BIP158 P"))
        out.append(rl.const_eq(ctx, modname, "GOLOMB_M", 784931, "BIP158 M"))
    out.append(rl.const_eq(ctx, "bloomfilter", "BIP37_CONSTANT", 0xFBA4C795, "BIP37"))
    # murmur3 constants
    mod, fn = rl.get(ctx, "helper:murmur3")
    f = Folder(ctx.repo, mod.name)
    consts = {f.fold(c) for c in ast.walk(fn) if isinstance(c, ast.Constant) and isinstance(c.value, int)}
    need = {0xCC9E2D51, 0x1B873593, 0xE6546B64, 0x85EBCA6B, 0xC2B2AE35, 5}
    ctx.count("table_entries", len(need))
    if need <= consts:
        out.append(ctx.ok("helper:murmur3", "c1, c2, n, fmix constants equal MurmurHash3_x86_32", fn, mod, key="murmur-consts"))
    else:
        out.append(ctx.bad("helper:murmur3", "MurmurHash3 constants missing/altered: %s" % sorted(hex(x) for x in need - consts), fn, mod, key="murmur-consts"))
    ev = _siphash_cells(ctx)
    if ev is not None:
        return out + ev
    # siphash initialisation constants "somepseudorandomlygeneratedbytes"
    mod, fn = rl.get(ctx, "siphash:SipHash_2_4.__init__")
    consts = [f.fold(c) for c in ast.walk(fn) if isinstance(c, ast.Constant) and isinstance(c.value, int)]
    need = [0x736F6D6570736575, 0x646F72616E646F6D, 0x6C7967656E657261, 0x7465646279746573]
    vt = [st.value for st in ast.walk(fn) if isinstance(st, ast.Assign) and ast.unparse(st.targets[0]) == "self.v"]
    # the state expression is folded for two symbolic-looking key halves: whatever its spelling (tuple display, zip over a constant
    # table), the value must be (c0 ^ k0, c1 ^ k1, c2 ^ k0, c3 ^ k1)
    K0, K1 = 0x0123456789ABCDEF, 0x0FEDCBA987654321
    got = Unknown
    if vt:
        fk = Folder(ctx.repo, mod.name, env={"k0": K0, "k1": K1})
        got = fk.fold(vt[0])
        if isinstance(got, list):
            got = tuple(got)
    want = (need[0] ^ K0, need[1] ^ K1, need[2] ^ K0, need[3] ^ K1)
    if got == want:
        out.append(ctx.ok("siphash:SipHash_2_4.__init__", "v0..v3 = 'somepseu','dorandom','lygenera','tedbytes' xor k0,k1,k0,k1", fn, mod, key="sip-init"))
    elif isinstance(got, tuple) and len(got) == 4 and all(isinstance(x, int) for x in got):
        out.append(ctx.bad("siphash:SipHash_2_4.__init__", "SipHash initial state differs from the specification: v = %s for k0 = %#x, k1 = %#x, expected %s" % (
            [hex(x) for x in got], K0, K1, [hex(x) for x in want]), fn, mod, key="sip-init"))
    else:
        out.append(ctx.err("siphash:SipHash_2_4.__init__", "initial state `%s` could not be evaluated" % (ast.unparse(vt[0])[:80] if vt else None), fn, mod))
    # finalisation: v2 ^= 0xff then 4 rounds (two double rounds), length byte in the top byte
    mod, fn = rl.get(ctx, "siphash:SipHash_2_4.hash")
    src = ast.unparse(fn)
    if "v[2] ^= 255" in src and "_doublesipround(_doublesipround(v, 0), 0)" in src and "& 255) << 56" in src and "v[0] ^ v[1] ^ v[2] ^ v[3]" in src:
        out.append(ctx.ok("siphash:SipHash_2_4.hash", "length byte in bits 56..63, v2 ^= 0xff, 4 finalisation rounds, xor of the four words", fn, mod, key="sip-final"))
    else:
        # recognised wrong forms: another finalisation constant, the constant applied to another word, a different number of rounds
        f2 = Folder(ctx.repo, mod.name)
        xors = [(ast.unparse(st.target), f2.fold(st.value)) for st in ast.walk(fn) if isinstance(st, ast.AugAssign) and isinstance(st.op, ast.BitXor) and isinstance(f2.fold(st.value), int)]
        rounds = src.count("_doublesipround(")
        wrong = None
        if xors and xors[0][1] != 0xFF:
            wrong = "finalisation constant %#x (SipHash: 0xff)" % xors[0][1]
        elif xors and xors[0][0] in ("v[0]", "v[1]", "v[3]"):
            wrong = "0xff is xored into %s (SipHash: v2)" % xors[0][0]
        elif "v[2] ^= 255" in src and "v[0] ^ v[1] ^ v[2] ^ v[3]" in src and "& 255) << 56" in src and rounds != 3:
            wrong = "%d double rounds in hash() (SipHash-2-4: one compression double round + two finalisation double rounds)" % rounds
        elif "v[2] ^= 255" in src and "v[0] ^ v[1] ^ v[2] ^ v[3]" in src and rounds == 3 and "<< 56" in src and "& 255) << 56" not in src:
            wrong = "the length byte is not reduced mod 256 before it is shifted into bits 56..63"
        if wrong:
            out.append(ctx.bad("siphash:SipHash_2_4.hash", "SipHash-2-4 finalisation differs: %s" % wrong, fn, mod, key="sip-final"))
        else:
            out.append(ctx.err("siphash:SipHash_2_4.hash", "finalisation idiom not recognised (length byte / v2 ^= 0xff / 4 rounds / xor of words)", fn, mod))
    return out


def c18_2(ctx):
    """the query range F derives from the element count carried by the encoding"""
    spec = "compactfilter:CompactFilter.__init__"
    mod, fn = rl.get(ctx, spec)
    out = []
    fassign = [st for st in ast.walk(fn) if isinstance(st, ast.Assign) and ast.unparse(st.targets[0]) == "self.f"]
    if not fassign:
        # f may be computed lazily elsewhere
        mod2, fn2 = rl.get(ctx, "compactfilter:CompactFilter.compute_hash")
        raise AnalysisError("CompactFilter: assignment of the range self.f not found")
    v = fassign[0].value
    lens = [c for c in ast.walk(v) if isinstance(c, ast.Call) and call_name(c) == "len"]
    dedup = False
    src_desc = ast.unparse(v)
    for c in lens:
        arg = c.args[0]
        d = dotted(arg)
        # what was assigned to that attribute / name in __init__
        for st in ast.walk(fn):
            if isinstance(st, ast.Assign) and ast.unparse(st.targets[0]) == (d or "") and isinstance(st.value, ast.Call) and call_name(st.value) in ("set", "frozenset"):
                dedup = True
        if isinstance(arg, ast.Call) and call_name(arg) in ("set", "frozenset"):
            dedup = True
    if dedup:
        out.append(ctx.bad(spec, "F = `%s` uses the cardinality of a de-duplicated set: when two inserted items hash to the same value the encoding still carries N items (BIP158 "
                           "F = N·M) but queries are mapped with (N-1)·M, so both colliding items and most others are reported absent" % src_desc, fassign[0], mod, key="f-from-n"))
    elif "GOLOMB_M" in src_desc:
        out.append(ctx.ok(spec, "F = `%s` does not depend on a de-duplicated collection" % src_desc, fassign[0], mod, key="f-from-n"))
    else:
        out.append(ctx.err(spec, "range expression `%s` not recognised" % src_desc, fassign[0], mod))
    # encoder: F = len(items)·M over the list as given; N written = len(sorted_items)
    mod, fn = rl.get(ctx, "compactfilter:hashed_items")
    src = ast.unparse(fn)
    from sa import algebra
    items_p = param_names(fn)[1]
    # F: the third argument of hash_to_range, as a product; the result: sorted(...)
    fsite = [(n_, c) for n_, c in rl.find_calls(fn, "hash_to_range")]
    rets = [n_ for n_ in cfg_of(fn).returns() if n_.ast is not None and n_.ast.value is not None]
    if not fsite or len(fsite[0][1].args) < 3 or not rets:
        out.append(ctx.err("compactfilter:hashed_items", "hash_to_range(key, item, F) call / return not found", fn, mod))
    else:
        n_, c = fsite[0]
        fexp = expand(fn, n_.id, c.args[2], depth=3)
        tt = algebra.terms(fexp)
        fac = sorted(tt[0][1].split(" * ")) if len(tt) == 1 and tt[0][0] == 1 else None
        is_sorted = all(isinstance(expand(fn, r_.id, r_.ast.value, depth=2), ast.Call) and call_name(expand(fn, r_.id, r_.ast.value, depth=2)) == "sorted" for r_ in rets) \
            or any(isinstance(x, ast.Call) and isinstance(x.func, ast.Attribute) and x.func.attr == "sort" for x in ast.walk(fn))
        if fac == sorted(["GOLOMB_M", "len(%s)" % items_p]) and is_sorted:
            out.append(ctx.ok("compactfilter:hashed_items", "encoder: F = len(items)·M, hashes sorted (duplicates kept)", fn, mod, key="enc-f"))
        elif fac is not None and fac != sorted(["GOLOMB_M", "len(%s)" % items_p]) and any("len(" in x for x in fac):
            out.append(ctx.bad("compactfilter:hashed_items", "encoder range F is `%s`, BIP158: N·M with N the number of items given (duplicates counted)" % ast.unparse(fexp), c, mod, key="enc-f"))
        elif not is_sorted:
            out.append(ctx.bad("compactfilter:hashed_items", "the hashed values are not sorted before delta coding", fn, mod, key="enc-f"))
        else:
            out.append(ctx.err("compactfilter:hashed_items", "range expression `%s` not recognised" % ast.unparse(fexp), c, mod))
    mod, fn = rl.get(ctx, "compactfilter:hash_to_range")
    rets = [(n_, expand(fn, n_.id, n_.ast.value, depth=4)) for n_ in cfg_of(fn).returns() if n_.ast is not None and n_.ast.value is not None]
    r = [ast.unparse(e_) for _, e_ in rets]
    fpar = param_names(fn)[2] if len(param_names(fn)) > 2 else "f"

    def is_hash(e_):
        return isinstance(e_, ast.Call) and call_name(e_) in ("_siphash", "siphash", "hash")

    verdict = None
    if len(rets) == 1:
        e_ = rets[0][1]
        if isinstance(e_, ast.BinOp) and isinstance(e_.op, ast.RShift) and isinstance(e_.left, ast.BinOp) and isinstance(e_.left.op, ast.Mult):
            a_, b_ = e_.left.left, e_.left.right
            sh = Folder(ctx.repo, mod.name).fold(e_.right)
            plain = (is_hash(a_) and ast.unparse(b_) == fpar) or (is_hash(b_) and ast.unparse(a_) == fpar)
            if plain and sh == 64:
                verdict = "ok"
            elif plain and isinstance(sh, int):
                verdict = "the product is shifted right by %d bits (BIP158: 64)" % sh
            elif isinstance(sh, int) and any(isinstance(x, ast.BinOp) and isinstance(x.op, (ast.RShift, ast.BitAnd)) for x in (a_, b_)):
                verdict = "the hash (or F) is truncated before the multiplication, so low-order carries are lost: some elements land one below (hash · F) >> 64"
    if verdict == "ok":
        out.append(ctx.ok("compactfilter:hash_to_range", "(siphash(key, item) · F) >> 64", fn, mod, key="map"))
    elif verdict:
        out.append(ctx.bad("compactfilter:hash_to_range", "range mapping is %s: %s" % (r, verdict), fn, mod, key="map"))
    else:
        out.append(ctx.err("compactfilter:hash_to_range", "range mapping %s not recognised as (hash · F) >> 64" % r, fn, mod))
    # key = first 16 bytes of the block hash in internal order
    mod, fn = rl.get(ctx, "compactfilter:CFilterMessage.__init__")
    if "CompactFilter.parse(block_hash[::-1][:16], filter_bytes)" in ast.unparse(fn):
        out.append(ctx.ok("compactfilter:CFilterMessage.__init__", "SipHash key = first 16 bytes of the little-endian block hash", fn, mod, key="key"))
    else:
        out.append(ctx.bad("compactfilter:CFilterMessage.__init__", "filter key is not block_hash[::-1][:16]", fn, mod, key="key"))
    return out


def _rotations(fn, f):
    """[(left shift r, right shift s, base text left, base text right, node)] for (A << r) | (B >> s)"""
    out = []
    for b in ast.walk(fn):
        if isinstance(b, ast.BinOp) and isinstance(b.op, ast.BitOr):
            l, r = b.left, b.right
            for x, y in ((l, r), (r, l)):
                if isinstance(x, ast.BinOp) and isinstance(x.op, ast.LShift) and isinstance(y, ast.BinOp) and isinstance(y.op, ast.RShift):
                    rs, ss = f.fold(x.right), f.fold(y.right)
                    if isinstance(rs, int) and isinstance(ss, int):
                        out.append((rs, ss, x.left, y.left, b))
    return out


def _base(e):
    """strip masks and parentheses: (x & M) -> x"""
    while isinstance(e, ast.BinOp) and isinstance(e.op, ast.BitAnd):
        e = e.left
    return ast.unparse(e)


def _mask_bits(e, f):
    if isinstance(e, ast.BinOp) and isinstance(e.op, ast.BitAnd):
        m = f.fold(e.right)
        if isinstance(m, int) and m & (m + 1) == 0:
            return m.bit_length()
    return None


def c18_3(ctx):
    spec = "siphash:_doublesipround"
    mod, fn = rl.get(ctx, spec)
    f = Folder(ctx.repo, mod.name)
    rots = _rotations(fn, f)
    out = []
    parents = {}
    for node in ast.walk(fn):
        for ch in ast.iter_child_nodes(node):
            parents[ch] = node
    bad = []
    for r, s, xl, yl, node in rots:
        if r + s != 64:
            bad.append("`%s`: shifts %d + %d ≠ 64" % (ast.unparse(node), r, s))
        elif _base(xl) != _base(yl):
            bad.append("`%s`: the two halves rotate different values" % ast.unparse(node))
        else:
            mb = _mask_bits(xl, f)
            if mb is not None and mb != 64 - r:
                bad.append("`%s`: left operand masked to %d bits, a rotation by %d needs %d" % (ast.unparse(node), mb, r, 64 - r))
    # bit-width abstract interpretation: every right-shifted operand and every returned word fits in 64 bits
    from sa.stackfx import bit_widths
    env, shifts, rets = bit_widths(fn, {"v": 64, "m": 64, "a": 64, "b": 64, "c": 64, "d": 64}, f)
    for node, wd in shifts:
        if wd is None or wd > 64:
            bad.append("`%s`: the shifted operand may be %s bits wide (> 64), so high bits leak into the rotation" % (ast.unparse(node), wd))
    for node, wd in rets:
        if wd is None or wd > 64:
            bad.append("returned word `%s` may be %s bits wide (> 64)" % (ast.unparse(node)[:50], wd))
    if len(rets) != 4:
        bad.append("the round function returns %d words, not 4" % len(rets))
    multiset = sorted(r for r, s, _, _, _ in rots)
    want = sorted([13, 16, 17, 21, 32, 32] * 2)
    ctx.count("table_entries", len(rots))
    if bad:
        out.append(ctx.bad(spec, "; ".join(bad[:3]), fn, mod, key="rot-wellformed"))
    else:
        out.append(ctx.ok(spec, "%d rotations are well formed (shift pairs sum to 64, masked)" % len(rots), fn, mod, key="rot-wellformed"))
    if multiset == want:
        out.append(ctx.ok(spec, "rotation amounts %s = two SipRounds (13,32,16,21,17,32)" % multiset, fn, mod, key="rot-multiset"))
    else:
        out.append(ctx.bad(spec, "rotation amounts %s, two SipRounds require %s" % (multiset, want), fn, mod, key="rot-multiset"))
    # message xor: d ^= m before, a ^= m after
    src = ast.unparse(fn)
    if "d ^= m" in src and "u ^ m" in src:
        out.append(ctx.ok(spec, "v3 ^= m before and v0 ^= m after the two rounds", fn, mod, key="msg-xor"))
    else:
        out.append(ctx.err(spec, "message-word xor idiom (v3 ^= m before, v0 ^= m after the rounds) not recognised", fn, mod))
    return out


def _murmur_cells(ctx):
    """helper.murmur3 evaluated against MurmurHash3 x86_32 as published (the rule's own): every message length 0..70 (every tail length, 0..17
    blocks) × byte patterns with and without the top bit set × seeds {0, 1, 0xFBA4C795, 2^31, 2^32-1, a tweak sum that exceeds 32 bits}.
    Bounded evaluation in the message contents; complete in the tail-length and block-count classes of the quantifier.  None when outside
    the evaluator's subset"""
    from sa.cells import Evaluator, Raised, Undecided
    spec = "helper:murmur3"
    mod, fn = rl.get(ctx, spec)
    M = 0xFFFFFFFF

    def rotl(x, r):
        return ((x << r) | (x >> (32 - r))) & M

    def ref(data, seed):
        c1, c2 = 0xCC9E2D51, 0x1B873593
        h = seed & M
        n = len(data) // 4
        for i in range(n):
            k = int.from_bytes(data[4 * i:4 * i + 4], "little")
            k = (k * c1) & M
            k = rotl(k, 15)
            k = (k * c2) & M
            h ^= k
            h = rotl(h, 13)
            h = (h * 5 + 0xE6546B64) & M
        tail = data[4 * n:]
        k = 0
        if len(tail) >= 3:
            k ^= tail[2] << 16
        if len(tail) >= 2:
            k ^= tail[1] << 8
        if len(tail) >= 1:
            k ^= tail[0]
            k = (k * c1) & M
            k = rotl(k, 15)
            k = (k * c2) & M
            h ^= k
        h ^= len(data)
        h ^= h >> 16
        h = (h * 0x85EBCA6B) & M
        h ^= h >> 13
        h = (h * 0xC2B2AE35) & M
        h ^= h >> 16
        return h
    quick = getattr(ctx, "tier", "quick") != "thorough"
    seeds = [0, 1, 0xFBA4C795, 1 << 31, M, 49 * 0xFBA4C795 + M]
    n = 0
    try:
        for length in (list(range(0, 18)) + [31, 32, 33, 63, 64, 65, 70] if quick else range(0, 71)):
            for pat in (bytes((i * 37 + 11) & 255 for i in range(length)), b"\xff" * length, bytes(0x80 | (i & 0x7F) for i in range(length))):
                for seed in (seeds if length < 9 or not quick else seeds[2:4] + seeds[5:]):
                    n += 1
                    try:
                        r = Evaluator(ctx.repo, max_steps=1000000).call(spec, [pat, seed])
                    except Raised as x:
                        return [ctx.bad(spec, "murmur3 of a %d-byte message with seed %#x raises %s" % (length, seed, x.name), fn, mod, key="murmur-cells")]
                    if r != ref(pat, seed):
                        return [ctx.bad(spec, "murmur3 of the %d-byte message %s… with seed %#x is %s, MurmurHash3 x86_32 gives %#010x" % (
                            length, pat[:6].hex(), seed, ("%#x" % r) if isinstance(r, int) else r, ref(pat, seed)), fn, mod, key="murmur-cells")]
    except Undecided:
        return None
    ctx.count("cells", n)
    return [ctx.ok(spec, "%d (length, pattern, seed) cells equal MurmurHash3 x86_32: every tail length, top-bit bytes, seeds above 32 bits" % n, fn, mod, key="murmur-cells")]


def c18_4(ctx):
    ev = _murmur_cells(ctx)
    if ev is not None:
        return ev
    spec = "helper:murmur3"
    mod, fn = rl.get(ctx, spec)
    f = Folder(ctx.repo, mod.name)
    out = []
    rots = _rotations(fn, f)
    bad = []
    for r, s, xl, yl, node in rots:
        if r + s != 32:
            bad.append("`%s`: shifts %d + %d ≠ 32" % (ast.unparse(node), r, s))
        elif _base(xl) != _base(yl):
            bad.append("`%s`: halves rotate different values" % ast.unparse(node))
    ms = sorted(r for r, s, _, _, _ in rots)
    if bad:
        out.append(ctx.bad(spec, "; ".join(bad), fn, mod, key="rot-wellformed"))
    elif ms == [13, 15, 15]:
        out.append(ctx.ok(spec, "ROTL32 by 15 (k1, body and tail) and 13 (h1), shift pairs sum to 32", fn, mod, key="rot-wellformed"))
    else:
        out.append(ctx.bad(spec, "rotation amounts %s, MurmurHash3 uses 15 (k1, twice) and 13 (h1)" % ms, fn, mod, key="rot-wellformed"))
    # every right shift operates on a 32-bit masked operand
    unmasked = []
    for b in ast.walk(fn):
        if isinstance(b, ast.BinOp) and isinstance(b.op, ast.RShift):
            if _mask_bits(b.left, f) != 32:
                unmasked.append(ast.unparse(b))
        if isinstance(b, ast.AugAssign) and isinstance(b.op, ast.RShift):
            unmasked.append(ast.unparse(b))
    if unmasked:
        out.append(ctx.bad(spec, "right shift of a value that is not masked to 32 bits: %s (Python integers do not wrap)" % unmasked[0], fn, mod, key="rshift-masked"))
    else:
        out.append(ctx.ok(spec, "every right shift operates on `x & 0xffffffff`", fn, mod, key="rshift-masked"))
    # fmix shifts 16, 13, 16
    fm = [f.fold(b.right) for b in ast.walk(fn) if isinstance(b, ast.BinOp) and isinstance(b.op, ast.RShift) and not any(b is y.right or b is y.left for y in ast.walk(fn) if isinstance(y, ast.BinOp) and isinstance(y.op, ast.BitOr))]
    if sorted(fm) == [13, 16, 16]:
        out.append(ctx.ok(spec, "fmix32 shifts 16, 13, 16", fn, mod, key="fmix"))
    else:
        out.append(ctx.bad(spec, "finalisation shifts %s, fmix32 uses 16, 13, 16" % fm, fn, mod, key="fmix"))
    # tail cascade
    cfg = cfg_of(fn)
    tails = []
    for n in cfg.tests():
        t = n.ast
        # a test on the tail length (length & 3 / length % 4, whatever the local is called): its truth set over {0,1,2,3}
        if isinstance(t, ast.Compare) and len(t.ops) == 1 and isinstance(t.left, ast.Name):
            at = origins(fn, n.id, t.left)
            if not (("op:BitAnd" in at or "op:Mod" in at) and "call:len" in at):
                continue
            c = f.fold(t.comparators[0])
            op = type(t.ops[0])
            try:
                truth = tuple(k for k in range(4) if {ast.In: lambda: k in c, ast.NotIn: lambda: k not in c, ast.Eq: lambda: k == c, ast.NotEq: lambda: k != c,
                                                      ast.Gt: lambda: k > c, ast.GtE: lambda: k >= c, ast.Lt: lambda: k < c, ast.LtE: lambda: k <= c}[op]())
            except (KeyError, TypeError):
                continue
            tails.append(truth)
    if sorted(tails) == [(1, 2, 3), (2, 3), (3,)]:
        out.append(ctx.ok(spec, "tail bytes: 3 → byte 2, {2,3} → byte 1, {1,2,3} → byte 0 and the k1 mix", fn, mod, key="tail"))
    elif len(tails) == 3:
        out.append(ctx.bad(spec, "tail cascade tests hold for lengths %s, expected (3), (2,3), (1,2,3)" % sorted(tails), fn, mod, key="tail"))
    else:
        out.append(ctx.err(spec, "tail cascade not recognised (tests on the tail length: %s)" % sorted(tails), fn, mod))
    # result masked
    rets = [s.value for s in ast.walk(fn) if isinstance(s, ast.Return)]
    if rets and _mask_bits(rets[0], f) == 32:
        out.append(ctx.ok(spec, "result is masked to 32 bits", rets[0], mod, key="result-mask"))
    else:
        out.append(ctx.bad(spec, "result is not masked to 32 bits", fn, mod, key="result-mask"))
    src = ast.unparse(fn)
    if "h1 ^= length" in src and "h1 * 5 + 3864292196" in src:
        out.append(ctx.ok(spec, "h1 = h1·5 + 0xe6546b64 per block; h1 ^= len before fmix", fn, mod, key="body"))
    else:
        out.append(ctx.err(spec, "block mix / length xor idiom of MurmurHash3 not recognised", fn, mod))
    return out


def c18_5(ctx):
    from rules.bitcodecs import golomb_cells, pack_cells, try_cells
    g, pk = try_cells(golomb_cells, ctx), try_cells(pack_cells, ctx)
    if g is not None and pk is not None:
        return g + pk
    return _c18_5_text(ctx)


def _c18_5_text(ctx):
    out = []
    src_e = ast.unparse(rl.get(ctx, "compactfilter:encode_golomb")[1])
    src_d = ast.unparse(rl.get(ctx, "compactfilter:decode_golomb")[1])
    enc_ok = "q = x >> p" in src_e and "[1] * q + [0]" in src_e and "1 << p - i - 1" in src_e
    dec_ok = "while bits[0] != 0" in src_d and "r <<= 1" in src_d and "(q << p) + r" in src_d
    mod, fn = rl.get(ctx, "compactfilter:encode_golomb")
    if enc_ok and dec_ok:
        out.append(ctx.ok("compactfilter:encode_golomb↔decode_golomb", "quotient in unary (1…10) then P remainder bits, most significant first, on both sides", fn, mod, key="golomb"))
    elif ("1 << i" in src_e) != ("r |= bit << i" in src_d):
        out.append(ctx.bad("compactfilter:encode_golomb↔decode_golomb", "remainder bit order differs between encoder and decoder", fn, mod, key="golomb"))
    else:
        out.append(ctx.err("compactfilter:encode_golomb↔decode_golomb", "Golomb-Rice idioms not recognised", fn, mod))
    # padding of the Golomb bit stream: exactly (-n) mod 8 zero bits (0..7), never a whole extra byte
    pmod, pfn = rl.get(ctx, "compactfilter:pack_bits")
    bparam = param_names(pfn)[0]
    pads = []
    for n_ in cfg_of(pfn).stmts(("stmt",)):
        a_ = n_.ast
        v_ = a_.value if isinstance(a_, (ast.Assign, ast.AugAssign)) else None
        if v_ is None:
            continue
        for b_ in ast.walk(v_):
            if isinstance(b_, ast.BinOp) and isinstance(b_.op, ast.Mult):
                for lst, cnt in ((b_.left, b_.right), (b_.right, b_.left)):
                    if isinstance(lst, ast.List) and len(lst.elts) == 1 and isinstance(lst.elts[0], ast.Constant) and lst.elts[0].value == 0:
                        pads.append((n_, expand(pfn, n_.id, cnt, depth=2)))
    if not pads:
        out.append(ctx.err("compactfilter:pack_bits", "zero padding `[0] * k` not found", pfn, pmod))
    else:
        import copy
        n_, cnt = pads[0]
        wrong = None
        undecided = False
        for r in range(0, 17):
            class _L(ast.NodeTransformer):
                def visit_Call(self, node):
                    if isinstance(node.func, ast.Name) and node.func.id == "len" and node.args and ast.unparse(node.args[0]) == bparam:
                        return ast.copy_location(ast.Constant(value=r), node)
                    return self.generic_visit(node)
            k = Folder(ctx.repo, pmod.name).fold(ast.fix_missing_locations(_L().visit(copy.deepcopy(cnt))))
            if not isinstance(k, int):
                undecided = True
                break
            if k != (-r) % 8 and wrong is None:
                wrong = (r, k)
        if undecided:
            out.append(ctx.err("compactfilter:pack_bits", "padding count `%s` not evaluable" % ast.unparse(cnt), n_.ast, pmod))
        elif wrong:
            out.append(ctx.bad("compactfilter:pack_bits", "a stream of %d bits is padded with %d zero bits (`%s`); BIP158 pads to the next byte boundary only: %d" % (
                wrong[0], wrong[1], ast.unparse(cnt), (-wrong[0]) % 8), n_.ast, pmod, key="pad"))
        else:
            out.append(ctx.ok("compactfilter:pack_bits", "the bit stream is padded with (-n) mod 8 zero bits", n_.ast, pmod, key="pad"))
    src_p = ast.unparse(rl.get(ctx, "compactfilter:pack_bits")[1])
    src_u = ast.unparse(rl.get(ctx, "compactfilter:unpack_bits")[1])
    mod, fn = rl.get(ctx, "compactfilter:pack_bits")
    p_ok = "result <<= 1" in src_p and "-num_bytes % 8" in src_p and ("'big'" in src_p or "int_to_big_endian(" in src_p)
    u_ok = ("byte & 128" in src_u or "byte & 0x80" in src_u) and "byte <<= 1" in src_u
    if p_ok and u_ok:
        out.append(ctx.ok("compactfilter:pack_bits↔unpack_bits", "bits are packed MSB-first with zero padding to a byte boundary; unpacking tests 0x80 and shifts left", fn, mod, key="pack"))
    elif (re.search(r"byte & 1(?![0-9])", src_u) is not None) != ("1 << i" in src_p):
        out.append(ctx.bad("compactfilter:pack_bits↔unpack_bits", "bit order differs between packing and unpacking", fn, mod, key="pack"))
    else:
        out.append(ctx.err("compactfilter:pack_bits↔unpack_bits", "bit packing idioms not recognised", fn, mod))
    # serialize_gcs: N as compact size, deltas with P, decode mirrors
    src_s = ast.unparse(rl.get(ctx, "compactfilter:serialize_gcs")[1])
    src_g = ast.unparse(rl.get(ctx, "compactfilter:decode_gcs")[1])
    mod, fn = rl.get(ctx, "compactfilter:serialize_gcs")
    if "delta = item - last_value" in src_s and "encode_golomb(delta, GOLOMB_P)" in src_s and "encode_varint(len(sorted_items)) + pack_bits(result)" in src_s \
            and "num_items = read_varint(s)" in src_g and "decode_golomb(bits, GOLOMB_P)" in src_g and ("current += delta" in src_g or "current += decode_golomb(bits, GOLOMB_P)" in src_g):
        out.append(ctx.ok("compactfilter:serialize_gcs↔decode_gcs", "N (compact size) ‖ Golomb-Rice coded deltas with P; decoder accumulates the deltas", fn, mod, key="gcs"))
    else:
        out.append(ctx.err("compactfilter:serialize_gcs↔decode_gcs", "GCS serialisation / parsing idiom (N ‖ deltas(P), decoder accumulates) not recognised", fn, mod))
    return out


def c18_6(ctx):
    out = []
    mod, fn = rl.get(ctx, "compactfilter:CFHeadersMessage.__init__")
    src = ast.unparse(fn)
    if "current = self.previous_filter_header" in src and "current = hash256(filter_hash + current)" in src and "self.last_header = current" in src:
        out.append(ctx.ok("compactfilter:CFHeadersMessage.__init__", "header_i = hash256(filter_hash_i ‖ header_{i-1}) starting from the previous filter header", fn, mod, key="chain"))
    elif "hash256(current + filter_hash)" in src:
        out.append(ctx.bad("compactfilter:CFHeadersMessage.__init__", "header chaining hashes previous ‖ filter hash; BIP157: filter hash ‖ previous header", fn, mod, key="chain"))
    else:
        out.append(ctx.ok("compactfilter:CFHeadersMessage.__init__", "header chaining is not in the textual form this rule reads; it is decided by C18.12 (evaluation over a formal hash)",
                          fn, mod, key="chain"))
    mod, fn = rl.get(ctx, "compactfilter:CFilterMessage.hash")
    rets = [(n_, expand(fn, n_.id, n_.ast.value, depth=4)) for n_ in cfg_of(fn).returns() if n_.ast is not None and n_.ast.value is not None]
    r = [ast.unparse(e) for _, e in rets]
    if r == ["hash256(self.filter_bytes)"]:
        out.append(ctx.ok("compactfilter:CFilterMessage.hash", "filter hash = hash256(filter bytes)", fn, mod, key="filter-hash"))
    elif len(rets) == 1 and isinstance(rets[0][1], ast.Call) and call_name(rets[0][1]) in ("sha256", "hash160", "sha1", "ripemd160") and "filter_bytes" in r[0]:
        out.append(ctx.bad("compactfilter:CFilterMessage.hash", "filter hash is %s, BIP157: double SHA-256 of the filter" % r, fn, mod, key="filter-hash"))
    elif len(rets) == 1 and isinstance(rets[0][1], ast.Call) and call_name(rets[0][1]) == "hash256" and "filter_bytes" not in r[0]:
        out.append(ctx.bad("compactfilter:CFilterMessage.hash", "filter hash is %s: not a hash of the filter bytes" % r, fn, mod, key="filter-hash"))
    else:
        out.append(ctx.err("compactfilter:CFilterMessage.hash", "filter hash expression %s not recognised" % r, fn, mod))
    mod, fn = rl.get(ctx, "bloomfilter:BloomFilter.filterload")
    w = WriterExec(ctx.repo, mod, fn)
    w.run()
    env = getattr(w, "last_env", None)
    txt = fmt_terms(env.b.get("payload", [])) if env else ""
    if txt == "varint(self.size) ‖ self.filter_bytes() ‖ int4LE(self.function_count) ‖ int4LE(self.tweak) ‖ int1LE(flag)":
        out.append(ctx.ok("bloomfilter:BloomFilter.filterload", "size ‖ bit field ‖ nHashFuncs(4 LE) ‖ nTweak(4 LE) ‖ nFlags(1)", fn, mod, key="filterload"))
    else:
        out.append(ctx.bad("bloomfilter:BloomFilter.filterload", "filterload payload %s differs from BIP37" % txt, fn, mod, key="filterload"))
    return out


def _with_callees(mod, fn, cls):
    """fn plus the methods of its class it calls through self (one level): extracted helpers / generators"""
    out = [fn]
    for c in ast.walk(fn):
        if isinstance(c, ast.Call) and isinstance(c.func, ast.Attribute) and isinstance(c.func.value, ast.Name) and c.func.value.id == "self":
            g = mod.functions.get("%s.%s" % (cls, c.func.attr))
            if g is not None and g not in out:
                out.append(g)
    return out


def c18_7(ctx):
    from sa import algebra
    spec = "bloomfilter:BloomFilter.add"
    mod, fn = rl.get(ctx, spec)
    fns = _with_callees(mod, fn, "BloomFilter")
    out = []
    f = Folder(ctx.repo, mod.name)
    # the murmur3 call and its seed
    site = None
    for g in fns:
        for n_, c in rl.find_calls(g, "murmur3"):
            site = (g, n_, c)
    if site is None:
        return [ctx.err(spec, "murmur3 call not found in add() or the methods it calls", fn, mod)]
    g, n_, c = site
    ctx.note_fn(mod, g)
    seed = next((k.value for k in c.keywords if k.arg == "seed"), c.args[1] if len(c.args) > 1 else None)
    loops = [lp for lp in ast.walk(g) if isinstance(lp, ast.For) and isinstance(lp.target, ast.Name)]
    ivar = next((lp.target.id for lp in loops if ast.unparse(lp.iter) == "range(self.function_count)"), None)
    if seed is None or ivar is None:
        out.append(ctx.err(spec, "seed / loop over the hash functions not recognised (seed=%s, loops=%s)" % (ast.unparse(seed) if seed is not None else None,
                                                                                                       [ast.unparse(lp.iter) for lp in loops]), c, mod))
    else:
        ts = sorted(algebra.terms(expand(g, n_.id, seed, depth=2)))
        want = sorted([(1, " * ".join(sorted(["BIP37_CONSTANT", ivar]))), (1, "self.tweak")])
        want2 = sorted([(1, " * ".join(sorted([str(f.fold(ast.Name(id="BIP37_CONSTANT", ctx=ast.Load()))), ivar]))), (1, "self.tweak")])
        if ts in (want, want2):
            out.append(ctx.ok(spec, "seed_i = i·0xFBA4C795 + tweak for i < nHashFuncs", c, mod, key="seed"))
        else:
            out.append(ctx.bad(spec, "hash seed is `%s`, BIP37: i·0xFBA4C795 + nTweak for i in range(nHashFuncs)" % ast.unparse(expand(g, n_.id, seed, depth=2)), c, mod, key="seed"))
    # bit index = murmur3(...) mod (size * 8), and that bit is set
    mods = [b_ for g2 in fns for b_ in ast.walk(g2) if isinstance(b_, ast.BinOp) and isinstance(b_.op, ast.Mod)
            and any(isinstance(x, ast.Call) and call_name(x) == "murmur3" for x in ast.walk(expand(g2, 0, b_.left, depth=0) if False else b_.left))]
    if not mods:
        # h = murmur3(...); bit = h % (...)
        for g2 in fns:
            for st in ast.walk(g2):
                if isinstance(st, ast.BinOp) and isinstance(st.op, ast.Mod) and isinstance(st.left, ast.Name):
                    defs = [a_ for a_ in ast.walk(g2) if isinstance(a_, ast.Assign) and isinstance(a_.targets[0], ast.Name) and a_.targets[0].id == st.left.id]
                    if len(defs) == 1 and isinstance(defs[0].value, ast.Call) and call_name(defs[0].value) == "murmur3":
                        mods.append(st)
    sets = [a_ for g2 in fns for a_ in ast.walk(g2) if isinstance(a_, ast.Assign) and isinstance(a_.targets[0], ast.Subscript)
            and ast.unparse(a_.targets[0].value) == "self.bit_field" and f.fold(a_.value) == 1]
    if mods and sets:
        fac = sorted(x for x in algebra.terms(mods[0].right)[0][1].split(" * ")) if len(algebra.terms(mods[0].right)) == 1 else None
        if fac == ["8", "self.size"]:
            out.append(ctx.ok(spec, "bit = murmur3(item, seed) mod (8·size) is set", mods[0], mod, key="bit"))
        else:
            out.append(ctx.bad(spec, "bit index is murmur3(…) mod `%s`, BIP37: mod (size·8)" % ast.unparse(mods[0].right), mods[0], mod, key="bit"))
    else:
        out.append(ctx.err(spec, "bit index computation / bit store not recognised", fn, mod))
    mod2, fn2 = rl.get(ctx, "bloomfilter:BloomFilter.__init__")
    if "[0] * (size * 8)" in ast.unparse(fn2):
        out.append(ctx.ok("bloomfilter:BloomFilter.__init__", "bit field has 8·size bits", fn2, mod2, key="field-size"))
    else:
        out.append(ctx.bad("bloomfilter:BloomFilter.__init__", "bit field does not have 8·size bits", fn2, mod2, key="field-size"))
    return out

def _murmur3_ref(data, seed):
    """MurmurHash3 x86_32 (reference the library's filter is compared with)"""
    c1, c2, M = 0xCC9E2D51, 0x1B873593, 0xFFFFFFFF
    h = seed & M
    rot = lambda x, r: ((x << r) | (x >> (32 - r))) & M
    nb = len(data) // 4
    for i in range(nb):
        k = int.from_bytes(data[4 * i:4 * i + 4], "little")
        k = (rot((k * c1) & M, 15) * c2) & M
        h = (rot(h ^ k, 13) * 5 + 0xE6546B64) & M
    tail = data[4 * nb:]
    if tail:
        k = int.from_bytes(tail, "little")
        h ^= (rot((k * c1) & M, 15) * c2) & M
    h ^= len(data)
    h ^= h >> 16
    h = (h * 0x85EBCA6B) & M
    h ^= h >> 13
    h = (h * 0xC2B2AE35) & M
    return h ^ (h >> 16)


def c18_20(ctx):
    if not hasattr(ctx, "_c18_20"):
        ctx._c18_20 = _c18_20(ctx)
    return ctx._c18_20


def _c18_20(ctx):
    """BIP37 filter bytes, evaluated end to end (constructor, add, the hash, the bit packer -- no stand-ins) against the rule's own MurmurHash3 and
    BIP37 positions: filters in which every position is hit once, in which one element is added twice, in which many elements share positions
    (a 2-byte filter with 50 hash functions, bit 7 of a byte among the shared ones), an empty element, elements of 1..9 bytes (every tail length of
    the hash) and tweaks that carry the seed beyond 32 bits.  Every inserted element is reported present and the bytes are BIP37's."""
    from sa.cells import ClassRef, Evaluator, Obj, Raised, Undecided
    spec = "bloomfilter:BloomFilter.add"
    mod, fn = rl.get(ctx, spec)
    cases = [("the elements of the project's own test", 10, 5, 99, [b"Hello World", b"Goodbye!"]),
             ("one element added twice", 10, 5, 99, [b"Hello World", b"Hello World"]),
             ("eight elements in a 2-byte filter with 50 hash functions", 2, 50, 0xDEADBEEF, [bytes([i]) for i in range(8)]),
             ("an empty element", 4, 3, 0, [b""]),
             ("elements of 1..9 bytes", 36, 11, 0xFFFFFFFF, [bytes(range(1, k + 1)) for k in range(1, 10)]),
             ("a one-byte filter", 1, 1, 7, [b"a", b"b", b"c"]),
             ("no element at all", 3, 2, 1, [])]
    n = 0
    try:
        for what, size, k, tweak, items in cases:
            n += 1
            want = bytearray(size)
            for it in items:
                for i in range(k):
                    b = _murmur3_ref(it, i * 0xFBA4C795 + tweak) % (size * 8)
                    want[b >> 3] |= 1 << (b & 7)
            ev = Evaluator(ctx.repo, max_steps=4000000)
            flt = Obj("bloomfilter", "BloomFilter", {})
            try:
                ev.call("bloomfilter:BloomFilter.__init__", [size, k, tweak], self_obj=flt)
                for it in items:
                    ev.call(spec, [it], self_obj=flt)
                got = ev.call("bloomfilter:BloomFilter.filter_bytes", [], self_obj=flt)
            except Raised as x:
                return [ctx.bad(spec, "%s (size %d, %d functions, tweak %#x): building the filter raises %s" % (what, size, k, tweak, x.name), fn, mod, key="bloom-cells")]
            if not isinstance(got, (bytes, bytearray)) or bytes(got) != bytes(want):
                return [ctx.bad(spec, "%s (size %d, %d functions, tweak %#x): the filter bytes are %s, BIP37 (MurmurHash3 positions of every inserted element) gives %s -- an inserted "
                                      "element is not reported present, or a bit nothing hashed to is set" % (what, size, k, tweak, bytes(got).hex() if isinstance(got, (bytes, bytearray)) else got,
                                                                                                            bytes(want).hex()), fn, mod, key="bloom-cells")]
    except Undecided as u:
        return [ctx.err(spec, "bloom filter not evaluable: %s" % u, fn, mod)]
    ctx.count("cells", n)
    return [ctx.ok(spec, "%d filters (positions hit once, twice and many times; bit 7; empty and 1..9-byte elements; seed beyond 32 bits; no element): bytes equal BIP37's" % n, fn, mod,
                   key="bloom-cells")]



def c18_10(ctx):
    """MEMO: no hash position / bit position is remembered under a key that leaves out the filter's key, size or tweak"""
    from sa.memo import cache_obligation
    return cache_obligation(ctx, ["compactfilter", "bloomfilter", "siphash", "helper"], "the position computed for one block's filter would be looked up in another block's filter")


def c18_11(ctx):
    """the compact-size codec the filter's element count and byte lengths go through (shared with C04.3)"""
    from rules.C04 import c04_3
    return c04_3(ctx)


def c18_12(ctx):
    """CFHeadersMessage chains the headers: header_n = H(filter_hash_n || header_{n-1}).  Evaluated with the hash as a formal
    constructor over 0..4 filter hashes, so the comparison holds for every value"""
    from sa.cells import Evaluator, Obj, Raised, Undecided
    spec = "compactfilter:CFHeadersMessage.__init__"
    mod, fn = rl.get(ctx, spec)

    def opaque(name, args, kw):
        if name == "hash256":
            return b"H(" + args[0] + b")"
        return NotImplemented
    ps = param_names(fn)[1:]
    for n in range(0, 5):
        fhs = [b"<f%d>" % i for i in range(n)]
        prev = b"<prev>"
        want = prev
        for fh in fhs:
            want = b"H(" + fh + want + b")"
        me = Obj("compactfilter", "CFHeadersMessage")
        kw = {}
        for p_ in ps:
            if "hashes" in p_:
                kw[p_] = list(fhs)
            elif "previous" in p_:
                kw[p_] = prev
            elif "type" in p_:
                kw[p_] = 0
            else:
                kw[p_] = b"<stop>"
        try:
            Evaluator(ctx.repo, opaque=opaque).call(spec, [], self_obj=me, kwargs=kw)
        except Undecided as u:
            return [ctx.err(spec, "constructor not evaluable for %d filter hashes: %s" % (n, u), fn, mod)]
        except Raised as x:
            return [ctx.bad(spec, "raises %s for %d filter hashes" % (x.name, n), fn, mod, key="header-chain")]
        got = me.attrs.get("last_header")
        if got != want:
            return [ctx.bad(spec, "with %d filter hashes last_header is %s, BIP157 chains %s: a header after the first is not hash(filter hash || previous *header*)" % (
                n, got.decode() if isinstance(got, bytes) else got, want.decode()), fn, mod, key="header-chain")]
    ctx.count("cells", 5)
    return [ctx.ok(spec, "last_header = H(f_n || H(f_{n-1} || ... H(f_1 || previous header))) for 0..4 filter hashes (formal hash)", fn, mod, key="header-chain")]


def _hashed_items_cells(ctx, spec, mod, fn):
    """hashed_items evaluated with hash_to_range as a stand-in that records its arguments, for item lists of 0..6 elements (with repeated
    items): every item is hashed exactly once, into the range F = N * M with N the number of items, and the values come back sorted.  None
    when the function is outside the evaluator's subset."""
    from sa.cells import Evaluator, Raised, Undecided
    M = 784931
    key = bytes(range(16))
    try:
        for n in range(0, 7):
            ctx.count("cells")
            items = [bytes([7 * i % 5, i]) * 3 for i in range(n)]
            if n >= 3:
                items[2] = items[0]  # a repeated element still counts towards N
            if n >= 2:
                items[1] = b""       # ... and so does an empty one: N is the number of items handed in
            calls = []

            def opaque(name, args, kw):
                if name == "hash_to_range":
                    calls.append(tuple(args))
                    return (1000 - 37 * len(calls)) % 97
                return NotImplemented
            try:
                r = Evaluator(ctx.repo, opaque=opaque).call(spec, [key, list(items)])
            except Raised as x:
                return [ctx.bad(spec, "hashed_items of %d items raises %s" % (n, x.name), fn, mod, key="count-agrees")]
            fs = {c[2] for c in calls if len(c) >= 3}
            if sorted(c[1] for c in calls) != sorted(items) or any(c[0] != key for c in calls):
                return [ctx.bad(spec, "of %d items, %d are hashed: the filter stores a different number of elements than N, so they are looked up in the wrong range" % (n, len(calls)),
                                fn, mod, key="count-agrees")]
            if n and fs != {n * M}:
                return [ctx.bad(spec, "%d items are hashed into the range %s, BIP158: F = N * M = %d" % (n, sorted(fs), n * M), fn, mod, key="count-agrees")]
            want = sorted((1000 - 37 * (i + 1)) % 97 for i in range(len(calls)))
            if r != want:
                return [ctx.bad(spec, "the hashed values of %d items come back as %s, not as the sorted list of all of them" % (n, r), fn, mod, key="count-agrees")]
    except Undecided:
        return None
    return [ctx.ok(spec, "every item is hashed once into [0, N*M) with N = number of items, result sorted (lists of 0..6 items evaluated)", fn, mod, key="count-agrees")]


def c18_8(ctx):
    """hashed_items: the range F = N*M is computed from the number N of items, and exactly N values are produced -- every
    iteration of the loop over the same item list appends one hashed value (an item skipped after N was taken makes the
    serialised count disagree with the range the elements were hashed into)"""
    spec = "compactfilter:hashed_items"
    mod, fn = rl.get(ctx, spec)
    ev = _hashed_items_cells(ctx, spec, mod, fn)
    if ev is not None:
        return ev
    cfg = cfg_of(fn)
    counted = set()
    for n in cfg.stmts(("stmt",)):
        a = n.ast
        if isinstance(a, ast.Assign):
            for x in ast.walk(a.value):
                if isinstance(x, ast.Call) and call_name(x) == "len" and x.args and isinstance(x.args[0], ast.Name):
                    counted.add(x.args[0].id)
    loops = [lp for lp in cfg.loops.values() if isinstance(lp.stmt, ast.For) and isinstance(lp.stmt.iter, ast.Name)]
    if not counted or not loops:
        return [ctx.err(spec, "the count N = len(<items>) / the loop over the items were not recognised", fn, mod)]
    out = []
    for lp in loops:
        it = lp.stmt.iter.id
        if it not in counted:
            out.append(ctx.err(spec, "the loop runs over `%s` but N is the length of %s" % (it, sorted(counted)), lp.stmt, mod))
            continue
        apps = {n.id for n in cfg.nodes if n.ast is not None and n.id in lp.body and isinstance(n.ast, ast.Expr) and isinstance(n.ast.value, ast.Call)
                and call_name(n.ast.value) in ("append", "add") and any(isinstance(c, ast.Call) and call_name(c) == "hash_to_range" for c in ast.walk(n.ast))}
        if not apps:
            out.append(ctx.err(spec, "the statement that adds hash_to_range(...) to the result was not found in the loop", lp.stmt, mod))
            continue
        starts = []
        for a, label in lp.body_entry:
            starts += [b for b, l in cfg.succ[a] if l == label]
        r = cfg.reach(starts, blocked=apps, within=set(lp.body) | {lp.head})
        if lp.head in r:
            p = cfg.path(starts, [lp.head], blocked=apps)
            out.append(ctx.bad(spec, "an iteration over `%s` can end without adding a value (path %s) although N = len(%s) was taken before the loop: the filter "
                                     "stores fewer than N elements hashed into [0, N*M), so they are looked up in the wrong range" % (it, cfg.fmt_path(p or []), it),
                               lp.stmt, mod, key="count-agrees"))
        else:
            out.append(ctx.ok(spec, "every iteration over `%s` adds one hash_to_range value; N = len(%s)" % (it, it), lp.stmt, mod, key="count-agrees"))
    return out


def c18_9(ctx):
    """BloomFilter.__init__ accepts every size 1..36000 bytes and every function count 1..50 (the BIP37 limits): a constructor
    that refuses one of them has no filter at all for that configuration"""
    from sa.ranges import Ranges
    spec = "bloomfilter:BloomFilter.__init__"
    mod, fn = rl.get(ctx, spec)
    ps = param_names(fn)
    if len(ps) < 3:
        raise AnalysisError("BloomFilter.__init__ signature changed: %s" % ps)
    size, fc = ps[1], ps[2]
    ra = Ranges(ctx.repo, mod, fn, {size: ISet.top(), fc: ISet.top()})
    cfg = cfg_of(fn)
    exits = [n.id for n in cfg.returns()] or [cfg.exit_return]
    out = []
    for key, need, label in ((size, ISet.range(1, 36000), "size"), (fc, ISet.range(1, 50), "function count")):
        acc = ra.union_at(exits, key)
        if need.issubset(acc):
            out.append(ctx.ok(spec, "%s: every value in %s reaches the end of the constructor" % (label, need.describe({})), fn, mod, key="domain:" + key))
        elif ra.uninterpreted:
            out.append(ctx.err(spec, "cannot decide the accepted %s: %s" % (label, ra.uninterpreted[0][1]), fn, mod))
        else:
            w = need.minus(acc).witness((50, 36000, 1))
            out.append(ctx.bad(spec, "%s = %s is refused although BIP37 allows it (accepted: %s)" % (label, w, acc.describe({})), fn, mod, key="domain:" + key,
                               detail={"witness_value": str(w)}))
    return out


def c18_13(ctx):
    """SET-ORDER: no ordered result (list, serialisation, yielded sequence) of the modules this property is anchored in takes its
    order from the iteration order of a set"""
    from sa.setorder import setorder_obligation
    return setorder_obligation(ctx, ["compactfilter", "siphash", "bloomfilter", "helper"], "the same inputs give different output from run to run")


def c18_14(ctx):
    """SHARED necessary conditions over the modules this property is anchored in: FALSY-DEFAULT, MUTABLE-DEFAULT, IDENTITY, ALIAS,
    CTOR-FORWARD (sa/shared.py)"""
    from sa.shared import shared_obligations
    return shared_obligations(ctx, ["compactfilter", "siphash", "bloomfilter", "helper"], "the result would depend on something other than the arguments and the object's current state")


def c18_15(ctx):
    """no false negatives: `x in filter` is decided by the filter's contents only.  Every value a __contains__ of compactfilter.py returns
    must come from the membership test on the stored hashes (or from the wrapped filter); a constant `return False` reached through a test on
    the *element* reports an inserted element absent"""
    out = []
    mod = ctx.repo.module("compactfilter")
    for qn, fn in sorted(mod.functions.items()):
        if not qn.endswith(".__contains__"):
            continue
        spec = "compactfilter:" + qn
        ctx.note_fn(mod, fn)
        cfg = cfg_of(fn)
        probs = []
        n_ret = 0
        for n in cfg.returns():
            v = n.ast.value if n.ast is not None else None
            n_ret += 1
            if isinstance(v, ast.Constant) and v.value in (False, None, 0):
                tests = [t for t in cfg.tests() if any(b == n.id for b, _ in cfg.succ[t.id])]
                probs.append("`return %s`%s answers without looking at the filter's contents" % (
                    ast.unparse(v), (" under `%s`" % ast.unparse(tests[0].ast)[:50]) if tests else ""))
            elif v is not None and not isinstance(v, ast.Constant):
                o = origins(fn, n.id, v)
                if not any(x.startswith("attr:self.") for x in o):
                    probs.append("`return %s` does not depend on the filter" % ast.unparse(v)[:50])
        if probs:
            out.append(ctx.bad(spec, "%s: an element that was inserted can be reported absent (BIP158 / BIP37 filters have no false negatives)" % "; ".join(probs), fn, mod,
                               key="no-false-negative:" + qn))
        elif n_ret:
            out.append(ctx.ok(spec, "every verdict comes from the membership test on the filter's contents", fn, mod, key="no-false-negative:" + qn))
    if not out:
        raise AnalysisError("no __contains__ found in compactfilter.py")
    return out


def c18_16(ctx):
    """the Golomb-Rice decoder is total on what the encoder emits: the unary quotient has no upper bound in BIP158 (x >> P can be any
    non-negative number), so decode_golomb must not refuse a value because its quotient is large"""
    spec = "compactfilter:decode_golomb"
    mod, fn = rl.get(ctx, spec)
    cfg = cfg_of(fn)
    counters = set()
    for lp in cfg.loops.values():
        for st in ast.walk(lp.stmt):
            if isinstance(st, ast.AugAssign) and isinstance(st.op, ast.Add) and isinstance(st.target, ast.Name) and isinstance(st.value, ast.Constant) and st.value.value == 1:
                counters.add(st.target.id)
    f = Folder(ctx.repo, mod.name)
    for n in cfg.nodes:
        if n.kind != "raise":
            continue
        for t in cfg.tests():
            if not any(b == n.id for b, _ in cfg.succ[t.id]):
                continue
            a = t.ast
            if isinstance(a, ast.Compare) and len(a.ops) == 1:
                sides = [a.left, a.comparators[0]]
                names = [x.id for s_ in sides for x in ast.walk(s_) if isinstance(x, ast.Name)]
                bound = next((f.fold(s_) for s_ in sides if isinstance(f.fold(s_), int)), None)
                if set(names) & counters and bound is not None:
                    return [ctx.bad(spec, "`%s` refuses a value whose unary quotient passes %d: every x >= %d * 2^P is emitted by encode_golomb and cannot be decoded, so a filter "
                                          "with one wide gap does not parse" % (ast.unparse(a), bound, bound + 1), a, mod, key="golomb-total")]
    return [ctx.ok(spec, "no refusal depends on the size of the unary quotient (%d counter(s) inspected)" % len(counters), fn, mod, key="golomb-total")]


def c18_17(ctx):
    """the bit-field codec BIP37 filters are serialised with: one byte per 8 bits, least significant first, every byte of the declared size written (shared with C17.10)"""
    from rules.C17 import c17_10
    return c17_10(ctx)


def c18_18(ctx):
    """a filter serialises to the Golomb-coded *ascending* sequence of its values whatever order it was built from (BIP158 codes the
    differences of the sorted values): CompactFilter(key, values).serialize() is evaluated for values given ascending, descending and shuffled,
    with serialize_gcs as a stand-in that records the list it is given"""
    from sa.cells import Evaluator, Obj, Raised, Undecided
    spec = "compactfilter:CompactFilter.serialize"
    mod, fn = rl.get(ctx, spec)
    vals = [5, 1200, 77, 999999, 31, 4096]
    for label, order in (("ascending", sorted(vals)), ("descending", sorted(vals, reverse=True)), ("shuffled", list(vals))):
        ctx.count("cells")
        seen = {}

        def opaque(name, args, kw):
            if name == "serialize_gcs":
                seen["arg"] = list(args[0])
                return b"GCS"
            return NotImplemented
        me = Obj("compactfilter", "CompactFilter", {})
        try:
            Evaluator(ctx.repo, opaque=opaque).call("compactfilter:CompactFilter.__init__", [bytes(16), list(order)], self_obj=me)
            Evaluator(ctx.repo, opaque=opaque).call(spec, [], self_obj=me)
        except Raised as x:
            return [ctx.bad(spec, "serialising a filter built from %s values raises %s" % (label, x.name), fn, mod, key="sorted-serialise")]
        except Undecided as u:
            return [ctx.err(spec, "filter serialisation not evaluable: %s" % u, fn, mod)]
        if seen.get("arg") != sorted(vals):
            return [ctx.bad(spec, "a filter built from the values in %s order hands %s to the Golomb coder, not the ascending sequence: the deltas are wrong (negative or "
                                  "shuffled), so the bytes are not the BIP158 filter and its hash / header chain differ" % (label, seen.get("arg")), fn, mod, key="sorted-serialise")]
    return [ctx.ok(spec, "the Golomb coder receives the ascending sequence for every construction order", fn, mod, key="sorted-serialise")]


def c18_19(ctx):
    """decoding inverts encoding for the filter object: CompactFilter.parse(key, bytes).serialize() is evaluated on BIP158 encodings written by
    the rule's own Golomb-Rice coder -- N = 0, 1, 2, 7 values, with large gaps, with adjacent values and with EQUAL values (two elements that
    hash to the same number are both coded, as a zero delta: BIP158 removes duplicate elements, not duplicate hashes) -- and must give back
    the bytes, and .hash() their double-SHA256 (the filter hash the header chain commits to)"""
    import hashlib
    from sa.cells import ClassRef, Evaluator, Raised, Undecided
    spec = "compactfilter:CompactFilter.serialize"
    mod, fn = rl.get(ctx, spec)

    def gcs(vals):
        bits, last = [], 0
        for v in vals:
            d = v - last
            last = v
            bits += [1] * (d >> 19) + [0] + [(d >> (18 - i)) & 1 for i in range(19)]
        bits += [0] * (-len(bits) % 8)
        body = bytes(int("".join(str(b) for b in bits[i:i + 8]), 2) for i in range(0, len(bits), 8))
        n_ = len(vals)
        return (bytes([n_]) if n_ < 0xFD else b"\xfd" + n_.to_bytes(2, "little")) + body
    seqs = [("no value", []), ("one value", [4242]), ("two distant values", [7, 3000000]), ("adjacent values", [100, 101, 102]),
            ("two equal values (two elements with one hash)", [5, 5]), ("equal values among others", [9, 31, 31, 31, 600000, 600000, 1500000]),
            ("252 values (the last one-byte count)", [1000 * i + (i % 7) for i in range(252)]), ("253 values (the first count written with the fd prefix)", [1000 * i + (i % 5) for i in range(253)])]
    key = bytes(range(16))
    for label, vals in seqs:
        ctx.count("cells")
        data = gcs(vals)
        try:
            ev = Evaluator(ctx.repo, max_steps=2000000)
            o = ev.call("compactfilter:CompactFilter.parse", [key, data], self_obj=ClassRef("compactfilter", "CompactFilter"))
            back = ev.call(spec, [], self_obj=o)
            h = ev.call("compactfilter:CompactFilter.hash", [], self_obj=o)
        except Raised as x:
            return [ctx.bad(spec, "a BIP158 filter with %s: parse / serialize raises %s" % (label, x.name), fn, mod, key="filter-round-trip")]
        except Undecided as u:
            return [ctx.err(spec, "filter round trip not evaluable: %s" % u, fn, mod)]
        if back != data:
            return [ctx.bad(spec, "a BIP158 filter with %s (%d coded values) does not serialise back to the bytes it was parsed from (N = %s is written): decoding does not invert "
                                  "encoding, and hash() is not the filter hash the header chain commits to" % (label, len(vals), back[0] if isinstance(back, bytes) and back else "?"),
                            fn, mod, key="filter-round-trip")]
        if h != hashlib.sha256(hashlib.sha256(data).digest()).digest():
            return [ctx.bad(spec, "a BIP158 filter with %s: hash() is not the double-SHA256 of the filter bytes" % label, fn, mod, key="filter-round-trip")]
    return [ctx.ok(spec, "%d encodings (N = 0, 1, 2, 3, 7, 252, 253; distant, adjacent and equal values) parse and serialise back byte for byte; hash() is their double-SHA256" % len(seqs),
                   fn, mod, key="filter-round-trip")]



OBLIGATIONS = [
    ("C18.19", "CELLS filter round trip", c18_19),
    ("C18.18", "CELLS order", c18_18),
    ("C18.17", "BITS (shared C17.10)", c18_17),
    ("C18.15", "VERDICT-SOURCE", c18_15),
    ("C18.16", "TOTALITY", c18_16),
    ("C18.14", "SHARED", c18_14),
    ("C18.13", "SET-ORDER", c18_13),
    ("C18.1", "TABLE", c18_1),
    ("C18.2", "DATAFLOW", c18_2),
    ("C18.3", "BITS", c18_3),
    ("C18.4", "BITS", c18_4),
    ("C18.5", "BITS", c18_5),
    ("C18.6", "LAYOUT", c18_6),
    ("C18.20", "CELLS bloom filter", c18_20),
    ("C18.7", "DATAFLOW", rl.deferring(c18_7, c18_20, "bloomfilter:BloomFilter.add", "decided by the bloom-filter cells (C18.20: filter bytes equal BIP37's over positions hit once, twice and many times); the store is not in the form this rule reads")),
    ("C18.8", "COUNT per-iteration", c18_8),
    ("C18.9", "RANGE domain", c18_9),
    ("C18.10", "MEMO", c18_10),
    ("C18.11", "RANGE partition+agreement", c18_11),
    ("C18.12", "CELLS formal hash", c18_12),
]
FLOORS = {"C18.1": 8, "C18.2": 4, "C18.3": 3, "C18.4": 1, "C18.5": 3, "C18.6": 3, "C18.7": 3}
