"""C19 — P2P framing and fixed-layout messages (structural clauses)."""
import ast

from sa import rl
from sa.cfg import cfg_of
from sa.dataflow import call_name, dotted, expand, origins
from sa.fold import Folder, Unknown, module_const
from sa.guard import BAD_FALSE, BAD_TRUE
from sa.layout import ReaderExec, WriterExec, fmt_reads, fmt_terms
from sa.layoutcmp import diff, fmt_shape, pair, reader_shape, writer_shape
from sa.loader import AnalysisError, decorators, param_names
from spec import layouts as L

EXPLANATION = (
    "Static analysis of buidl/network.py, compactfilter.py, block.py, helper.py: the envelope reader returns only after the magic comparison, the "
    "checksum comparison and a comparison of the payload length actually read with the declared length; envelope writer/reader/protocol layouts; "
    "every class carrying a `command` exposes parse as a classmethod; each fixed-layout message is compared field by field (width, endianness, order) "
    "with the protocol documentation / BIP157; network magics. Compact size is covered by C04.3. Not decided: round trips on concrete values."
)

MAGICS = {"mainnet": b"\xf9\xbe\xb4\xd9", "testnet": b"\x0b\x11\x09\x07", "signet": b"\x0a\x03\xcf\x40", "regtest": b"\xfa\xbf\xb5\xda"}

I = lambda w, e, f: ("int", w, e, f)
B = lambda w, f, rev=False: ("bytes", w, "rev" if rev else "", f)
C = lambda b: ("const", b)

# protocol documentation "version": ports are in network byte order (big endian)
VERSION = [I(4, "LE", "version"), I(8, "LE", "services"), I(8, "LE", "timestamp"), I(8, "LE", "receiver_services"), C(b"\x00" * 10 + b"\xff\xff"), B(None, "receiver_ip"),
           I(2, "BE", "receiver_port"), I(8, "LE", "sender_services"), C(b"\x00" * 10 + b"\xff\xff"), B(None, "sender_ip"), I(2, "BE", "sender_port"), B(None, "nonce"),
           ("count", "user_agent"), B(None, "user_agent"), I(4, "LE", "latest_block"), ("alt", "self.relay", [C(b"\x01")], [C(b"\x00")])]
GETHEADERS = [I(4, "LE", "version"), ("varint", "num_hashes"), B(None, "start_block", True), B(None, "end_block", True)]
GETDATA = [("count", "data"), ("repeat", "data", [I(4, "LE", None), B(None, None, True)])]
GETCFILTERS = [I(1, "BE", "filter_type"), I(4, "LE", "start_height"), B(None, "stop_hash", True)]
GETCFCHECKPT = [I(1, "BE", "filter_type"), B(None, "stop_hash", True)]
CFILTER_R = [B(1, "filter_type"), B(32, "block_hash", True), ("varstr", "filter_bytes", "")]
CFHEADERS_R = [B(1, "filter_type"), B(32, "stop_hash", True), B(32, "previous_filter_header"), ("count", "filter_hashes"), ("repeat", "filter_hashes", [B(32, "<elem>")])]
CFCHECKPT_R = [B(1, "filter_type"), B(32, "stop_hash", True), ("count", "filter_headers"), ("repeat", "filter_headers", [B(32, "<elem>")])]
HEADERS_R = [("count", "headers"), ("repeat", "headers", [("nested", "<elem>", ""), ("varint", None)])]
NONCE8_R = [B(8, "nonce")]


def c19_1(ctx):
    spec = "network:NetworkEnvelope.parse"
    mod, fn = rl.get(ctx, spec)

    def m_magic(node, ex, atoms):
        t = node.ast
        if isinstance(t, ast.Compare) and len(t.ops) == 1 and isinstance(t.ops[0], (ast.Eq, ast.NotEq)):
            lo, ro = origins(fn, node.id, t.left), origins(fn, node.id, t.comparators[0])
            for a, b in ((lo, ro), (ro, lo)):
                if "name:MAGIC" in a and "call:read" in b and "name:MAGIC" not in b:
                    return BAD_TRUE if isinstance(t.ops[0], ast.NotEq) else BAD_FALSE
        return None

    def m_cs(node, ex, atoms):
        t = node.ast
        if isinstance(t, ast.Compare) and len(t.ops) == 1 and isinstance(t.ops[0], (ast.Eq, ast.NotEq)):
            lo, ro = origins(fn, node.id, t.left), origins(fn, node.id, t.comparators[0])
            for a, b in ((lo, ro), (ro, lo)):
                if "call:hash256" in a and "slice::4" in a and "call:read" in b and "call:hash256" not in b:
                    return BAD_TRUE if isinstance(t.ops[0], ast.NotEq) else BAD_FALSE
        return None
    out = [rl.guard(ctx, spec, m_magic, what="network magic must match", key="magic"), rl.guard(ctx, spec, m_cs, what="payload checksum must match", key="checksum")]
    hs = [c for _, c in rl.find_calls(fn, "hash256")]
    if hs and isinstance(hs[0].args[0], ast.Name) and hs[0].args[0].id == "payload":
        out.append(ctx.ok(spec, "checksum is hash256(payload)[:4] of the payload that is returned", hs[0], mod, key="cs-over-payload"))
    else:
        out.append(ctx.bad(spec, "checksum is not computed over the returned payload", fn, mod, key="cs-over-payload"))
    if any(r.status != "ok" for r in out):
        # the same clauses are decided by evaluation (C19.17: every single-byte corruption and truncation of an envelope; the reading of the guards
        # above is the fallback for spellings it does not recognise)
        cells = _envelope_cells(ctx)
        if cells and all(r.status == "ok" for r in cells):
            return [ctx.ok(spec, "magic, checksum and payload checks decided by the envelope cells (C19.17); the guards are not in the form this rule reads", fn, mod, key=k_)
                    for k_ in ("magic", "checksum", "cs-over-payload")]
    return out


def _envelope_cells(ctx):
    if not hasattr(ctx, "_c19_17"):
        ctx._c19_17 = _c19_17(ctx)
    return ctx._c19_17


def c19_2(ctx):
    spec = "network:NetworkEnvelope.parse"
    try:
        out = _c19_2_struct(ctx)
    except AnalysisError as e:
        out = [ctx.err(spec, str(e))]
    if any(r.status != "ok" for r in out):
        cells = _envelope_cells(ctx)
        if cells and all(r.status == "ok" for r in cells):
            mod, fn = rl.get(ctx, spec)
            return [ctx.ok(spec, "every truncation of an envelope is rejected: decided by the envelope cells (C19.17); the length check is not in the form this rule reads", fn, mod, key="short-payload")]
    return out


def _c19_2_struct(ctx):
    spec = "network:NetworkEnvelope.parse"
    mod, fn = rl.get(ctx, spec)
    cfg = cfg_of(fn)
    # the declared length variable and the payload variable
    lenvar = payvar = None
    for n in cfg.stmts(("stmt",)):
        a = n.ast
        if isinstance(a, ast.Assign) and isinstance(a.targets[0], ast.Name):
            v = a.value
            if isinstance(v, ast.Call) and call_name(v) == "little_endian_to_int" and "read(4)" in ast.unparse(v):
                lenvar = a.targets[0].id
            if isinstance(v, ast.Call) and call_name(v) == "read" and v.args and isinstance(v.args[0], ast.Name) and v.args[0].id == lenvar:
                payvar = a.targets[0].id
    if not lenvar or not payvar:
        raise AnalysisError("envelope parse: length / payload variables not found")

    def match(node, ex, atoms):
        t = node.ast
        if isinstance(t, ast.Compare) and len(t.ops) == 1:
            l, r = ast.unparse(t.left), ast.unparse(t.comparators[0])
            if {l, r} == {"len(%s)" % payvar, lenvar}:
                if isinstance(t.ops[0], ast.NotEq):
                    return BAD_TRUE
                if isinstance(t.ops[0], ast.Eq):
                    return BAD_FALSE
                if isinstance(t.ops[0], ast.Lt) and l.startswith("len("):
                    return BAD_TRUE
                if isinstance(t.ops[0], ast.Gt) and r.startswith("len("):
                    return BAD_TRUE
        return None
    r = rl.guard(ctx, spec, match, what="payload bytes actually read must equal the declared length", key="short-payload")
    if r.status == "violation":
        r.msg = ("an envelope whose stream ends early is accepted when the checksum matches the truncated bytes: `%s = s.read(%s)` may return fewer bytes and "
                 "len(%s) is never compared with %s (declared 100, delivered 3 parses). " % (payvar, lenvar, payvar, lenvar)) + r.msg
    return [r]


def c19_3(ctx):
    out = []
    wspec, rspec = "network:NetworkEnvelope.serialize", "network:NetworkEnvelope.parse"
    wm, wf = rl.get(ctx, wspec)
    rm, rf = rl.get(ctx, rspec)
    ws, rs, d, wt, rt = pair(ctx.repo, wspec, rspec)
    rs = [e for e in rs if e[0] != "alt"]
    d = diff(ws, rs)
    out.append(ctx.ok(wspec, "writer %s ≡ reader" % fmt_shape(ws), wf, wm, key="wr") if d is None else
               ctx.bad(wspec, "envelope writer and reader disagree at %s; writer %s; reader %s" % (d, fmt_shape(ws), fmt_shape(rs)), wf, wm, key="wr"))
    d2 = diff(ws, L.ENVELOPE)
    out.append(ctx.ok(wspec, "writer equals magic(4) ‖ command(12) ‖ length(4 LE) ‖ checksum(4) ‖ payload", wf, wm, key="spec") if d2 is None else
               ctx.bad(wspec, "envelope writer differs from the protocol at %s; writer %s" % (d2, fmt_shape(ws)), wf, wm, key="spec"))
    d3 = diff(L.ENVELOPE, rs)
    out.append(ctx.ok(rspec, "reader equals the protocol layout", rf, rm, key="rspec") if d3 is None else
               ctx.bad(rspec, "envelope reader differs from the protocol at %s; reader %s" % (d3, fmt_shape(rs)), rf, rm, key="rspec"))
    # command padding to 12 with zero bytes / stripped on read
    wsrc, rsrc = ast.unparse(wf), ast.unparse(rf)
    if "b'\\x00' * (12 - len(self.command))" in wsrc and "read(12).strip(b'\\x00')" in rsrc:
        out.append(ctx.ok(wspec, "command is zero-padded to 12 bytes and the padding is stripped on read", wf, wm, key="command-pad"))
    else:
        out.append(ctx.bad(wspec, "command padding to 12 zero bytes / stripping is not symmetric", wf, wm, key="command-pad"))
    # checksum written = hash256(payload)[:4]; length = len(payload)
    wt_txt = wt
    if "int4LE(len(self.payload))" in wt_txt and "(hash256[bytes(self.payload)])[:4]" in wt_txt:
        out.append(ctx.ok(wspec, "length field = len(payload), checksum = hash256(payload)[:4]", wf, wm, key="len-cs"))
    else:
        out.append(ctx.bad(wspec, "length / checksum fields are not len(payload) / hash256(payload)[:4]: %s" % wt_txt, wf, wm, key="len-cs"))
    return rl.defer(ctx, out, lambda: _envelope_cells(ctx), "decided by the envelope cells (C19.17: every network × command length × payload length serialises to the protocol layout and parses back); the writer / reader are not in the form the layout executor reads")


def c19_4(ctx):
    out = []
    n = 0
    for m in ctx.repo.modules.values():
        for cn, cls in m.classes.items():
            has_cmd = any(isinstance(b, ast.Assign) and isinstance(b.targets[0], ast.Name) and b.targets[0].id == "command" for b in cls.body)
            if not has_cmd:
                continue
            fn = m.functions.get(cn + ".parse")
            if fn is None:
                r_ = ctx.repo.resolve_method(m.name, cn, "parse")  # inherited from a shared base class
                fn = r_[1] if r_ else None
            if fn is None:
                continue
            n += 1
            ctx.count("table_entries")
            if "classmethod" in decorators(fn):
                out.append(ctx.ok("%s:%s.parse" % (m.name, cn), "parse is a classmethod", fn, m, key="classmethod:" + cn))
            else:
                out.append(ctx.bad("%s:%s.parse" % (m.name, cn), "`%s.parse` takes (cls, s) but is not decorated with @classmethod: SimpleNode.wait_for calls "
                                   "`Class.parse(stream)`, which raises TypeError for this message" % cn, fn, m, key="classmethod:" + cn))
    if n < 10:
        raise AnalysisError("only %d message classes with parse() found" % n)
    return out


def _writer(ctx, spec, want, key):
    mod, fn = rl.get(ctx, spec)
    t = WriterExec(ctx.repo, mod, fn).run()
    if t is None:
        raise AnalysisError("%s: no serialisation result" % spec)
    ws = writer_shape(ctx.repo, mod, fn, t)
    ctx.count("layout_terms", len(ws))
    d = diff(ws, want)
    if d is None:
        return ctx.ok(spec, "layout %s equals the protocol" % fmt_shape(ws), fn, mod, key=key)
    return ctx.bad(spec, "layout differs from the protocol at %s; found %s; protocol %s" % (d, fmt_shape(ws), fmt_shape(want)), fn, mod, key=key)


def _reader(ctx, spec, want, key):
    mod, fn = rl.get(ctx, spec)
    reads = ReaderExec(ctx.repo, mod, fn).run()
    rs = reader_shape(ctx.repo, mod, fn, reads)
    rs = [e for e in rs if e[0] != "alt"]
    rs = _strip_alt(rs)
    ctx.count("layout_terms", len(rs))
    d = diff(want, rs)
    if d is None:
        return ctx.ok(spec, "layout %s equals the protocol" % fmt_shape(rs), fn, mod, key=key)
    return ctx.bad(spec, "layout differs from the protocol at %s; found %s; protocol %s" % (d, fmt_shape(rs), fmt_shape(want)), fn, mod, key=key)


def _strip_alt(sh):
    out = []
    for e in sh:
        if e[0] == "repeat":
            out.append(("repeat", e[1], _strip_alt([x for x in e[2] if x[0] != "alt"])))
        else:
            out.append(e)
    return out


def c19_5(ctx):
    out = []
    # version: compare item by item so that each deviation is its own finding
    spec = "network:VersionMessage.serialize"
    mod, fn = rl.get(ctx, spec)
    t = WriterExec(ctx.repo, mod, fn).run()
    ws = writer_shape(ctx.repo, mod, fn, t)
    # merge adjacent constants
    merged = []
    for e in ws:
        if merged and merged[-1][0] == "const" and e[0] == "const":
            merged[-1] = ("const", merged[-1][1] + e[1])
        else:
            merged.append(e)
    ws = merged
    if len(ws) != len(VERSION):
        out.append(ctx.bad(spec, "version message has %d items, the protocol has %d: %s" % (len(ws), len(VERSION), fmt_shape(ws)), fn, mod, key="version:count"))
    else:
        for i, (a, b) in enumerate(zip(ws, VERSION)):
            d = diff([a], [b])
            fld = b[3] if b[0] in ("int", "bytes") else (b[1] if b[0] in ("count",) else "item%d" % (i + 1))
            if d is None:
                out.append(ctx.ok(spec, "item %d (%s) as specified" % (i + 1, fld), fn, mod, key="version:%s" % fld))
            else:
                extra = " — the protocol transmits ports in network byte order (big endian)" if "port" in str(fld) else ""
                how = "%s%s%s" % (a[0], a[1] if a[0] in ("int", "bytes") and a[1] is not None else "", a[2] if a[0] == "int" else "")
                out.append(ctx.bad(spec, "item %d: %s%s" % (i + 1, d.replace("item 1: ", ""), extra), fn, mod, key="version:%s:%s" % (fld, how)))
            # which attribute fills the slot is a separate question from how it is encoded (diff() stops at the first deviation)
            if a[0] in ("int", "bytes") and b[0] == a[0] and a[3] is not None and b[3] is not None and str(a[3]).split(".")[-1] != str(b[3]):
                out.append(ctx.bad(spec, "item %d: the slot of `%s` is filled with `%s`" % (i + 1, b[3], a[3]), fn, mod, key="version-binds:%s" % fld))
    out.append(_writer(ctx, "network:GetHeadersMessage.serialize", GETHEADERS, "getheaders"))
    out.append(_writer(ctx, "network:GetDataMessage.serialize", GETDATA, "getdata"))
    out.append(_reader(ctx, "network:HeadersMessage.parse", HEADERS_R, "headers"))
    out.append(_reader(ctx, "network:PingMessage.parse", NONCE8_R, "ping"))
    out.append(_reader(ctx, "network:PongMessage.parse", NONCE8_R, "pong"))
    for cls in ("PingMessage", "PongMessage"):
        m, f = rl.get(ctx, "network:%s.serialize" % cls)
        r = [ast.unparse(s.value) for s in ast.walk(f) if isinstance(s, ast.Return)]
        out.append(ctx.ok("network:%s.serialize" % cls, "payload is the 8-byte nonce", f, m, key=cls + "-ser") if r == ["self.nonce"] else
                   ctx.bad("network:%s.serialize" % cls, "payload is %s, not the nonce" % r, f, m, key=cls + "-ser"))
    out.append(_writer(ctx, "compactfilter:GetCFiltersMessage.serialize", GETCFILTERS, "getcfilters"))
    out.append(_writer(ctx, "compactfilter:GetCFHeadersMessage.serialize", GETCFILTERS, "getcfheaders"))
    out.append(_writer(ctx, "compactfilter:GetCFCheckPointMessage.serialize", GETCFCHECKPT, "getcfcheckpt"))
    out.append(_reader(ctx, "compactfilter:CFilterMessage.parse", CFILTER_R, "cfilter"))
    out.append(_reader(ctx, "compactfilter:CFHeadersMessage.parse", CFHEADERS_R, "cfheaders"))
    out.append(_reader(ctx, "compactfilter:CFCheckPointMessage.parse", CFCHECKPT_R, "cfcheckpt"))
    # headers message: the transaction count after each header must be zero
    mod, fn = rl.get(ctx, "network:HeadersMessage.parse")
    cfg = cfg_of(fn)
    # the comparison of the varint read inside the loop (whatever the local is called, or none at all) with zero
    z = []
    for n in cfg.tests():
        if n.loops and isinstance(n.ast, ast.Compare) and len(n.ast.ops) == 1 and isinstance(n.ast.ops[0], (ast.Eq, ast.NotEq)):
            oo = origins(fn, n.id, n.ast)
            zero = any(isinstance(x, ast.Constant) and x.value == 0 for x in (n.ast.left, n.ast.comparators[0]))
            if "call:read_varint" in oo and zero:
                z.append(n)
    reads_in_loop = [n for n, c in rl.find_calls(fn, "read_varint") if n.loops]
    if z and all(cfg.nodes[s].kind == "raise" for s, l in cfg.succ[z[0].id] if l == isinstance(z[0].ast.ops[0], ast.NotEq)):
        out.append(ctx.ok("network:HeadersMessage.parse", "a non-zero transaction count after a header raises", z[0].ast, mod, key="headers-txcount"))
    elif z:
        out.append(ctx.bad("network:HeadersMessage.parse", "`%s` does not raise for a non-zero transaction count" % ast.unparse(z[0].ast), z[0].ast, mod, key="headers-txcount"))
    elif reads_in_loop and all(isinstance(n.ast, ast.Expr) for n in reads_in_loop):
        out.append(ctx.bad("network:HeadersMessage.parse", "the transaction count after each header is read and thrown away: a non-zero count is not rejected", reads_in_loop[0].ast, mod,
                           key="headers-txcount"))
    else:
        out.append(ctx.err("network:HeadersMessage.parse", "how the transaction count after a header is checked was not recognised", fn, mod))
    return out


def c19_7(ctx):
    out = [rl.const_eq(ctx, "network", "MAGIC", MAGICS, "chainparams message start bytes")]
    for k, v in (("TX_DATA_TYPE", 1), ("BLOCK_DATA_TYPE", 2), ("FILTERED_BLOCK_DATA_TYPE", 3), ("COMPACT_BLOCK_DATA_TYPE", 4), ("WITNESS_TX_DATA_TYPE", (1 << 30) + 1), ("WITNESS_BLOCK_DATA_TYPE", (1 << 30) + 2)):
        out.append(rl.const_eq(ctx, "network", k, v, "protocol inventory type"))
    return out


def c19_8(ctx):
    """compact-size prefixes of the P2P messages are canonical: encode_varint partitions [0, 2^64) at 0xfd / 0x10000 /
    0x100000000 exactly as read_varint reads them back (same rule as C04.3, shared helper)"""
    from rules.C04 import c04_3
    return c04_3(ctx)


def c19_9(ctx):
    """constructor arguments reach the wire unchanged: an integer field of a message (start height, nonce, timestamp,
    services, version …) whose domain contains 0 must not be replaced by a default through a truthiness test
    (`x or default`, `if not x:`); `None` is the only legitimate "not given" marker"""
    out = []
    n_fields = 0
    for modname in ("network", "compactfilter"):
        mod = ctx.repo.module(modname)
        for cname, cdef in mod.classes.items():
            mro = ctx.repo.mro(modname, cname) if hasattr(ctx.repo, "mro") else [(modname, cname)]
            init = ser = None
            for mm, cc in mro:
                m2 = ctx.repo.module(mm)
                init = init or m2.functions.get(cc + ".__init__")
                ser = ser or m2.functions.get(cc + ".serialize")
            if init is None or ser is None:
                continue
            # integer fields written by serialize: int_to_little_endian(self.f, w) / int_to_big_endian / to_bytes
            ints = set()
            for c in ast.walk(ser):
                if isinstance(c, ast.Call) and call_name(c) in ("int_to_little_endian", "int_to_big_endian", "encode_varint") and c.args:
                    d = dotted(c.args[0])
                    if d and d.startswith("self."):
                        ints.add(d[5:])
                elif isinstance(c, ast.Call) and isinstance(c.func, ast.Attribute) and c.func.attr == "to_bytes" and dotted(c.func.value) and dotted(c.func.value).startswith("self."):
                    ints.add(dotted(c.func.value)[5:])
            ps = set(param_names(init)[1:])
            imod = ctx.repo.module(modname)
            for st in ast.walk(init):
                if isinstance(st, ast.Assign) and len(st.targets) == 1 and isinstance(st.targets[0], ast.Attribute) and dotted(st.targets[0].value) == "self" \
                        and st.targets[0].attr in ints:
                    n_fields += 1
                    v = st.value
                    bad = None
                    if isinstance(v, ast.BoolOp) and isinstance(v.op, ast.Or) and isinstance(v.values[0], ast.Name) and v.values[0].id in ps:
                        bad = v.values[0].id
                    elif isinstance(v, ast.IfExp):
                        t = v.test.operand if isinstance(v.test, ast.UnaryOp) and isinstance(v.test.op, ast.Not) else v.test
                        if isinstance(t, ast.Name) and t.id in ps:
                            bad = t.id
                    if bad:
                        out.append(ctx.bad("%s:%s.__init__" % (modname, cname), "the integer field `%s` is defaulted by the truthiness of `%s` (`%s`): the legitimate value 0 is "
                                           "replaced by the default and another number goes on the wire" % (st.targets[0].attr, bad, ast.unparse(v)), st, imod,
                                           key="falsy-default:%s.%s" % (cname, st.targets[0].attr)))
            # statement form: `if not x: x = default` / `if not x: self.f = default`
            for n in cfg_of(init).tests():
                t = n.ast
                if isinstance(t, ast.Name) and t.id in ps and t.id in ints:
                    out.append(ctx.bad("%s:%s.__init__" % (modname, cname), "the integer argument `%s` is tested for truthiness: 0 is treated as absent" % t.id, t, imod,
                                       key="falsy-default:%s.%s" % (cname, t.id)))
    if not n_fields:
        raise AnalysisError("no integer message field assigned in a constructor was found")
    if not out:
        out.append(ctx.ok("network+compactfilter:*.__init__", "no integer message field is defaulted through a truthiness test (%d field assignments inspected)" % n_fields,
                          key="falsy-default"))
    return out


def c19_10(ctx):
    """MUTABLE-DEFAULT: messages built with default arguments do not share one item list"""
    from sa.mutdefault import mutable_default_obligation
    return mutable_default_obligation(ctx, ["network", "compactfilter", "bloomfilter", "merkleblock"], "a second message repeats the first one's entries and its count")


def c19_11(ctx):
    """CTOR-FORWARD: a parsed message keeps the network (and every other argument) it was parsed under"""
    from sa.forward import forward_obligation
    return forward_obligation(ctx, ["network", "compactfilter", "merkleblock", "block", "bloomfilter"], "an envelope parsed from testnet bytes re-serialises with the mainnet magic")


def c19_12(ctx):
    """the integer codec primitives the message layouts are written with (shared with C04.11)"""
    from rules.C04 import helper_codec_faithful
    return helper_codec_faithful(ctx)


def c19_13(ctx):
    """MEMO: no method of the modules this property is anchored in answers from a value remembered from an earlier argument or an
    earlier state of the object (confirmed caches of the reference tree: sa/memo.py CONFIRMED_CACHES)"""
    from sa.memo import cache_obligation
    return cache_obligation(ctx, ["network", "helper", "block", "compactfilter"], "bytes serialised once would be returned after a field of the message or header changed")


def c19_14(ctx):
    """SET-ORDER: no ordered result (list, serialisation, yielded sequence) of the modules this property is anchored in takes its
    order from the iteration order of a set"""
    from sa.setorder import setorder_obligation
    return setorder_obligation(ctx, ["network", "helper", "block", "compactfilter"], "the same inputs give different output from run to run")


def c19_15(ctx):
    """SHARED necessary conditions over the modules this property is anchored in: FALSY-DEFAULT, MUTABLE-DEFAULT, IDENTITY, ALIAS,
    CTOR-FORWARD (sa/shared.py)"""
    from sa.shared import shared_obligations
    return shared_obligations(ctx, ["network", "helper", "block", "compactfilter"], "the result would depend on something other than the arguments and the object's current state")


def c19_16(ctx):
    """the 80-byte block header codec headers messages are made of: writer, reader and protocol layout agree, unsigned fields included (shared with C17.5)"""
    from rules.C17 import c17_5
    return c17_5(ctx)


def c19_17(ctx):
    return _envelope_cells(ctx)


def _c19_17(ctx):
    """the envelope codec evaluated: (a) serialize for the four networks × every command length 0..12 × payload lengths on both sides of the
    compact-size and of short-read boundaries equals magic ‖ command zero-padded to 12 ‖ length (4 LE) ‖ sha256d(payload)[:4] ‖ payload, and
    parse gives the same command and payload back; (b) every single-byte corruption (three bit patterns per byte) of a sample envelope and
    every truncation of it: a corrupted magic, length, checksum or payload byte and every truncated payload is refused; a corrupted command
    byte (the protocol has no checksum over it) parses to the corrupted command.  Hashing is the standard library's"""
    import hashlib
    from sa.cells import ClassRef, Evaluator, FileStandIn, Obj, Raised, Undecided
    spec_p, spec_s = "network:NetworkEnvelope.parse", "network:NetworkEnvelope.serialize"
    mod, fn = rl.get(ctx, spec_p)
    _, fn_s = rl.get(ctx, spec_s)
    MAGICS = {"mainnet": b"\xf9\xbe\xb4\xd9", "testnet": b"\x0b\x11\x09\x07", "signet": b"\x0a\x03\xcf\x40", "regtest": b"\xfa\xbf\xb5\xda"}
    C = ClassRef("network", "NetworkEnvelope")

    def ref(net, command, payload):
        return MAGICS[net] + command + bytes(12 - len(command)) + len(payload).to_bytes(4, "little") + hashlib.sha256(hashlib.sha256(payload).digest()).digest()[:4] + payload
    out = []
    n = 0
    try:
        bad = None
        for net in MAGICS:
            for clen in range(0, 13):
                for plen in ((0, 1, 7, 252, 253, 70000) if net == "mainnet" or clen in (0, 7, 12) else (3,)):
                    if plen == 70000 and clen != 7:
                        continue
                    n += 1
                    command = bytes(0x61 + i for i in range(clen))
                    payload = bytes((i * 7 + clen) & 255 for i in range(plen))
                    me = Obj("network", "NetworkEnvelope", {})
                    ev = Evaluator(ctx.repo, max_steps=4000000)
                    ev.call("network:NetworkEnvelope.__init__", [command, payload], kwargs={"network": net}, self_obj=me)
                    got = ev.call(spec_s, [], self_obj=me)
                    want = ref(net, command, payload)
                    if got != want:
                        i = next((i for i in range(min(len(got), len(want))) if got[i] != want[i]), min(len(got), len(want))) if isinstance(got, bytes) else 0
                        field = "magic" if i < 4 else "command" if i < 16 else "length" if i < 20 else "checksum" if i < 24 else "payload"
                        bad = ("ser", "%s envelope with a %d-byte command and a %d-byte payload: the %s field differs from the protocol layout" % (net, clen, plen, field))
                        break
                    back = ev.call(spec_p, [FileStandIn(want)], kwargs={"network": net}, self_obj=C)
                    if not isinstance(back, Obj) or back.attrs.get("command") != command or back.attrs.get("payload") != payload:
                        bad = ("parse", "%s envelope with a %d-byte command and a %d-byte payload parses to command %r, %s payload" % (
                            net, clen, plen, back.attrs.get("command") if isinstance(back, Obj) else back, "the same" if isinstance(back, Obj) and back.attrs.get("payload") == payload else "a different"))
                        break
                if bad:
                    break
            if bad:
                break
        ctx.count("cells", n)
        if bad and bad[0] == "ser":
            out.append(ctx.bad(spec_s, bad[1], fn_s, mod, key="envelope-cells:layout"))
        else:
            out.append(ctx.ok(spec_s, "%d (network, command length, payload length) cells equal magic ‖ command/12 ‖ length ‖ checksum ‖ payload" % n, fn_s, mod, key="envelope-cells:layout"))
        if bad and bad[0] == "parse":
            out.append(ctx.bad(spec_p, bad[1], fn, mod, key="envelope-cells:round-trip"))
        elif not bad:
            out.append(ctx.ok(spec_p, "every serialised cell parses back to its command and payload", fn, mod, key="envelope-cells:round-trip"))
        # corruption and truncation
        sample = ref("mainnet", b"headers", bytes(range(40, 52)))
        bad, m = None, 0
        for pos in range(len(sample)):
            for flip in (0x01, 0x80, 0xFF):
                m += 1
                data = sample[:pos] + bytes([sample[pos] ^ flip]) + sample[pos + 1:]
                field = "magic" if pos < 4 else "command" if pos < 16 else "length" if pos < 20 else "checksum" if pos < 24 else "payload"
                try:
                    r = Evaluator(ctx.repo, max_steps=4000000).call(spec_p, [FileStandIn(data)], kwargs={"network": "mainnet"}, self_obj=C)
                    accepted = True
                except Raised:
                    accepted = False
                if field == "command":
                    want_cmd = data[4:16].strip(b"\x00")
                    if not accepted or r.attrs.get("command") != want_cmd or r.attrs.get("payload") != sample[24:]:
                        bad = "an envelope whose command byte %d is changed (the command is not covered by the checksum) %s" % (pos - 4, "is refused" if not accepted else "parses to other fields than the bytes carry")
                elif accepted:
                    bad = "an envelope with byte %d (the %s field) changed by xor %#04x is accepted" % (pos, field, flip)
                if bad:
                    break
            if bad:
                break
        if not bad:
            for cut in range(1, len(sample)):
                m += 1
                try:
                    Evaluator(ctx.repo, max_steps=4000000).call(spec_p, [FileStandIn(sample[:cut])], kwargs={"network": "mainnet"}, self_obj=C)
                    bad = "an envelope cut after %d of its %d bytes (%s) is accepted" % (cut, len(sample), "inside the payload" if cut >= 24 else "inside the header")
                    break
                except Raised:
                    pass
        if not bad:
            # an envelope of one network read under another network is refused (all ordered pairs)
            for a in MAGICS:
                for b in MAGICS:
                    if a == b or bad:
                        continue
                    m += 1
                    try:
                        Evaluator(ctx.repo, max_steps=4000000).call(spec_p, [FileStandIn(ref(a, b"ping", b"\x01" * 8))], kwargs={"network": b}, self_obj=C)
                        bad = "a well-formed %s envelope is accepted when the %s network was asked for" % (a, b)
                    except Raised:
                        pass
        ctx.count("cells", m)
        out.append(ctx.bad(spec_p, bad, fn, mod, key="envelope-cells:corruption") if bad else
                   ctx.ok(spec_p, "%d corruptions / truncations of a sample envelope: magic, length, checksum and payload changes and every truncation are refused" % m, fn, mod, key="envelope-cells:corruption"))
    except Undecided as u:
        return [ctx.err(spec_p, "envelope codec not evaluable: %s" % u, fn, mod)]
    return out



def c19_18(ctx):
    """the fixed-layout messages evaluated against the protocol's byte layout (BIP157 / protocol documentation), with item counts on both sides
    of the one-byte compact-size boundary: writers (getheaders, getdata, ping, pong, getcfilters, getcfheaders, getcfcheckpt) must produce the
    reference bytes for distinct field values, readers (ping, pong, headers, cfilter, cfheaders, cfcheckpt) must return the reference fields
    from the reference bytes, including the filter-header chain of cfheaders (double-SHA256(filter hash ‖ previous header)).  Version
    messages are left to C19.5 (their port byte order is the recorded finding K2)"""
    import hashlib
    from sa.cells import ClassRef, Evaluator, FileStandIn, Obj, Raised, Undecided

    def H(i):
        return bytes((i * 13 + j) & 255 for j in range(32))

    def cs(n):
        return bytes([n]) if n < 0xFD else b"\xfd" + n.to_bytes(2, "little")

    def dsha(b):
        return hashlib.sha256(hashlib.sha256(b).digest()).digest()
    out = []

    def verdict(spec, key, bad, okmsg):
        mod, fn = rl.get(ctx, spec)
        out.append(ctx.bad(spec, bad, fn, mod, key="message-cells:" + key) if bad else ctx.ok(spec, okmsg, fn, mod, key="message-cells:" + key))

    def new(modname, cls_, args=(), kwargs=None):
        ev = Evaluator(ctx.repo, max_steps=4000000)
        o = Obj(modname, cls_, {})
        ev.call("%s:%s.__init__" % (modname, cls_), list(args), kwargs=kwargs or {}, self_obj=o)
        return ev, o
    try:
        # ---- writers
        bad = None
        for version, n in ((70015, 1), (1, 2), (0x01020304, 252), (70015, 253)):
            ctx.count("cells")
            ev, o = new("network", "GetHeadersMessage", kwargs={"version": version, "num_hashes": n, "start_block": H(1), "end_block": H(2)})
            got = ev.call("network:GetHeadersMessage.serialize", [], self_obj=o)
            if got != version.to_bytes(4, "little") + cs(n) + H(1)[::-1] + H(2)[::-1]:
                bad = "getheaders(version=%d, num_hashes=%d) is not version(4 LE) ‖ count ‖ start hash reversed ‖ stop hash reversed" % (version, n)
                break
        if not bad:
            ev, o = new("network", "GetHeadersMessage", kwargs={"start_block": H(1)})
            if ev.call("network:GetHeadersMessage.serialize", [], self_obj=o)[-32:] != bytes(32):
                bad = "getheaders without a stop hash does not end in 32 zero bytes"
        verdict("network:GetHeadersMessage.serialize", "getheaders", bad, "getheaders: 5 cells equal the protocol layout (count on both sides of 0xfd, default stop hash)")
        bad = None
        for n in (0, 1, 2, 252, 253):
            ctx.count("cells")
            ev, o = new("network", "GetDataMessage")
            want = cs(n)
            for i in range(n):
                ev.call("network:GetDataMessage.add_data", [(i % 4) + 1 + (0x40000000 if i % 5 == 0 else 0), H(i)], self_obj=o)
                want += ((i % 4) + 1 + (0x40000000 if i % 5 == 0 else 0)).to_bytes(4, "little") + H(i)[::-1]
            if ev.call("network:GetDataMessage.serialize", [], self_obj=o) != want:
                bad = "getdata with %d items is not count ‖ (type(4 LE) ‖ hash reversed)*" % n
                break
        verdict("network:GetDataMessage.serialize", "getdata", bad, "getdata: 0, 1, 2, 252, 253 items equal the protocol layout")
        for cls_ in ("PingMessage", "PongMessage"):
            ctx.count("cells")
            nonce = bytes(range(1, 9))
            r = Evaluator(ctx.repo).call("network:%s.parse" % cls_, [FileStandIn(nonce + b"zz")], self_obj=ClassRef("network", cls_))
            bad = None
            if not isinstance(r, Obj) or r.cls != cls_ or r.attrs.get("nonce") != nonce:
                bad = "%s.parse does not return a %s carrying the 8 nonce bytes" % (cls_, cls_)
            elif Evaluator(ctx.repo).call("network:%s.serialize" % cls_, [], self_obj=r) != nonce:
                bad = "%s.serialize is not the 8 nonce bytes" % cls_
            verdict("network:%s.parse" % cls_, cls_.lower(), bad, "%s: the 8-byte nonce parses and serialises unchanged" % cls_)
        bad = None
        for ft, height in ((0, 1), (1, 0x01020304), (255, 0)):
            ctx.count("cells")
            for cls_, has_height in (("GetCFiltersMessage", True), ("GetCFHeadersMessage", True), ("GetCFCheckPointMessage", False)):
                kw = {"filter_type": ft, "stop_hash": H(9)}
                if has_height:
                    kw["start_height"] = height
                ev, o = new("compactfilter", cls_, kwargs=kw)
                got = ev.call("compactfilter:%s.serialize" % cls_, [], self_obj=o)
                want = bytes([ft]) + (height.to_bytes(4, "little") if has_height else b"") + H(9)[::-1]
                if got != want and not bad:
                    bad = (cls_, "%s(filter_type=%d%s) is not type(1) ‖ %sstop hash reversed" % (cls_, ft, ", start_height=%d" % height if has_height else "", "height(4 LE) ‖ " if has_height else ""))
        for cls_ in ("GetCFiltersMessage", "GetCFHeadersMessage", "GetCFCheckPointMessage"):
            verdict("compactfilter:%s.serialize" % cls_, cls_.lower(), bad[1] if bad and bad[0] == cls_ else None, "%s: 3 cells equal the BIP157 layout" % cls_)
        # ---- readers
        bad = None
        for n in (0, 1, 3, 252, 253, 1999, 2000):   # 2000 is the protocol's maximum and the usual size during header sync
            ctx.count("cells")
            hdr = lambda i: bytes((i + j) & 255 for j in range(80))
            data = cs(n) + b"".join(hdr(i) + b"\x00" for i in range(n))
            hooks = {("Block", "parse_header"): lambda cls, s=None, *a, **k: Obj("block", "Block", {"raw": s.read(80)})}
            r = Evaluator(ctx.repo, method_hooks=hooks, max_steps=4000000).call("network:HeadersMessage.parse", [FileStandIn(data)], self_obj=ClassRef("network", "HeadersMessage"))
            if not isinstance(r, Obj) or [h.attrs.get("raw") for h in r.attrs.get("headers", [])] != [hdr(i) for i in range(n)]:
                bad = "a headers message with %d headers does not parse to those %d headers in order" % (n, n)
                break
        if not bad:
            try:
                Evaluator(ctx.repo, method_hooks=hooks).call("network:HeadersMessage.parse", [FileStandIn(cs(1) + bytes(80) + b"\x01")], self_obj=ClassRef("network", "HeadersMessage"))
                bad = "a headers message whose header is followed by a non-zero transaction count is accepted"
            except Raised:
                pass
        verdict("network:HeadersMessage.parse", "headers", bad, "headers: 0, 1, 3, 252, 253, 1999, 2000 headers parse in order; a non-zero transaction count is refused")
        bad = None
        for n in (0, 1, 2, 252, 253):
            ctx.count("cells")
            data = b"\x00" + H(7)[::-1] + H(8) + cs(n) + b"".join(H(20 + i) for i in range(n))
            r = Evaluator(ctx.repo, max_steps=8000000).call("compactfilter:CFHeadersMessage.parse", [FileStandIn(data)], self_obj=ClassRef("compactfilter", "CFHeadersMessage"))
            chain = H(8)
            for i in range(n):
                chain = dsha(H(20 + i) + chain)
            a = r.attrs if isinstance(r, Obj) else {}
            if a.get("filter_type") != 0 or a.get("stop_hash") != H(7) or a.get("previous_filter_header") != H(8) or a.get("filter_hashes") != [H(20 + i) for i in range(n)]:
                bad = "a cfheaders message with %d filter hashes does not parse to type, stop hash (reversed), previous header and the hashes in order" % n
                break
            if a.get("last_header") != chain:
                bad = "cfheaders with %d filter hashes: last_header is not the chain double-SHA256(filter hash ‖ previous header) folded over the hashes" % n
                break
        verdict("compactfilter:CFHeadersMessage.parse", "cfheaders", bad, "cfheaders: 0, 1, 2, 252, 253 hashes parse in order and chain to last_header")
        bad = None
        for n in (0, 1, 252, 253):
            ctx.count("cells")
            data = b"\x00" + H(7)[::-1] + cs(n) + b"".join(H(30 + i) for i in range(n))
            r = Evaluator(ctx.repo, max_steps=4000000).call("compactfilter:CFCheckPointMessage.parse", [FileStandIn(data)], self_obj=ClassRef("compactfilter", "CFCheckPointMessage"))
            a = r.attrs if isinstance(r, Obj) else {}
            if a.get("filter_type") != 0 or a.get("stop_hash") != H(7) or a.get("filter_headers") != [H(30 + i) for i in range(n)]:
                bad = "a cfcheckpt message with %d filter headers does not parse to type, stop hash (reversed) and the headers in order" % n
                break
        verdict("compactfilter:CFCheckPointMessage.parse", "cfcheckpt", bad, "cfcheckpt: 0, 1, 252, 253 headers parse in order")
        bad = None
        for fl in (1, 252, 253):
            ctx.count("cells")
            fbytes = bytes([0]) + bytes(fl - 1)
            data = b"\x00" + H(5)[::-1] + cs(fl) + fbytes
            hooks = {("CompactFilter", "parse"): lambda cls, key, b, *a, **k: Obj("compactfilter", "CompactFilter", {"key": key, "raw": b})}
            r = Evaluator(ctx.repo, method_hooks=hooks).call("compactfilter:CFilterMessage.parse", [FileStandIn(data)], self_obj=ClassRef("compactfilter", "CFilterMessage"))
            a = r.attrs if isinstance(r, Obj) else {}
            cf = a.get("cf")
            if a.get("filter_type") != 0 or a.get("block_hash") != H(5) or a.get("filter_bytes") != fbytes:
                bad = "a cfilter message with %d filter bytes does not parse to type, block hash (reversed) and the filter bytes" % fl
                break
            if not isinstance(cf, Obj) or cf.attrs.get("key") != H(5)[::-1][:16] or cf.attrs.get("raw") != fbytes:
                bad = "cfilter: the filter is not decoded with the first 16 bytes of the block hash in serialised order as SipHash key"
                break
            if Evaluator(ctx.repo).call("compactfilter:CFilterMessage.hash", [], self_obj=r) != dsha(fbytes):
                bad = "cfilter: hash() is not the double-SHA256 of the filter bytes"
                break
        verdict("compactfilter:CFilterMessage.parse", "cfilter", bad, "cfilter: 1, 252, 253 filter bytes parse; key = block hash LE[:16]; hash() = sha256d(filter bytes)")
    except Raised as x:
        mod, fn = rl.get(ctx, "network:NetworkEnvelope.parse")
        return out + [ctx.bad("network:NetworkEnvelope.parse", "a message codec raises %s on reference bytes / field values" % x.name, fn, mod, key="message-cells:raises")]
    except Undecided as u:
        mod, fn = rl.get(ctx, "network:NetworkEnvelope.parse")
        return out + [ctx.err("network:NetworkEnvelope.parse", "message codecs not evaluable: %s" % u, fn, mod)]
    return out



def c19_19(ctx):
    """compact-size integers and strings on every width boundary: canonical form written, inverse read (rules/bitcodecs.py varint_cells)"""
    from rules.bitcodecs import try_cells, varint_cells
    r = try_cells(varint_cells, ctx)
    if r is None:
        mod, fn = rl.get(ctx, "helper:encode_varint")
        return [ctx.err("helper:encode_varint", "compact-size codec outside the evaluator's subset", fn, mod)]
    return r



OBLIGATIONS = [
    ("C19.19", "CELLS compact size (shared)", c19_19),
    ("C19.18", "CELLS messages", c19_18),
    ("C19.17", "CELLS envelope", c19_17),
    ("C19.16", "LAYOUT vs spec (shared C17.5)", c19_16),
    ("C19.15", "SHARED", c19_15),
    ("C19.14", "SET-ORDER", c19_14),
    ("C19.13", "MEMO", c19_13),
    ("C19.12", "CODEC primitives", c19_12),
    ("C19.11", "CTOR-FORWARD", c19_11),
    ("C19.10", "MUTABLE-DEFAULT", c19_10),
    ("C19.1", "GUARD", c19_1),
    ("C19.2", "GUARD", c19_2),
    ("C19.3", "LAYOUT", c19_3),
    ("C19.4", "TABLE registry", c19_4),
    ("C19.5", "LAYOUT vs spec", c19_5),
    ("C19.7", "TABLE", c19_7),
    ("C19.8", "RANGE partition+agreement", c19_8),
    ("C19.9", "DATAFLOW", c19_9),
]
FLOORS = {"C19.1": 3, "C19.3": 5, "C19.4": 10, "C19.5": 25, "C19.7": 7}
