"""C20 — BCUR / bc32 / CBOR (structural clauses)."""
import ast

from sa import rl
from sa.cfg import cfg_of
from sa.dataflow import call_name, dotted, expand, origins
from sa.fold import Folder, Unknown
from sa.guard import BAD_FALSE, BAD_TRUE, Guard, loop_iteration_guard
from sa.interval import ISet
from sa.loader import AnalysisError, param_names
from sa.ranges import Ranges

EXPLANATION = (
    "Static analysis of buidl/bech32.py and bcur.py: the CBOR length-prefix chain tiles [0,∞) without gap, each tile fits the width it is written "
    "with, and the reader's tag dispatch reads the same widths for the same tags; bc32 encoder and decoder use the same polymod constant and prefix; "
    "a supplied digest that differs from the recomputed one raises; out-of-order index, differing checksum and differing part count raise for every "
    "part; single-part parsing requires x = y = 1 and the header shape guards; the chunk slices of the multi-part encoder are contiguous and cover the "
    "encoded string by the ceil identities. Not decided: bc32 error detection; rejection of truncated part lists relies on the bc32 checksum."
)


def c20_1(ctx):
    out = []
    spec = "bech32:cbor_encode"
    mod, fn = rl.get(ctx, spec)
    cfg = cfg_of(fn)
    var = None
    for n in cfg.stmts(("stmt",)):
        a = n.ast
        if isinstance(a, ast.Assign) and isinstance(a.value, ast.Call) and call_name(a.value) == "len":
            var = a.targets[0].id
    if var is None:
        raise AnalysisError("cbor_encode: length variable not found")
    ra = Ranges(ctx.repo, mod, fn, {var: ISet.range(0, None)})
    if ra.uninterpreted:
        raise AnalysisError("cbor_encode: %s" % ra.uninterpreted[0][1])
    f = Folder(ctx.repo, mod.name)
    tiles = []
    data_p = param_names(fn)[0]
    cands = []
    for n in cfg.stmts(("stmt", "return")):
        a = n.ast
        if isinstance(a, ast.Assign) and isinstance(a.targets[0], ast.Name) and a.targets[0].id == "prefix" and ra.reachable(n.id):
            cands.append((n, a.value))
        elif isinstance(a, ast.Return) and isinstance(a.value, ast.BinOp) and isinstance(a.value.op, ast.Add) and isinstance(a.value.right, ast.Name) \
                and a.value.right.id == data_p and not isinstance(a.value.left, ast.Name) and ra.reachable(n.id):
            cands.append((n, a.value.left))  # `return <prefix expression> + data`
    for n, v in cands:
        if True:
            s = ra.at(n.id, var)
            # forms: bytes([0x40 + length]) | bytes([0x58, length]) | <tag byte> + length.to_bytes(w, "big"), the tag byte as a literal or bytes([K])
            def tag_of(e):
                if isinstance(e, ast.Constant) and isinstance(e.value, bytes) and len(e.value) == 1:
                    return e.value[0]
                if isinstance(e, ast.Call) and call_name(e) == "bytes" and e.args and isinstance(e.args[0], ast.List) and len(e.args[0].elts) == 1:
                    k = f.fold(e.args[0].elts[0])
                    return k if isinstance(k, int) else None
                return None
            if isinstance(v, ast.Call) and call_name(v) == "bytes" and isinstance(v.args[0], ast.List):
                el = v.args[0].elts
                if len(el) == 1 and isinstance(el[0], ast.BinOp) and isinstance(el[0].op, ast.Add):
                    base = f.fold(el[0].left)
                    tiles.append((s, ("inline", base), 0, n))
                elif len(el) == 2:
                    tiles.append((s, ("tag", f.fold(el[0])), 1, n))
                else:
                    raise AnalysisError("cbor_encode: prefix form not recognised: %s" % ast.unparse(v))
            elif isinstance(v, ast.BinOp) and isinstance(v.op, ast.Add) and tag_of(v.left) is not None and isinstance(v.right, ast.Call) \
                    and call_name(v.right) in ("to_bytes", "int_to_big_endian", "int_to_little_endian"):
                if call_name(v.right) == "to_bytes":
                    w = f.fold(v.right.args[0])
                    order = f.fold(v.right.args[1])
                else:  # normal form of x.to_bytes(w, order)
                    w = f.fold(v.right.args[1])
                    order = "big" if call_name(v.right) == "int_to_big_endian" else "little"
                tiles.append((s, ("tag", tag_of(v.left)), w, n))
                if order != "big":
                    out.append(ctx.bad(spec, "length after tag 0x%02x is written %s-endian; CBOR lengths are big-endian" % (tag_of(v.left), order), v, mod, key="endian:%02x" % tag_of(v.left)))
            elif isinstance(v, ast.Call) and call_name(v) == "pack" and v.args and isinstance(f.fold(v.args[0]), str):
                # struct.pack(format, tag, length): byte order character, then one code per value
                fmt = f.fold(v.args[0])
                order = "little" if fmt[:1] in ("<", "=", "@") or fmt[:1].isalpha() else "big"
                codes = [ch for ch in fmt if ch.isalpha()]
                widths = {"B": 1, "H": 2, "I": 4, "L": 4, "Q": 8, "b": 1, "h": 2, "i": 4, "l": 4, "q": 8}
                vals = v.args[1:]
                if len(codes) != len(vals) or any(ch not in widths for ch in codes) or not codes or codes[0] != "B":
                    raise AnalysisError("cbor_encode: struct format %r not recognised" % fmt)
                if len(codes) == 1 and isinstance(vals[0], ast.BinOp) and isinstance(vals[0].op, ast.Add):
                    tiles.append((s, ("inline", f.fold(vals[0].left)), 0, n))
                elif len(codes) == 2 and isinstance(f.fold(vals[0]), int):
                    tg = f.fold(vals[0])
                    tiles.append((s, ("tag", tg), widths[codes[1]], n))
                    if codes[1].islower():
                        out.append(ctx.bad(spec, "length after tag 0x%02x is packed with the *signed* format `%s`: lengths from 2^%d on raise struct.error (CBOR lengths are unsigned)" % (
                            tg, codes[1], 8 * widths[codes[1]] - 1), v, mod, key="signed:%02x" % tg))
                    if order != "big" and widths[codes[1]] > 1:
                        out.append(ctx.bad(spec, "length after tag 0x%02x is written %s-endian; CBOR lengths are big-endian" % (tg, order), v, mod, key="endian:%02x" % tg))
                else:
                    raise AnalysisError("cbor_encode: struct format %r with these values not recognised" % fmt)
            else:
                raise AnalysisError("cbor_encode: prefix form not recognised: %s" % ast.unparse(v))
    if not tiles:
        raise AnalysisError("cbor_encode: no prefix tiles found")
    cover = ISet.empty()
    for s, tag, w, n in tiles:
        cover = cover.union(s)
        # the inline form silently produces another tag when n > 23; explicit-width forms raise on overflow (bytes([..]) / to_bytes), which is a loud failure
        # (so only lengths inside the property's domain, 0..70000, must fit the explicit width)
        cap = ISet.range(0, 23) if tag[0] == "inline" else ISet.range(0, (1 << (8 * w)) - 1).union(ISet.range(70001, None))
        if s.issubset(cap):
            out.append(ctx.ok(spec, "lengths %s use %s with a %d-byte length field" % (s, "the inline form 0x%02x+n" % tag[1] if tag[0] == "inline" else "tag 0x%02x" % tag[1], w), n.ast, mod, key="tile:%s" % (tag,)))
        else:
            wv = s.minus(cap).witness()
            out.append(ctx.bad(spec, "length %d is written with %s, which cannot hold it" % (wv, "the inline form" if tag[0] == "inline" else "a %d-byte field" % w), n.ast, mod, key="tile:%s" % (tag,)))
    gap = ISet.range(0, None).minus(cover)
    if gap.is_empty():
        out.append(ctx.ok(spec, "prefix tiles cover every length", fn, mod, key="cover"))
    else:
        out.append(ctx.bad(spec, "no prefix form for lengths %s" % gap, fn, mod, key="cover"))
    # overlaps
    total = sum(1 for _ in tiles)
    # reader
    rspec = "bech32:cbor_decode"
    rmod, rfn = rl.get(ctx, rspec)
    rcfg = cfg_of(rfn)
    bvar = None
    for n in rcfg.stmts(("stmt",)):
        a = n.ast
        if bvar is None and isinstance(a, ast.Assign) and isinstance(a.value, ast.Subscript) and ast.unparse(a.value.slice) == "0":
            bvar = a.targets[0].id
    if bvar is None:
        raise AnalysisError("cbor_decode: tag byte variable not found")
    rr = Ranges(ctx.repo, rmod, rfn, {bvar: ISet.range(0, 255)}, types={bvar: ISet.range(0, 255)})
    rtiles = {}
    for n in rcfg.stmts(("stmt",)):
        a = n.ast
        if isinstance(a, ast.Assign) and isinstance(a.targets[0], ast.Name) and a.targets[0].id == "length" and rr.reachable(n.id):
            s = rr.at(n.id, bvar)
            v = a.value
            if isinstance(v, ast.BinOp) and isinstance(v.op, ast.Sub):
                rtiles[("inline", Folder(ctx.repo, rmod.name).fold(v.right))] = (s, 0)
            elif isinstance(v, ast.Subscript):
                rtiles[("tag", s.witness())] = (s, 1)
            elif isinstance(v, ast.Call) and ("from_bytes" in ast.unparse(v.func) or call_name(v) in ("big_endian_to_int", "little_endian_to_int")):
                inner = v.args[0]
                warg = inner.args[0] if isinstance(inner, ast.Call) and inner.args else None
                table = Folder(ctx.repo, rmod.name).fold(warg.value) if isinstance(warg, ast.Subscript) and isinstance(warg.slice, ast.Name) and warg.slice.id == bvar else None
                if isinstance(table, dict):
                    # table-driven width: one tile per tag byte that reaches this statement
                    for tagv in sorted(table):
                        if isinstance(tagv, int) and s.contains(tagv):
                            rtiles[("tag", tagv)] = (ISet.point(tagv), table[tagv])
                else:
                    w = Folder(ctx.repo, rmod.name).fold(warg) if warg is not None else None
                    rtiles[("tag", s.witness())] = (s, w)
    wmap = {tag: w for s, tag, w, n in tiles}
    rmap = {tag: w for tag, (s, w) in rtiles.items()}
    if any(not isinstance(w, int) for w in list(wmap.values()) + list(rmap.values())):
        out.append(ctx.err("bech32:cbor_encode↔cbor_decode", "a length width could not be read: writer %s, reader %s" % (wmap, rmap), fn, mod))
    elif wmap == rmap:
        out.append(ctx.ok("bech32:cbor_encode↔cbor_decode", "writer and reader agree on tag → length width: %s" % {("0x%02x" % t[1]): w for t, w in sorted(wmap.items())}, fn, mod, key="agree"))
    else:
        out.append(ctx.bad("bech32:cbor_encode↔cbor_decode", "writer tag→width %s, reader %s" % (wmap, rmap), fn, mod, key="agree"))
    inl = rtiles.get(("inline", 0x40))
    if inl and inl[0] == ISet.range(0x40, 0x57):
        out.append(ctx.ok(rspec, "inline lengths are read for bytes 0x40..0x57", rfn, rmod, key="inline-range"))
    else:
        out.append(ctx.bad(rspec, "inline form is read for bytes %s, expected [0x40, 0x57]" % (inl[0] if inl else None), rfn, rmod, key="inline-range"))
    return out


def c20_2(ctx):
    out = []
    f = Folder(ctx.repo, "bech32")
    mod, fe = rl.get(ctx, "bech32:bc32encode")
    _, fd = rl.get(ctx, "bech32:bc32decode")
    ce = [f.fold(b.right) for b in ast.walk(fe) if isinstance(b, ast.BinOp) and isinstance(b.op, ast.BitXor)]
    cd = [f.fold(c.comparators[0]) for c in ast.walk(fd) if isinstance(c, ast.Compare) and isinstance(c.left, ast.Call) and call_name(c.left) == "bech32_polymod"]
    if ce == [0x3FFFFFFF] and cd == [0x3FFFFFFF]:
        out.append(ctx.ok("bech32:bc32encode↔bc32decode", "both sides use the polymod constant 0x3fffffff", fe, mod, key="const"))
    else:
        out.append(ctx.bad("bech32:bc32encode↔bc32decode", "polymod constants: encoder %s, decoder %s (bc32: 0x3fffffff)" % (ce, cd), fe, mod, key="const"))
    se, sd = ast.unparse(fe), ast.unparse(fd)
    def first_term(fn_):
        """the first summand of the list handed to bech32_polymod, locals replaced by their definition"""
        for n_, c in rl.find_calls(fn_, "bech32_polymod"):
            e = expand(fn_, n_.id, c.args[0], depth=3) if c.args else None
            while isinstance(e, ast.BinOp) and isinstance(e.op, ast.Add):
                e = e.left
            if isinstance(e, ast.Name):
                e = expand(fn_, n_.id, e, depth=3)
                while isinstance(e, ast.BinOp) and isinstance(e.op, ast.Add):
                    e = e.left
            return ast.unparse(e) if e is not None else None
        return None
    pe, pd = first_term(fe), first_term(fd)
    if pe == "[0]" and pd == "[0]":
        out.append(ctx.ok("bech32:bc32encode↔bc32decode", "both sides prefix the data with [0] (empty HRP expansion)", fe, mod, key="prefix"))
    elif pe is not None and pd is not None and pe != pd and (pe.startswith("[") or pd.startswith("[")):
        out.append(ctx.bad("bech32:bc32encode↔bc32decode", "the polymod input prefix differs between encoder (%s) and decoder (%s)" % (pe, pd), fe, mod, key="prefix"))
    else:
        out.append(ctx.err("bech32:bc32encode↔bc32decode", "polymod input prefix not recognised: encoder %s, decoder %s" % (pe, pd), fe, mod))
    if "convertbits(data, 8, 5)" in se and "convertbits(res[:-6], 5, 8, False)" in sd:
        out.append(ctx.ok("bech32:bc32encode↔bc32decode", "8→5 with padding on encode, 5→8 without padding over all but the 6 checksum symbols on decode", fe, mod, key="bits"))
    else:
        out.append(ctx.bad("bech32:bc32encode↔bc32decode", "bit regrouping is not 8→5 (pad) / 5→8 (no pad) over data[:-6]", fe, mod, key="bits"))
    # decoder failure: a wrong checksum must not produce data
    cfgd = cfg_of(fd)
    t = [n for n in cfgd.tests() if isinstance(n.ast, ast.Compare) and isinstance(n.ast.left, ast.Call) and call_name(n.ast.left) == "bech32_polymod"]
    if t:
        bad_label = isinstance(t[0].ast.ops[0], ast.NotEq)
        succ = [cfgd.nodes[s] for s, l in cfgd.succ[t[0].id] if l == bad_label]
        if succ and all(s.kind in ("raise",) or (s.kind == "return" and (s.ast.value is None or (isinstance(s.ast.value, ast.Constant) and s.ast.value.value is None))) for s in succ):
            out.append(ctx.ok("bech32:bc32decode", "a checksum mismatch yields no data (None / raise)", t[0].ast, mod, key="fail"))
        else:
            out.append(ctx.bad("bech32:bc32decode", "a checksum mismatch still yields data", t[0].ast, mod, key="fail"))
    return out


def c20_3(ctx):
    spec = "bcur:bcur_decode"
    mod, fn = rl.get(ctx, spec)

    def match(node, ex, atoms):
        t = node.ast
        if isinstance(t, ast.Compare) and len(t.ops) == 1 and isinstance(t.ops[0], (ast.Eq, ast.NotEq)):
            lo, ro = origins(fn, node.id, t.left), origins(fn, node.id, t.comparators[0])
            for a, b in ((lo, ro), (ro, lo)):
                if "call:sha256" in a and "param:checksum" in b and "call:sha256" not in b:
                    return BAD_TRUE if isinstance(t.ops[0], ast.NotEq) else BAD_FALSE
        return None

    def exempt(m, f):
        out = []
        for n in cfg_of(f).tests():
            t = n.ast
            if isinstance(t, ast.Compare) and dotted(t.left) == "checksum" and isinstance(t.comparators[0], ast.Constant) and t.comparators[0].value is None:
                out.append((n.id, isinstance(t.ops[0], ast.Is)))
            if isinstance(t, ast.Name) and t.id == "checksum":
                out.append((n.id, False))
        return out
    out = [rl.guard(ctx, spec, match, what="a supplied digest must equal sha256 of the decoded CBOR", key="digest", exempt=exempt)]
    # encoder: digest over the same bytes
    emod, efn = rl.get(ctx, "bcur:bcur_encode")
    src = ast.unparse(efn)
    if "cbor = cbor_encode(data)" in src and "hashlib.sha256(cbor).digest()" in src and "bc32encode(cbor)" in src:
        out.append(ctx.ok("bcur:bcur_encode", "payload = bc32(cbor(data)), digest = bc32(sha256(cbor(data)))", efn, emod, key="enc"))
    else:
        out.append(ctx.err("bcur:bcur_encode", "encoder idiom (bc32(cbor), bc32(sha256(cbor))) not recognised", efn, emod))
    dsrc = ast.unparse(fn)
    if "hashlib.sha256(cbor).digest()" in dsrc and "cbor = bc32decode(data)" in dsrc and "return cbor_decode(cbor)" in dsrc:
        out.append(ctx.ok(spec, "decoder hashes the same CBOR bytes and unwraps them", fn, mod, key="dec"))
    else:
        out.append(ctx.bad(spec, "decoder does not hash / unwrap the bc32-decoded CBOR bytes", fn, mod, key="dec"))
    return out


def _multi_parse_cells(ctx):
    """BCURMulti.parse evaluated on EVERY ordered selection (every permutation of every non-empty subset, plus selections with a repeated part)
    of the parts of 1-, 2-, 3- and 4-part encodings, and on honest lists in which one part is taken from another payload (other checksum), or
    claims another part count, with the part parser, the bc32 / CBOR / digest layer and the constructor as stand-ins: the list is accepted
    exactly when it is part 1 … part n in order, all of one payload, and then yields the concatenation of their payloads checked against the
    shared digest.  None when outside the evaluator's subset"""
    import itertools
    from sa.cells import ClassRef, Evaluator, Obj, Raised, Undecided
    spec = "bcur:BCURMulti.parse"
    mod, fn = rl.get(ctx, spec)
    decoded = []

    def helper(bcur_string=None, *a, **k):
        s_ = bcur_string if bcur_string is not None else (a[0] if a else None)
        if not isinstance(s_, tuple) or len(s_) != 4:
            raise Raised("BCURStringFormatError")
        return s_   # (payload, checksum, x, y)

    def decode(data=None, checksum=None, *a, **k):
        decoded.append((data, checksum))
        want = "".join("p%d," % i for i in range(1, int(checksum[1:]) + 1)) if isinstance(checksum, str) and checksum[:1] == "c" else None
        if data != want:
            raise Raised("ValueError")
        return b"DATA" + checksum.encode()
    hooks = {("BCURMulti", "__init__"): lambda o, text_b64=None, encoded=None, checksum=None, *a, **k: o.attrs.update({"text_b64": text_b64, "checksum": checksum})}
    import binascii
    ext = {"_parse_bcur_helper": helper, "bcur_decode": decode, "b2a_base64": binascii.b2a_base64}
    C = ClassRef("bcur", "BCURMulti")
    n_cells = 0
    try:
        for n in (1, 2, 3, 4):
            honest = [("p%d," % i, "c%d" % n, i, n) for i in range(1, n + 1)]
            lists = []
            for k in range(1, n + 1):
                for perm in itertools.permutations(range(n), k):
                    lists.append(([honest[i] for i in perm], list(perm) == list(range(n)), "parts %s of %d" % ([i + 1 for i in perm], n)))
            for i in range(n):
                lists.append((honest[:i + 1] + [honest[i]] + honest[i + 1:], False, "part %d of %d given twice" % (i + 1, n)))
                for wrong_x in (0, i + 2, n + 1):
                    if wrong_x != i + 1:
                        bad_x = list(honest)
                        bad_x[i] = (honest[i][0], honest[i][1], wrong_x, n)
                        lists.append((bad_x, False, "part %d of %d whose index digit is corrupted to %d" % (i + 1, n, wrong_x)))
                if n > 1:
                    foreign = list(honest)
                    foreign[i] = (honest[i][0], "c9", honest[i][2], n)
                    lists.append((foreign, False, "part %d of %d taken from another payload (other checksum)" % (i + 1, n)))
                    other_y = list(honest)
                    other_y[i] = (honest[i][0], honest[i][1], honest[i][2], n + 1)
                    lists.append((other_y, False, "part %d of %d claiming %d parts" % (i + 1, n, n + 1)))
            for parts, ok, label in lists:
                n_cells += 1
                del decoded[:]
                try:
                    r = Evaluator(ctx.repo, method_hooks=hooks, externals=ext).call(spec, [list(parts)], self_obj=C)
                    accepted = True
                except Raised:
                    accepted = False
                if accepted != ok:
                    if ok:
                        return [ctx.bad(spec, "the honest list %s is refused" % label, fn, mod, key="multi-cells")]
                    return [ctx.bad(spec, "%s: accepted (a payload is returned) although the list is not part 1 … part n of one payload in order" % label, fn, mod, key="multi-cells")]
                if ok:
                    want_data = "".join(p_[0] for p_ in honest)
                    if decoded[-1:] != [(want_data, "c%d" % n)] or not isinstance(r, Obj) or r.attrs.get("checksum") != "c%d" % n or r.attrs.get("text_b64") != binascii.b2a_base64(b"DATAc%d" % n).strip().decode():
                        return [ctx.bad(spec, "%s: the object returned is not built from the concatenated payloads decoded against the shared digest" % label, fn, mod, key="multi-cells")]
    except Undecided:
        return None
    ctx.count("cells", n_cells)
    return [ctx.ok(spec, "%d part lists (every permutation of every subset of 1..4 parts, repeated, foreign, miscounted and mis-indexed parts): accepted exactly for part 1 … part n in order" % n_cells,
                   fn, mod, key="multi-cells")]


def c20_4(ctx):
    ev = _multi_parse_cells(ctx)
    if ev is not None:
        return ev
    spec = "bcur:BCURMulti.parse"
    mod, fn = rl.get(ctx, spec)
    cfg = cfg_of(fn)
    loops = [lp for lp in cfg.loops.values() if isinstance(lp.stmt, ast.For) and "to_parse" in ast.unparse(lp.stmt.iter)]
    if not loops:
        raise AnalysisError("BCURMulti.parse: loop over the parts not found")
    lp = loops[0]
    out = []
    app = [n for n in cfg.stmts(("stmt",)) if lp.head in n.loops and "payloads.append" in ast.unparse(n.ast)]
    if not app:
        raise AnalysisError("BCURMulti.parse: payload collection not found")

    # the 1-based position of the current part: `cnt + 1` for enumerate(parts), `cnt` for enumerate(parts, start=1)
    pos_texts, first_tests = set(), set()
    it = lp.stmt.iter
    if isinstance(it, ast.Call) and call_name(it) == "enumerate" and isinstance(lp.stmt.target, ast.Tuple) and isinstance(lp.stmt.target.elts[0], ast.Name):
        idx = lp.stmt.target.elts[0].id
        start = 0
        if len(it.args) > 1:
            start = Folder(ctx.repo, mod.name).fold(it.args[1])
        for k in it.keywords:
            if k.arg == "start":
                start = Folder(ctx.repo, mod.name).fold(k.value)
        if start == 0:
            pos_texts = {"%s + 1" % idx, "1 + %s" % idx}
        elif start == 1:
            pos_texts = {idx}
        first_tests = {"%s == %s" % (idx, start)}
    if not pos_texts:
        raise AnalysisError("BCURMulti.parse: position of a part in the list not recognised (%s)" % ast.unparse(it))

    def per_iter(pred, what, key, exempt_first=False):
        gs = []
        for n in cfg.tests():
            if lp.head in n.loops:
                v = pred(n.ast)
                if v:
                    gs.append(Guard(n, v))
        removed = {(g.node.id, g.pass_label) for g in gs}
        if exempt_first:
            for n in cfg.tests():
                if lp.head in n.loops and ast.unparse(n.ast) in first_tests:
                    removed.add((n.id, True))
        starts = []
        for a, label in lp.body_entry:
            starts += [b for b, l in cfg.succ[a] if l == label]
        r = cfg.reach(starts, removed=removed, within=set(lp.body) | {lp.head})
        if app[0].id in r:
            out.append(ctx.bad(spec, "a part can be appended although %s" % what, app[0].ast, mod, key=key))
        elif not gs:
            out.append(ctx.bad(spec, "no check: %s" % what, lp.stmt, mod, key=key))
        else:
            out.append(ctx.ok(spec, "every part: %s raises" % what, gs[0].node.ast, mod, key=key))

    def p_order(t):
        if isinstance(t, ast.Compare) and isinstance(t.ops[0], (ast.NotEq, ast.Eq)) and (({ast.unparse(t.left), ast.unparse(t.comparators[0])} - pos_texts) == {"entry_x"} and ({ast.unparse(t.left), ast.unparse(t.comparators[0])} & pos_texts)):
            return BAD_TRUE if isinstance(t.ops[0], ast.NotEq) else BAD_FALSE
        return None

    def p_cs(t):
        if isinstance(t, ast.Compare) and isinstance(t.ops[0], (ast.NotEq, ast.Eq)) and {ast.unparse(t.left), ast.unparse(t.comparators[0])} == {"entry_checksum", "global_checksum"}:
            return BAD_TRUE if isinstance(t.ops[0], ast.NotEq) else BAD_FALSE
        return None

    def p_y(t):
        if isinstance(t, ast.Compare) and isinstance(t.ops[0], (ast.NotEq, ast.Eq)) and {ast.unparse(t.left), ast.unparse(t.comparators[0])} == {"entry_y", "global_y"}:
            return BAD_TRUE if isinstance(t.ops[0], ast.NotEq) else BAD_FALSE
        return None
    per_iter(p_order, "its index differs from its position", "order")
    per_iter(p_cs, "its checksum differs from the first part's", "same-checksum", exempt_first=True)
    per_iter(p_y, "its part count differs from the first part's", "same-y", exempt_first=True)
    # final decode with the global checksum
    src = ast.unparse(fn)
    if "bcur_decode(data=''.join(payloads), checksum=global_checksum)" in src:
        out.append(ctx.ok(spec, "the joined payload is decoded against the shared digest", fn, mod, key="final-digest"))
    else:
        # the same call written through temporaries / an inlined helper: read the two arguments through their definitions
        verdict = None
        for n_, c_ in rl.find_calls(fn, "bcur_decode"):
            args_ = {k.arg: k.value for k in c_.keywords}
            for i_, nm_ in enumerate(("data", "checksum")):
                if i_ < len(c_.args):
                    args_.setdefault(nm_, c_.args[i_])
            if "data" in args_ and "checksum" in args_:
                d_ = ast.unparse(expand(fn, n_.id, args_["data"], depth=4, stop={"payloads", "global_checksum", "entry_checksum"}))
                k_ = ast.unparse(expand(fn, n_.id, args_["checksum"], depth=4, stop={"payloads", "global_checksum", "entry_checksum"}))
                if d_ == "''.join(payloads)" and k_ == "global_checksum":
                    verdict = True
                elif d_ == "''.join(payloads)" and k_ in ("None", "entry_checksum"):
                    verdict = "the joined payload is decoded with checksum `%s`, not the digest shared by all parts" % k_
        if verdict is True:
            out.append(ctx.ok(spec, "the joined payload is decoded against the shared digest", fn, mod, key="final-digest"))
        elif verdict:
            out.append(ctx.bad(spec, verdict, fn, mod, key="final-digest"))
        else:
            out.append(ctx.err(spec, "final decode of the joined payload against the shared digest not recognised", fn, mod))
    return out


def c20_5(ctx):
    out = []
    spec = "bcur:BCURSingle.parse"
    mod, fn = rl.get(ctx, spec)
    out += rl.accept_set(ctx, spec, ["x", "y"], ISet.point(1), targets="returns", prefer=(2, 0))
    hspec = "bcur:_parse_bcur_helper"
    hmod, hfn = rl.get(ctx, hspec)
    out += rl.accept_set(ctx, hspec, ["len(bcur_parts)"], ISet.range(2, 4), targets="returns", init={"len(bcur_parts)": ISet.range(0, None)}, prefer=(5, 1), what="number of /-separated sections")

    def m_prefix(node, ex, atoms):
        t = node.ast
        if isinstance(t, ast.Call) and call_name(t) == "startswith" and t.args and isinstance(t.args[0], ast.Constant) and t.args[0].value == "ur:bytes/":
            return BAD_FALSE
        return None

    def m_payload(node, ex, atoms):
        t = node.ast
        if isinstance(t, ast.Call) and call_name(t) == "uses_only_bech32_chars" and t.args and ast.unparse(t.args[0]) == "payload":
            return BAD_FALSE
        return None
    out.append(rl.guard(ctx, hspec, m_prefix, what="string must start with ur:bytes/", key="prefix"))
    out.append(rl.guard(ctx, hspec, m_payload, what="payload must use the bech32 alphabet only", key="charset"))
    # x <= y
    cfg = cfg_of(hfn)
    t = [n for n in cfg.tests() if isinstance(n.ast, ast.Compare) and ast.unparse(n.ast) in ("x_int > y_int", "y_int < x_int")]
    if t and all(cfg.nodes[s].kind == "raise" for s, l in cfg.succ[t[0].id] if l is True):
        out.append(ctx.ok(hspec, "x greater than y raises", t[0].ast, hmod, key="x<=y"))
    else:
        out.append(ctx.bad(hspec, "x greater than y is accepted", hfn, hmod, key="x<=y"))
    # checksum length 58 when present
    t = [n for n in cfg.tests() if isinstance(n.ast, ast.Compare) and ast.unparse(n.ast.left) == "len(checksum)"]
    f = Folder(ctx.repo, hmod.name)
    if t and f.fold(t[0].ast.comparators[0]) == 58:
        out.append(ctx.ok(hspec, "a digest section must have 58 characters (bc32 of 32 bytes + 6 checksum symbols)", t[0].ast, hmod, key="cs-len"))
    else:
        out.append(ctx.bad(hspec, "digest section length is not fixed to 58", hfn, hmod, key="cs-len"))
    return out


def c20_6(ctx):
    # decided by evaluating the function (c20_13); the reading of the statements below is the fallback when it cannot be evaluated
    ev = c20_13(ctx)
    if not any(r.status == "error" for r in ev):
        return ev
    spec = "bcur:BCURMulti.encode"
    mod, fn = rl.get(ctx, spec)
    src = ast.unparse(fn)
    out = []
    checks = [
        ("number_of_chunks = ceil(len(self.encoded) / max_size_per_chunk)", "n = ⌈L / max⌉"),
        ("chunk_length = ceil(len(self.encoded) / number_of_chunks)", "c = ⌈L / n⌉"),
        ("start_idx = cnt * chunk_length", "slice start = i·c"),
        ("finish_idx = (cnt + 1) * chunk_length", "slice end = (i+1)·c"),
        ("range(number_of_chunks)", "i ranges over n chunks"),
        ("self.encoded[start_idx:finish_idx]", "chunk = encoded[i·c : (i+1)·c]"),
    ]
    missing = [w for s, w in checks if s not in src]
    if not missing:
        out.append(ctx.ok(spec, "chunks are encoded[i·c:(i+1)·c] for i < n with c = ⌈L/n⌉: contiguous, and n·c ≥ L > (n-1)·c so they cover [0, L) with a non-empty last chunk", fn, mod, key="tiling"))
    else:
        out.append(ctx.err(spec, "chunking idiom not recognised: missing %s" % missing, fn, mod))
    # header `ur:bytes/<x>of<n>/<digest>/<chunk>` with x the 1-based position of the chunk
    fs = [j for j in ast.walk(fn) if isinstance(j, ast.JoinedStr) and j.values and isinstance(j.values[0], ast.Constant) and str(j.values[0].value).startswith("ur:bytes/")]
    if not fs:
        out.append(ctx.err(spec, "the part header f-string `ur:bytes/…` was not found", fn, mod))
        return out
    j = fs[0]
    consts = [v.value for v in j.values if isinstance(v, ast.Constant)]
    vals = [v.value for v in j.values if isinstance(v, ast.FormattedValue)]
    # where does the position variable start?
    starts = {}
    for lp_ in ast.walk(fn):
        if isinstance(lp_, (ast.For, ast.comprehension)):
            it, tg = lp_.iter, lp_.target
            if isinstance(it, ast.Call) and call_name(it) == "range" and isinstance(tg, ast.Name):
                starts[tg.id] = 0 if len(it.args) == 1 else Folder(ctx.repo, mod.name).fold(it.args[0])
            elif isinstance(it, ast.Call) and call_name(it) == "enumerate" and isinstance(tg, ast.Tuple) and isinstance(tg.elts[0], ast.Name):
                st_ = 0
                if len(it.args) > 1:
                    st_ = Folder(ctx.repo, mod.name).fold(it.args[1])
                for k in it.keywords:
                    if k.arg == "start":
                        st_ = Folder(ctx.repo, mod.name).fold(k.value)
                starts[tg.elts[0].id] = st_
    verdict = None
    if consts[:3] == ["ur:bytes/", "of", "/"] and len(vals) >= 3:
        x = vals[0]
        base = None
        if isinstance(x, ast.Name) and x.id in starts:
            base = starts[x.id]
        elif isinstance(x, ast.BinOp) and isinstance(x.op, ast.Add):
            nm = x.left if isinstance(x.left, ast.Name) else (x.right if isinstance(x.right, ast.Name) else None)
            c = x.right if nm is x.left else x.left
            if nm is not None and nm.id in starts and isinstance(starts[nm.id], int) and isinstance(Folder(ctx.repo, mod.name).fold(c), int):
                base = starts[nm.id] + Folder(ctx.repo, mod.name).fold(c)
        if base == 1 and ast.unparse(vals[2]) == "self.enc_hash":
            verdict = True
        elif isinstance(base, int) and base != 1:
            verdict = "the position written into the header starts at %d (`%s`); parts are numbered 1ofN … NofN" % (base, ast.unparse(x))
        elif base == 1:
            verdict = "the third field is `%s`, not the shared digest self.enc_hash" % ast.unparse(vals[2])
    if verdict is True:
        out.append(ctx.ok(spec, "each part carries (i+1)ofn and the shared digest", j, mod, key="header"))
    elif verdict:
        out.append(ctx.bad(spec, "part header: %s" % verdict, j, mod, key="header"))
    else:
        out.append(ctx.err(spec, "part header `%s` not recognised" % ast.unparse(j)[:100], j, mod))
    return out


_BYTE_REWRITES = ("strip", "lstrip", "rstrip", "replace", "lower", "upper", "translate", "removeprefix", "removesuffix", "split", "expandtabs")


def c20_8(ctx):
    """MEMO: rendered parts / decoded payloads are not remembered under a key that leaves out the payload they were made from"""
    from sa.memo import cache_obligation
    return cache_obligation(ctx, ["bcur", "bech32"], "a second payload encoded with the same chunk size returns the first payload's parts")


def c20_9(ctx):
    """the x-of-y reader accepts every header the writer can emit: the writer prints the part count as a plain integer (unbounded --
    600 bytes at 5 characters per part are 108 parts), so a regular expression on the reader side must not cap the number of
    digits (regex syntax tree: the repeat of each digit group must be unbounded)"""
    spec = "bcur:_parse_bcur_helper"
    mod, fn = rl.get(ctx, spec)
    f = Folder(ctx.repo, mod.name)
    pats = []
    for c in ast.walk(fn):
        if isinstance(c, ast.Call) and call_name(c) in ("match", "fullmatch", "search") and isinstance(c.func, ast.Attribute):
            recv = c.func.value
            if dotted(recv) == "re" and c.args:
                p_ = f.fold(c.args[0])
                if isinstance(p_, str):
                    pats.append((c, p_))
            elif isinstance(recv, ast.Name):
                # a module-level compiled pattern
                v = mod.constants.get(recv.id)
                if isinstance(v, ast.Call) and call_name(v) == "compile" and v.args:
                    p_ = f.fold(v.args[0])
                    if isinstance(p_, str):
                        pats.append((c, p_))
    if not pats:
        return [ctx.ok(spec, "the x-of-y header is split and converted with int(): no bound on the number of digits", fn, mod, key="xofy-digits")]
    import re._parser as sre
    out = []
    for c, p_ in pats:
        if "of" not in p_:
            continue
        tree = sre.parse(p_)
        capped = []

        def walk(items):
            for op, av in items:
                opn = str(op)
                if opn in ("MAX_REPEAT", "MIN_REPEAT", "POSSESSIVE_REPEAT"):
                    lo, hi, sub = av
                    digits = any(str(o) == "IN" and any(str(o2) in ("RANGE", "CATEGORY") for o2, _ in a2) for o, a2 in sub)
                    if digits and str(hi) != "MAXREPEAT" and isinstance(hi, int) and hi < 10:
                        capped.append(hi)
                    walk(sub)
                elif opn == "SUBPATTERN":
                    walk(av[3])
                elif opn == "BRANCH":
                    for b in av[1]:
                        walk(b)
        walk(tree)
        if capped:
            out.append(ctx.bad(spec, "the x-of-y pattern %r allows at most %d digit(s) per number: a payload split into %d or more parts (the writer prints any count) "
                                     "cannot be read back" % (p_, max(capped), 10 ** max(capped)), c, mod, key="xofy-digits"))
        else:
            out.append(ctx.ok(spec, "the x-of-y pattern %r does not cap the number of digits" % p_, c, mod, key="xofy-digits"))
    return out or [ctx.ok(spec, "no x-of-y pattern with a digit cap", fn, mod, key="xofy-digits")]


def c20_10(ctx):
    """BCURMulti.parse judges every part: each element of the list is either appended in order or the parse fails.  A part that is
    *skipped* because its text equals the previous part's (a "repeated frame" shortcut) drops legitimate parts -- equal neighbouring
    chunks occur for runs of equal bytes -- and the payload does not reassemble"""
    spec = "bcur:BCURMulti.parse"
    mod, fn = rl.get(ctx, spec)
    cfg = cfg_of(fn)
    loops = [lp for lp in cfg.loops.values() if isinstance(lp.stmt, ast.For) and "to_parse" in ast.unparse(expand(fn, lp.head, lp.stmt.iter, depth=2))]
    if not loops:
        loops = [lp for lp in cfg.loops.values() if isinstance(lp.stmt, ast.For)]
    if not loops:
        raise AnalysisError("BCURMulti.parse: loop over the parts not found")
    lp = loops[0]
    conts = [x for x in ast.walk(lp.stmt) if isinstance(x, ast.Continue)]
    if not conts:
        return [ctx.ok(spec, "no part is skipped: the loop over the parts has no `continue`", lp.stmt, mod, key="no-skip")]
    # the test guarding the continue
    for t in cfg.tests():
        if lp.head in t.loops and any(cfg.nodes[b].ast is not None and isinstance(cfg.nodes[b].ast, ast.Continue) or cfg.nodes[b].kind == "continue" for b, _ in cfg.succ[t.id]):
            txt = ast.unparse(t.ast)
            if "payload" in txt:
                return [ctx.bad(spec, "`%s` skips a part whose text equals the previous part's: two neighbouring parts of a payload with a run of equal bytes are identical "
                                      "text, the second is dropped and the remaining parts are \"not in order\"" % txt, t.ast, mod, key="no-skip")]
            return [ctx.err(spec, "a part can be skipped under `%s`; cannot tell whether a legitimate part is lost" % txt, t.ast, mod)]
    return [ctx.err(spec, "the loop over the parts contains `continue`", conts[0], mod)]


def c20_7(ctx):
    """BCURSingle.parse / BCURMulti.parse: the bytes recovered by bcur_decode are re-encoded as they are -- any byte-level
    rewrite (strip, replace, ...) between bcur_decode and b2a_base64 changes payloads that contain the affected bytes"""
    out = []
    for spec in ("bcur:BCURSingle.parse", "bcur:BCURMulti.parse"):
        mod, fn = rl.get(ctx, spec)
        sites = rl.find_calls(fn, "b2a_base64")
        if not sites:
            out.append(ctx.err(spec, "b2a_base64 call not found", fn, mod))
            continue
        for n, c in sites:
            if not c.args:
                continue
            ex = expand(fn, n.id, c.args[0], depth=4)
            if isinstance(ex, ast.Call) and call_name(ex) == "bcur_decode":
                out.append(ctx.ok(spec, "the decoded payload is handed to b2a_base64 unchanged", c, mod, key="payload-verbatim"))
                continue
            rew = [x for x in ast.walk(ex) if isinstance(x, ast.Call) and isinstance(x.func, ast.Attribute) and x.func.attr in _BYTE_REWRITES
                   and any(isinstance(y, ast.Call) and call_name(y) == "bcur_decode" for y in ast.walk(x.func.value))]
            if rew:
                out.append(ctx.bad(spec, "the decoded payload is rewritten with .%s() before it is base64-encoded (`%s`): a payload that begins or ends with (or contains) the "
                                         "affected bytes does not come back as it was encoded" % (rew[0].func.attr, ast.unparse(c)[:90]), c, mod, key="payload-verbatim"))
            elif "call:bcur_decode" in origins(fn, n.id, c.args[0]):
                out.append(ctx.err(spec, "what is done to the decoded payload before b2a_base64 is not recognised: `%s`" % ast.unparse(ex)[:90], c, mod))
            else:
                out.append(ctx.bad(spec, "b2a_base64 is not applied to the output of bcur_decode (`%s`)" % ast.unparse(ex)[:90], c, mod, key="payload-verbatim"))
    return out


def c20_11(ctx):
    """SET-ORDER: no ordered result (list, serialisation, yielded sequence) of the modules this property is anchored in takes its
    order from the iteration order of a set"""
    from sa.setorder import setorder_obligation
    return setorder_obligation(ctx, ["bcur", "bech32"], "the same inputs give different output from run to run")


def c20_12(ctx):
    """SHARED necessary conditions over the modules this property is anchored in: FALSY-DEFAULT, MUTABLE-DEFAULT, IDENTITY, ALIAS,
    CTOR-FORWARD (sa/shared.py)"""
    from sa.shared import shared_obligations
    return shared_obligations(ctx, ["bcur", "bech32"], "the result would depend on something other than the arguments and the object's current state")


def c20_13(ctx):
    """the parts of a multi-part UR carry the whole encoding: BCURMulti.encode looks at the encoded text only through its length and through
    slices, so it is evaluated for every text length 1..100 and every chunk size 1..20 (bounded; 2000 cells): the pieces of the parts, in
    order, must concatenate to the encoding, each part must be labelled `<i>of<n>` with i = 1..n and n the number of parts, and no piece may
    be empty or longer than the chunk size"""
    import math
    import string
    from sa.cells import Evaluator, Obj, Raised, Undecided
    spec = "bcur:BCURMulti.encode"
    mod, fn = rl.get(ctx, spec)
    alphabet = string.ascii_lowercase + string.digits
    cells = 0
    for L in range(1, 101):
        text = "".join(alphabet[i % len(alphabet)] for i in range(L))
        for M in range(1, 21):
            cells += 1
            me = Obj("bcur", "BCURMulti", {"encoded": text, "enc_hash": "hh", "checksum": "hh", "text_b64": ""})
            try:
                r = Evaluator(ctx.repo, externals={"ceil": math.ceil}, max_steps=400000).call(spec, [], kwargs={"max_size_per_chunk": M, "animate": True}, self_obj=me)
            except Raised as x:
                return [ctx.bad(spec, "encoding of length %d with chunk size %d raises %s" % (L, M, x.name), fn, mod, key="parts-cover")]
            except Undecided as u:
                return [ctx.err(spec, "encode not evaluable (length %d, chunk size %d): %s" % (L, M, u), fn, mod)]
            if not isinstance(r, list) or not all(isinstance(x, str) and x.count("/") == 3 for x in r):
                return [ctx.err(spec, "encode returned %r" % (r,), fn, mod)]
            pieces = [x.split("/")[3] for x in r]
            labels = [x.split("/")[1] for x in r]
            if any(x.split("/")[0] != "ur:bytes" or x.split("/")[2] != "hh" for x in r):
                return [ctx.bad(spec, "a part is not `ur:bytes/<i>of<n>/<digest of the whole payload>/<piece>` (got `%s`)" % r[0][:40], fn, mod, key="header")]
            where = "an encoding of %d characters with chunk size %d" % (L, M)
            if "".join(pieces) != text:
                lost = len(text) - len("".join(pieces))
                return [ctx.bad(spec, "%s is split into %d parts whose pieces do not concatenate to the encoding (%s): the payload cannot be reassembled" % (
                    where, len(r), "%d character(s) missing" % lost if lost > 0 else "wrong order or overlap"), fn, mod, key="parts-cover")]
            if labels != ["%dof%d" % (i + 1, len(r)) for i in range(len(r))]:
                return [ctx.bad(spec, "%s: parts are labelled %s, expected 1of%d .. %dof%d" % (where, labels[:4], len(r), len(r), len(r)), fn, mod, key="parts-cover")]
            if any(len(p_) == 0 or len(p_) > M for p_ in pieces):
                return [ctx.bad(spec, "%s: piece lengths %s (a piece is empty or longer than the chunk size)" % (where, [len(p_) for p_ in pieces][:8]), fn, mod, key="parts-cover")]
    ctx.count("cells", cells)
    return [ctx.ok(spec, "the pieces concatenate to the encoding, labels are 1..n of n, 1 <= piece length <= chunk size (all %d cells: text length 1..100 x chunk size 1..20)" % cells,
                   fn, mod, key="parts-cover")]


_BC32_ALPHABET = "qpzry9x8gf2tvdw0s3jn54khce6mua7l"
_BC32_GEN = (0x3B6A57B2, 0x26508E6D, 0x1EA119FA, 0x3D4233DD, 0x2A1462B3)


def _bc32_ref(data):
    """bc32 (BCR-2020-004): bech32 without a human-readable part, checksum constant 0x3fffffff -- the reference the library is compared with"""
    acc, bits, dd = 0, 0, []
    for b in data:
        acc = (acc << 8) | b
        bits += 8
        while bits >= 5:
            bits -= 5
            dd.append((acc >> bits) & 31)
    if bits:
        dd.append((acc << (5 - bits)) & 31)
    chk = 1
    for v in [0] + dd + [0] * 6:
        top = chk >> 25
        chk = (chk & 0x1FFFFFF) << 5 ^ v
        for i in range(5):
            chk ^= _BC32_GEN[i] if (top >> i) & 1 else 0
    chk ^= 0x3FFFFFFF
    return "".join(_BC32_ALPHABET[d] for d in dd + [(chk >> 5 * (5 - i)) & 31 for i in range(6)])


def c20_16(ctx):
    """bc32 decoding inverts encoding whatever the *spelling class* of the text: the decoder looks at the case of the text only through
    lower() / upper() comparisons, so the cells are {all lower case, all upper case, mixed, no letters at all}.  A valid string without a single
    letter exists (`27968439044904` encodes 578ba3d625, found by search and re-checked here against the reference encoder); lower and upper
    spellings must decode, mixed spellings must not.  Payload lengths 0..40 are decoded as well (bounded)."""
    from sa.cells import Evaluator, Raised, Undecided
    spec_d, spec_e = "bech32:bc32decode", "bech32:bc32encode"
    mod, fn = rl.get(ctx, spec_d)
    mod2, fn2 = rl.get(ctx, spec_e)
    if _bc32_ref(bytes.fromhex("578ba3d625")) != "27968439044904":
        return [ctx.err(spec_d, "reference encoder disagrees with the recorded digit-only vector", fn, mod)]
    out = []
    try:
        cases = []
        for L in range(0, 41):
            data = bytes((37 * i + 11) & 0xFF for i in range(L))
            cases.append((data, _bc32_ref(data), "lower case"))
        cases.append((bytes.fromhex("578ba3d625"), "27968439044904", "no letters at all"))
        t = _bc32_ref(bytes(range(7)))
        cases.append((bytes(range(7)), t.upper(), "all upper case"))
        mixed = "".join(c.upper() if i % 2 and c.isalpha() else c for i, c in enumerate(t))
        for data, text, label in cases:
            ctx.count("cells")
            try:
                enc = Evaluator(ctx.repo).call(spec_e, [data]) if label == "lower case" else None
            except Raised as x:
                enc = "raises %s" % x.name
            if label == "lower case" and enc != text:
                out.append(ctx.bad(spec_e, "bc32encode of %d bytes is %r, the reference gives %r" % (len(data), enc, text), fn2, mod2, key="bc32-enc"))
                break
            try:
                dec = Evaluator(ctx.repo).call(spec_d, [text])
            except Raised as x:
                dec = "raises %s" % x.name
            if dec != data:
                out.append(ctx.bad(spec_d, "a valid bc32 string with %s (%r, %d payload bytes) decodes to %r instead of its payload" % (label, text[:24], len(data), dec if not isinstance(dec, bytes) else dec.hex()),
                                   fn, mod, key="bc32-case"))
                break
        else:
            if mixed != t and mixed != t.upper():
                ctx.count("cells")
                try:
                    dec = Evaluator(ctx.repo).call(spec_d, [mixed])
                except Raised:
                    dec = None
                if dec is not None:
                    out.append(ctx.bad(spec_d, "the mixed-case spelling %r is decoded; bc32 / bech32 refuse mixed case" % mixed[:24], fn, mod, key="bc32-case"))
    except Undecided as u:
        return [ctx.err(spec_d, "bc32 codec not evaluable: %s" % u, fn, mod)]
    if not out:
        out.append(ctx.ok(spec_d, "decodes lower-case, upper-case and letter-free spellings of valid strings, refuses mixed case; inverts the encoder on payloads of 0..40 bytes", fn, mod,
                          key="bc32-case"))
    return out


def c20_14(ctx):
    """CBOR byte-string framing: cbor_decode(cbor_encode(x)) = x and the prefix is the shortest form, for payload lengths on both sides of every
    boundary (0, 1, 23, 24, 25, 254, 255, 256, 257, 65534, 65535, 65536, 70000) -- writer and reader evaluated together"""
    from sa.cells import Evaluator, FileStandIn, Raised, Undecided
    spec_e, spec_d = "bech32:cbor_encode", "bech32:cbor_decode"
    mod, fn = rl.get(ctx, spec_e)
    mod2, fn2 = rl.get(ctx, spec_d)

    def prefix(n):
        if n <= 23:
            return bytes([0x40 + n])
        if n <= 255:
            return bytes([0x58, n])
        if n <= 65535:
            return b"\x59" + n.to_bytes(2, "big")
        return b"\x60" + n.to_bytes(4, "big")   # the library's (non-standard) 4-byte tag, fixed by its own reader
    try:
        for n in (0, 1, 23, 24, 25, 254, 255, 256, 257, 65534, 65535, 65536, 70000):
            ctx.count("cells")
            data = bytes([0x5A]) * n
            try:
                enc = Evaluator(ctx.repo, externals={"BytesIO": lambda b: FileStandIn(b)}).call(spec_e, [data])
            except Raised as x:
                return [ctx.bad(spec_e, "cbor_encode of %d bytes raises %s" % (n, x.name), fn, mod, key="cbor-roundtrip")]
            try:
                dec = Evaluator(ctx.repo, externals={"BytesIO": lambda b: FileStandIn(b)}).call(spec_d, [enc])
            except Raised as x:
                dec = "raises %s" % x.name
            if dec != data:
                return [ctx.bad(spec_d, "cbor_decode(cbor_encode(x)) for a %d-byte payload gives %s: the reader does not accept what the writer emits (prefix %s)" % (
                    n, "None" if dec is None else (dec if isinstance(dec, str) else "%d bytes" % len(dec)), enc[:5].hex() if isinstance(enc, bytes) else enc), fn2, mod2, key="cbor-roundtrip")]
            if n < 65536 and enc[:len(prefix(n))] != prefix(n):
                return [ctx.bad(spec_e, "a %d-byte payload is framed with the prefix %s; the shortest CBOR form is %s" % (n, enc[:len(prefix(n)) + 1].hex(), prefix(n).hex()), fn, mod,
                                key="cbor-roundtrip")]
    except Undecided as u:
        return [ctx.err(spec_e, "CBOR codec not evaluable: %s" % u, fn, mod)]
    return [ctx.ok(spec_e, "reader inverts writer and the prefix is the shortest form on both sides of every length boundary (13 lengths)", fn, mod, key="cbor-roundtrip")]


def c20_15(ctx):
    """the parser of one part (`ur:bytes/<x>of<y>/<digest>/<piece>`) is total on what the encoder emits: a *piece* of a multi-part UR can be
    as short as one character, so no refusal may depend on the length of the payload text"""
    spec = "bcur:_parse_bcur_helper"
    mod, fn = rl.get(ctx, spec)
    cfg = cfg_of(fn)
    f = Folder(ctx.repo, mod.name)
    # the names the payload travels under: first element of the returned tuple, through its definitions
    pay = set()
    for n in cfg.returns():
        v = n.ast.value if n.ast is not None else None
        if isinstance(v, ast.Tuple) and v.elts and isinstance(v.elts[0], ast.Name):
            pay.add(v.elts[0].id)
    if not pay:
        return [ctx.err(spec, "the payload returned by the part parser was not found", fn, mod)]
    for n in cfg.nodes:
        if n.kind != "raise":
            continue
        for t in cfg.tests():
            if not any(b == n.id for b, _ in cfg.succ[t.id]):
                continue
            for c in ast.walk(t.ast):
                if isinstance(c, ast.Call) and call_name(c) == "len" and c.args and isinstance(c.args[0], ast.Name) and c.args[0].id in pay and isinstance(t.ast, ast.Compare):
                    bound = next((f.fold(x) for x in [t.ast.left] + list(t.ast.comparators) if isinstance(f.fold(x), int)), None)
                    return [ctx.bad(spec, "`%s` refuses a part because of the length of its payload text%s: BCURMulti.encode emits pieces of 1 .. chunk-size characters, so a short "
                                          "last piece (or a small chunk size) makes the parts unparsable" % (ast.unparse(t.ast), " (bound %d)" % bound if bound is not None else ""),
                                    t.ast, mod, key="part-total")]
    return [ctx.ok(spec, "no refusal of a part depends on the length of its payload text", fn, mod, key="part-total")]


def c20_17(ctx):
    if not hasattr(ctx, "_c20_17"):
        ctx._c20_17 = _c20_17(ctx)
    return ctx._c20_17


def _c20_17(ctx):
    """the part parser on parts of every size the property quantifies over: _parse_bcur_helper evaluated on well-formed single and multi parts
    whose payload has 1, 58, 300, 1023, 1024, 2000 and 40000 characters of the bc32 alphabet (a 70,000-byte payload in one part has more than
    100,000) -- all accepted with the payload, checksum and x-of-y returned as written -- and on the same parts with one character outside the
    alphabet at the first, a middle and the last position -- all refused"""
    from sa.cells import Evaluator, Raised, Undecided
    spec = "bcur:_parse_bcur_helper"
    mod, fn = rl.get(ctx, spec)
    ALPHA = "qpzry9x8gf2tvdw0s3jn54khce6mua7l"
    chk = (ALPHA * 2)[:58]
    n = 0
    try:
        for size in (1, 58, 300, 1023, 1024, 2000, 40000):
            payload = "".join(ALPHA[(i * 7 + size) % 32] for i in range(size))
            for text, want in (("ur:bytes/%s" % payload, (payload, None, 1, 1)), ("ur:bytes/%s/%s" % (chk, payload), (payload, chk, 1, 1)),
                               ("ur:bytes/2of3/%s/%s" % (chk, payload), (payload, chk, 2, 3))):
                n += 1
                try:
                    r = Evaluator(ctx.repo, max_steps=3000000).call(spec, [text])
                except Raised as x:
                    return [ctx.bad(spec, "a well-formed part whose payload has %d bc32 characters is refused (%s): payloads split into parts of that size -- or sent as one part "
                                          "-- cannot be reassembled" % (size, x.name), fn, mod, key="part-sizes")]
                if tuple(r) != want:
                    return [ctx.bad(spec, "a part with a %d-character payload parses to other fields than it carries" % size, fn, mod, key="part-sizes")]
            for pos in (0, size // 2, size - 1):
                n += 1
                badp = payload[:pos] + "b" + payload[pos + 1:]   # 'b' is not in the bc32 alphabet
                try:
                    Evaluator(ctx.repo, max_steps=3000000).call(spec, ["ur:bytes/%s/%s" % (chk, badp)])
                    return [ctx.bad(spec, "a part whose %d-character payload has the character `b` (outside the bc32 alphabet) at position %d is accepted" % (size, pos), fn, mod,
                                    key="part-sizes")]
                except Raised:
                    pass
        # malformed parts: every way a part can deviate from ur:bytes/[xofy/][digest/]payload is refused
        pl = "".join(ALPHA[(i * 5 + 1) % 32] for i in range(40))
        malformed = [("no section after the prefix", "ur:bytes"), ("another prefix", "ur:byte/%s" % pl), ("another scheme", "xr:bytes/%s" % pl), ("the prefix missing", pl),
                     ("five sections", "ur:bytes/1of2/%s/%s/%s" % (chk, pl, pl)), ("six sections", "ur:bytes/1of2/%s/%s/%s/%s" % (chk, pl, pl, pl)),
                     ("x greater than y", "ur:bytes/3of2/%s/%s" % (chk, pl)), ("an x-of-y section without y", "ur:bytes/2of/%s/%s" % (chk, pl)),
                     ("an x-of-y section with three numbers", "ur:bytes/1of2of3/%s/%s" % (chk, pl)), ("a non-numeric x", "ur:bytes/aof3/%s/%s" % (chk, pl)),
                     ("a non-numeric y", "ur:bytes/1ofb/%s/%s" % (chk, pl)), ("a digest section of 57 characters", "ur:bytes/%s/%s" % (chk[:57], pl)),
                     ("a digest section of 59 characters", "ur:bytes/%s/%s" % (chk + "q", pl)), ("a digest section of 57 characters in a multi part", "ur:bytes/1of2/%s/%s" % (chk[:57], pl)),
                     ("a digest section with a foreign character", "ur:bytes/%s/%s" % ("b" + chk[1:], pl))]
        for what, text in malformed:
            n += 1
            try:
                r = Evaluator(ctx.repo, max_steps=3000000).call(spec, [text])
                return [ctx.bad(spec, "a part with %s (`%s…`) is accepted as %s" % (what, text[:40], (tuple(r)[1:] if isinstance(r, (tuple, list)) else r)), fn, mod, key="part-sizes")]
            except Raised:
                pass
    except Undecided as u:
        return [ctx.err(spec, "part parser not evaluable: %s" % u, fn, mod)]
    ctx.count("cells", n)
    return [ctx.ok(spec, "%d parts with payloads of 1 … 40000 characters: well-formed ones accepted as written, one foreign character refused at any position; 15 malformed "
                         "shapes (prefix, section count, x-of-y, digest length / alphabet) refused" % n, fn, mod, key="part-sizes")]


def c20_18(ctx):
    """a whole UR in the spellings a QR reader hands over: BCURSingle.parse and BCURMulti.parse evaluated end to end (part parser, bc32, digest, CBOR,
    constructor -- no stand-ins) on `ur:bytes/[digest/]payload` and on the 1of1 / 2-part forms, each as emitted (lower case), upper-cased as a whole
    (QR alphanumeric mode) and with surrounding white space; every one gives back the payload the reference encoder started from.  Payloads of 1, 23,
    24 and 300 bytes (both sides of the CBOR prefix boundary)."""
    import base64
    import hashlib
    from sa.cells import ClassRef, Evaluator, FileStandIn, Obj, Raised, Undecided
    out, n = [], 0
    for spec in ("bcur:BCURSingle.parse", "bcur:BCURMulti.parse"):
        mod, fn = rl.get(ctx, spec)
        cls = spec.split(":")[1].split(".")[0]
        bad = None
        try:
            for size in (1, 23, 24, 300):
                data = bytes((i * 37 + size) % 256 for i in range(size))
                cbor = (bytes([0x40 + size]) if size <= 23 else bytes([0x58, size]) if size <= 255 else b"\x59" + size.to_bytes(2, "big")) + data
                pay, dig = _bc32_ref(cbor), _bc32_ref(hashlib.sha256(cbor).digest())
                b64 = base64.b64encode(data).decode()
                if cls == "BCURSingle":
                    forms = [("with digest", "ur:bytes/%s/%s" % (dig, pay)), ("without digest", "ur:bytes/%s" % pay)]
                else:
                    half = (len(pay) + 1) // 2
                    forms = [("one part 1of1", ["ur:bytes/1of1/%s/%s" % (dig, pay)])]
                    if len(pay) > 1:
                        forms.append(("two parts", ["ur:bytes/1of2/%s/%s" % (dig, pay[:half]), "ur:bytes/2of2/%s/%s" % (dig, pay[half:])]))
                for what, text in forms:
                    for spell, tf in (("as emitted", lambda t: t), ("upper-cased", str.upper), ("with surrounding white space", lambda t: "  " + t + "\n")):
                        arg = tf(text) if isinstance(text, str) else [tf(t) for t in text]
                        n += 1
                        try:
                            r = Evaluator(ctx.repo, externals={"BytesIO": lambda b: FileStandIn(b)}, max_steps=6000000).call(spec, [arg], self_obj=ClassRef(mod.name, cls))
                        except Raised as x:
                            bad = "a %d-byte payload, %s, %s, is refused (%s): the reference encoding of the payload cannot be reassembled" % (size, what, spell, x.name)
                            break
                        got = r.attrs.get("text_b64") if isinstance(r, Obj) else None
                        if isinstance(got, bytes):
                            got = got.decode()
                        if got is None or base64.b64decode(got) != data:
                            bad = "a %d-byte payload, %s, %s, reassembles to another payload" % (size, what, spell)
                            break
                    if bad:
                        break
                if bad:
                    break
        except Undecided as u:
            out.append(ctx.err(spec, "whole-UR cells not evaluable: %s" % u, fn, mod))
            continue
        if bad:
            out.append(ctx.bad(spec, bad, fn, mod, key="ur-spelling"))
        else:
            out.append(ctx.ok(spec, "payloads of 1, 23, 24, 300 bytes × forms × {as emitted, upper-cased, surrounded by white space}: reassembled to the payload encoded by the rule's "
                                    "reference bc32 / CBOR / SHA-256", fn, mod, key="ur-spelling"))
    ctx.count("cells", n)
    return out



def _c20_5_deferring(ctx):
    """shape of a part (GUARDs and accept sets of the part parser); where the parser is in another form the part cells (C20.17: well-formed parts
    of every size accepted as written, 15 malformed shapes refused) decide the clauses anchored in _parse_bcur_helper"""
    try:
        out = c20_5(ctx)
    except AnalysisError as e:
        mod, fn = rl.get(ctx, "bcur:_parse_bcur_helper")
        if "BCURSingle" in str(e):
            raise
        out = [ctx.err("bcur:_parse_bcur_helper", str(e), fn, mod)]
    rl.defer(ctx, [r for r in out if "_parse_bcur_helper" in r.anchor], lambda: c20_17(ctx), "decided by the part cells (C20.17: well-formed parts accepted as written; prefix, section "
             "count, x-of-y and digest-section deviations refused); the parser is not in the form this rule reads")
    return out


OBLIGATIONS = [
    ("C20.17", "CELLS part sizes", c20_17),
    ("C20.18", "CELLS whole UR spellings", c20_18),
    ("C20.16", "CELLS bc32 spelling", c20_16),
    ("C20.14", "CELLS cbor round trip (bounded)", c20_14),
    ("C20.15", "TOTALITY part parser", c20_15),

    ("C20.12", "SHARED", c20_12),
    ("C20.11", "SET-ORDER", c20_11),
    ("C20.1", "RANGE partition+agreement", c20_1),
    ("C20.2", "SIBLING", c20_2),
    ("C20.3", "GUARD", c20_3),
    ("C20.4", "GUARD per-iteration", c20_4),
    ("C20.5", "GUARD", _c20_5_deferring),
    ("C20.6", "AFFINE", c20_6),
    ("C20.7", "DATAFLOW verbatim", c20_7),
    ("C20.8", "MEMO", c20_8),
    ("C20.9", "REGEX AST", c20_9),
    ("C20.10", "COVER no skip", c20_10),
]
FLOORS = {"C20.1": 7, "C20.2": 4, "C20.3": 3, "C20.4": 1, "C20.5": 7, "C20.6": 1}
