"""Bit-level codecs decided by evaluating them on their complete per-byte domain (and a stated bounded domain for the list / integer
arguments), shared by C17 (bit fields of merkle proofs) and C18 (Golomb-Rice coded sets): the functions treat every byte / bit position
alike inside a loop, so the per-byte behaviour is the whole behaviour up to the concatenation order, which the multi-byte cells show."""
import itertools

from sa import rl
from sa.cells import Evaluator, Raised, Undecided


def _bits(v):
    return [1 if x else 0 for x in v] if isinstance(v, (list, tuple)) else None


def bit_field_cells(ctx):
    """helper.bytes_to_bit_field / bit_field_to_bytes: bit i of the field is bit (i mod 8) of byte (i div 8), least significant first"""
    spec_d, spec_e = "helper:bytes_to_bit_field", "helper:bit_field_to_bytes"
    mod, fn = rl.get(ctx, spec_d)
    mod2, fn2 = rl.get(ctx, spec_e)
    anchor = "helper:bytes_to_bit_field↔bit_field_to_bytes"
    samples = [bytes([b]) for b in range(256)] + [b"\x01\x80", b"\xa5\x3c\x00", b"\x00\xff\x10\x08", b""]
    n = 0
    for data in samples:
        n += 1
        want = [(byte >> i) & 1 for byte in data for i in range(8)]
        try:
            got = _bits(Evaluator(ctx.repo).call(spec_d, [data]))
        except Raised as x:
            return [ctx.bad(anchor, "bytes_to_bit_field(%s) raises %s" % (data.hex(), x.name), fn, mod, key="lsb-first")]
        if got != want:
            return [ctx.bad(anchor, "bytes_to_bit_field(%s) = %s; the bit field lists each byte's bits least significant first, bytes in order: %s" % (data.hex(), got, want), fn, mod,
                            key="lsb-first")]
        try:
            back = Evaluator(ctx.repo).call(spec_e, [list(want)])
        except Raised as x:
            return [ctx.bad(anchor, "bit_field_to_bytes of the bits of %s raises %s" % (data.hex(), x.name), fn2, mod2, key="lsb-first")]
        if not isinstance(back, (bytes, bytearray)) or bytes(back) != data:
            return [ctx.bad(anchor, "bit_field_to_bytes(bits of %s) = %s: the two conversions are not inverse" % (data.hex(), bytes(back).hex() if isinstance(back, (bytes, bytearray)) else back),
                            fn2, mod2, key="lsb-first")]
    for ln in (1, 7, 9, 15):
        n += 1
        try:
            Evaluator(ctx.repo).call(spec_e, [[1] * ln])
            return [ctx.bad(anchor, "bit_field_to_bytes accepts a field of %d bits (not a whole number of bytes)" % ln, fn2, mod2, key="lsb-first")]
        except Raised:
            pass
    ctx.count("cells", n)
    return [ctx.ok(anchor, "bit i of the field is bit (i mod 8) of byte (i div 8), least significant first, on both sides (all 256 byte values and %d multi-byte / "
                           "odd-length cells evaluated)" % (n - 256), fn, mod, key="lsb-first")]


def golomb_cells(ctx):
    """compactfilter.encode_golomb / decode_golomb: x -> (x >> P) ones, a zero, the low P bits most significant first; decode is the inverse and
    consumes exactly that many bits.  P in {1, 2, 3} with x = 0 .. 5 * 2^P, and P = 19 with values around the quotient steps (bounded)"""
    spec_e, spec_d = "compactfilter:encode_golomb", "compactfilter:decode_golomb"
    mod, fn = rl.get(ctx, spec_e)
    mod2, fn2 = rl.get(ctx, spec_d)
    anchor = "compactfilter:encode_golomb↔decode_golomb"
    cases = [(p, x) for p in (1, 2, 3) for x in range(0, 5 * (1 << p) + 1)]
    cases += [(19, x) for x in (0, 1, (1 << 19) - 1, 1 << 19, (1 << 19) + 1, 3 * (1 << 19) + 12345, 70 * (1 << 19) + 5, (1 << 26) - 1)]
    n = 0
    for p, x in cases:
        n += 1
        want = [1] * (x >> p) + [0] + [(x >> (p - 1 - i)) & 1 for i in range(p)]
        try:
            got = _bits(Evaluator(ctx.repo).call(spec_e, [x, p]))
        except Raised as e:
            return [ctx.bad(anchor, "encode_golomb(%d, %d) raises %s" % (x, p, e.name), fn, mod, key="golomb")]
        if got != want:
            return [ctx.bad(anchor, "encode_golomb(%d, P=%d) = %s; Golomb-Rice: quotient in unary, a zero, then the P remainder bits most significant first: %s" % (
                x, p, got if len(got or []) < 40 else "%d bits" % len(got), want if len(want) < 40 else "%d bits" % len(want)), fn, mod, key="golomb")]
        stream = list(want) + [1, 0, 1]
        try:
            back = Evaluator(ctx.repo, max_steps=600000).call(spec_d, [stream, p])
        except Raised as e:
            return [ctx.bad(anchor, "decode_golomb of the code of %d (P=%d) raises %s" % (x, p, e.name), fn2, mod2, key="golomb")]
        if back != x or stream != [1, 0, 1]:
            return [ctx.bad(anchor, "decode_golomb of the code of %d (P=%d) gives %s and leaves %d of the 3 following bits: not the inverse of the encoder" % (x, p, back, len(stream)),
                            fn2, mod2, key="golomb")]
    ctx.count("cells", n)
    return [ctx.ok(anchor, "quotient in unary (1…10) then P remainder bits, most significant first, on both sides (%d (P, x) cells evaluated)" % n, fn, mod, key="golomb")]


def pack_cells(ctx):
    """compactfilter.pack_bits / unpack_bits: bits are packed most significant first and padded with (-n) mod 8 zero bits; every bit list of
    length 0..10 and every byte value"""
    spec_p, spec_u = "compactfilter:pack_bits", "compactfilter:unpack_bits"
    mod, fn = rl.get(ctx, spec_p)
    mod2, fn2 = rl.get(ctx, spec_u)
    n = 0
    for ln in range(0, 11):
        for bits in itertools.product((0, 1), repeat=ln):
            n += 1
            padded = list(bits) + [0] * (-ln % 8)
            want = bytes(int("".join(map(str, padded[i:i + 8])), 2) for i in range(0, len(padded), 8))
            try:
                got = Evaluator(ctx.repo).call(spec_p, [list(bits)])
            except Raised as e:
                return [ctx.bad(spec_p, "pack_bits(%s) raises %s" % (list(bits), e.name), fn, mod, key="msb-pack")]
            if not isinstance(got, (bytes, bytearray)) or bytes(got) != want:
                return [ctx.bad(spec_p, "pack_bits(%s) = %s; bits are packed most significant first with %d zero bits of padding: %s" % (
                    list(bits), bytes(got).hex() if isinstance(got, (bytes, bytearray)) else got, -ln % 8, want.hex()), fn, mod, key="msb-pack")]
    for b in range(256):
        n += 1
        want = [(b >> (7 - i)) & 1 for i in range(8)]
        try:
            got = _bits(Evaluator(ctx.repo).call(spec_u, [bytes([b, 0x81])]))
        except Raised as e:
            return [ctx.bad(spec_u, "unpack_bits(%02x81) raises %s" % (b, e.name), fn2, mod2, key="msb-unpack")]
        if got != want + [1, 0, 0, 0, 0, 0, 0, 1]:
            return [ctx.bad(spec_u, "unpack_bits(%02x81) = %s; bytes are unpacked most significant bit first, in order" % (b, got), fn2, mod2, key="msb-unpack")]
    ctx.count("cells", n)
    return [ctx.ok(spec_p, "packs most significant first with (-n) mod 8 zero padding bits (all bit lists of length 0..10)", fn, mod, key="msb-pack"),
            ctx.ok(spec_u, "unpacks most significant bit first (all 256 byte values)", fn2, mod2, key="msb-unpack")]


def try_cells(f, ctx):
    """results of an evaluation-based decider, or None when the function is outside the evaluator's subset"""
    try:
        return f(ctx)
    except Undecided:
        return None
