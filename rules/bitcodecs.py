"""Bit-level codecs decided by evaluating them on their complete per-byte domain (and a stated bounded domain for the list / integer
arguments), shared by C17 (bit fields of merkle proofs) and C18 (Golomb-Rice coded sets): the functions treat every byte / bit position
alike inside a loop, so the per-byte behaviour is the whole behaviour up to the concatenation order, which the multi-byte cells show."""
import itertools

from sa import rl
from sa.cells import Evaluator, Raised, Undecided


def _bits(v):
    return [1 if x else 0 for x in v] if isinstance(v, (list, tuple)) else None


def bit_field_cells(ctx):
    """helper.bytes_to_bit_field / bit_field_to_bytes: bit i of the field is bit (i mod 8) of byte (i div 8), least significant first"""
    spec_d, spec_e = "helper:bytes_to_bit_field", "helper:bit_field_to_bytes"
    mod, fn = rl.get(ctx, spec_d)
    mod2, fn2 = rl.get(ctx, spec_e)
    anchor = "helper:bytes_to_bit_field↔bit_field_to_bytes"
    samples = [bytes([b]) for b in range(256)] + [b"\x01\x80", b"\xa5\x3c\x00", b"\x00\xff\x10\x08", b""]
    n = 0
    for data in samples:
        n += 1
        want = [(byte >> i) & 1 for byte in data for i in range(8)]
        try:
            got = _bits(Evaluator(ctx.repo).call(spec_d, [data]))
        except Raised as x:
            return [ctx.bad(anchor, "bytes_to_bit_field(%s) raises %s" % (data.hex(), x.name), fn, mod, key="lsb-first")]
        if got != want:
            return [ctx.bad(anchor, "bytes_to_bit_field(%s) = %s; the bit field lists each byte's bits least significant first, bytes in order: %s" % (data.hex(), got, want), fn, mod,
                            key="lsb-first")]
        try:
            back = Evaluator(ctx.repo).call(spec_e, [list(want)])
        except Raised as x:
            return [ctx.bad(anchor, "bit_field_to_bytes of the bits of %s raises %s" % (data.hex(), x.name), fn2, mod2, key="lsb-first")]
        if not isinstance(back, (bytes, bytearray)) or bytes(back) != data:
            return [ctx.bad(anchor, "bit_field_to_bytes(bits of %s) = %s: the two conversions are not inverse" % (data.hex(), bytes(back).hex() if isinstance(back, (bytes, bytearray)) else back),
                            fn2, mod2, key="lsb-first")]
    for ln in (1, 7, 9, 15):
        n += 1
        try:
            Evaluator(ctx.repo).call(spec_e, [[1] * ln])
            return [ctx.bad(anchor, "bit_field_to_bytes accepts a field of %d bits (not a whole number of bytes)" % ln, fn2, mod2, key="lsb-first")]
        except Raised:
            pass
    ctx.count("cells", n)
    return [ctx.ok(anchor, "bit i of the field is bit (i mod 8) of byte (i div 8), least significant first, on both sides (all 256 byte values and %d multi-byte / "
                           "odd-length cells evaluated)" % (n - 256), fn, mod, key="lsb-first")]


def golomb_cells(ctx):
    """compactfilter.encode_golomb / decode_golomb: x -> (x >> P) ones, a zero, the low P bits most significant first; decode is the inverse and
    consumes exactly that many bits.  P in {1, 2, 3} with x = 0 .. 5 * 2^P, and P = 19 with values around the quotient steps (bounded)"""
    spec_e, spec_d = "compactfilter:encode_golomb", "compactfilter:decode_golomb"
    mod, fn = rl.get(ctx, spec_e)
    mod2, fn2 = rl.get(ctx, spec_d)
    anchor = "compactfilter:encode_golomb↔decode_golomb"
    cases = [(p, x) for p in (1, 2, 3) for x in range(0, 5 * (1 << p) + 1)]
    cases += [(19, x) for x in (0, 1, (1 << 19) - 1, 1 << 19, (1 << 19) + 1, 3 * (1 << 19) + 12345, 70 * (1 << 19) + 5, (1 << 26) - 1)]
    n = 0
    for p, x in cases:
        n += 1
        want = [1] * (x >> p) + [0] + [(x >> (p - 1 - i)) & 1 for i in range(p)]
        try:
            got = _bits(Evaluator(ctx.repo).call(spec_e, [x, p]))
        except Raised as e:
            return [ctx.bad(anchor, "encode_golomb(%d, %d) raises %s" % (x, p, e.name), fn, mod, key="golomb")]
        if got != want:
            return [ctx.bad(anchor, "encode_golomb(%d, P=%d) = %s; Golomb-Rice: quotient in unary, a zero, then the P remainder bits most significant first: %s" % (
                x, p, got if len(got or []) < 40 else "%d bits" % len(got), want if len(want) < 40 else "%d bits" % len(want)), fn, mod, key="golomb")]
        stream = list(want) + [1, 0, 1]
        try:
            back = Evaluator(ctx.repo, max_steps=600000).call(spec_d, [stream, p])
        except Raised as e:
            return [ctx.bad(anchor, "decode_golomb of the code of %d (P=%d) raises %s" % (x, p, e.name), fn2, mod2, key="golomb")]
        if back != x or stream != [1, 0, 1]:
            return [ctx.bad(anchor, "decode_golomb of the code of %d (P=%d) gives %s and leaves %d of the 3 following bits: not the inverse of the encoder" % (x, p, back, len(stream)),
                            fn2, mod2, key="golomb")]
    ctx.count("cells", n)
    return [ctx.ok(anchor, "quotient in unary (1…10) then P remainder bits, most significant first, on both sides (%d (P, x) cells evaluated)" % n, fn, mod, key="golomb")]


def pack_cells(ctx):
    """compactfilter.pack_bits / unpack_bits: bits are packed most significant first and padded with (-n) mod 8 zero bits; every bit list of
    length 0..10 and every byte value"""
    spec_p, spec_u = "compactfilter:pack_bits", "compactfilter:unpack_bits"
    mod, fn = rl.get(ctx, spec_p)
    mod2, fn2 = rl.get(ctx, spec_u)
    n = 0
    for ln in range(0, 11):
        for bits in itertools.product((0, 1), repeat=ln):
            n += 1
            padded = list(bits) + [0] * (-ln % 8)
            want = bytes(int("".join(map(str, padded[i:i + 8])), 2) for i in range(0, len(padded), 8))
            try:
                got = Evaluator(ctx.repo).call(spec_p, [list(bits)])
            except Raised as e:
                return [ctx.bad(spec_p, "pack_bits(%s) raises %s" % (list(bits), e.name), fn, mod, key="msb-pack")]
            if not isinstance(got, (bytes, bytearray)) or bytes(got) != want:
                return [ctx.bad(spec_p, "pack_bits(%s) = %s; bits are packed most significant first with %d zero bits of padding: %s" % (
                    list(bits), bytes(got).hex() if isinstance(got, (bytes, bytearray)) else got, -ln % 8, want.hex()), fn, mod, key="msb-pack")]
    for b in range(256):
        n += 1
        want = [(b >> (7 - i)) & 1 for i in range(8)]
        try:
            got = _bits(Evaluator(ctx.repo).call(spec_u, [bytes([b, 0x81])]))
        except Raised as e:
            return [ctx.bad(spec_u, "unpack_bits(%02x81) raises %s" % (b, e.name), fn2, mod2, key="msb-unpack")]
        if got != want + [1, 0, 0, 0, 0, 0, 0, 1]:
            return [ctx.bad(spec_u, "unpack_bits(%02x81) = %s; bytes are unpacked most significant bit first, in order" % (b, got), fn2, mod2, key="msb-unpack")]
    ctx.count("cells", n)
    return [ctx.ok(spec_p, "packs most significant first with (-n) mod 8 zero padding bits (all bit lists of length 0..10)", fn, mod, key="msb-pack"),
            ctx.ok(spec_u, "unpacks most significant bit first (all 256 byte values)", fn2, mod2, key="msb-unpack")]


def try_cells(f, ctx):
    """results of an evaluation-based decider, or None when the function is outside the evaluator's subset"""
    try:
        return f(ctx)
    except Undecided:
        return None


def varint_cells(ctx):
    """helper.encode_varint / read_varint / encode_varstr / read_varstr against Bitcoin's compact size, on every width boundary and its
    neighbours (0, 1, 0xfc | 0xfd, 0xfe, 0xffff | 0x10000, 0xffffffff | 0x100000000, 2^64-1) and one value inside each width: the encoder
    writes the CANONICAL (shortest) form, the reader inverts it and consumes exactly those bytes; 2^64 is refused.  Complete in the width
    classes; the codec looks at the value only through comparisons with the boundaries and fixed-width conversions"""
    spec_e, spec_d = "helper:encode_varint", "helper:read_varint"
    mod, fn = rl.get(ctx, spec_e)
    mod2, fn2 = rl.get(ctx, spec_d)
    from sa.cells import FileStandIn

    def ref(i):
        if i < 0xFD:
            return bytes([i])
        if i <= 0xFFFF:
            return b"\xfd" + i.to_bytes(2, "little")
        if i <= 0xFFFFFFFF:
            return b"\xfe" + i.to_bytes(4, "little")
        return b"\xff" + i.to_bytes(8, "little")
    vals = [0, 1, 0x7F, 0xFB, 0xFC, 0xFD, 0xFE, 0xFF, 0x100, 0x1234, 0xFFFE, 0xFFFF, 0x10000, 0x10001, 0x12345678, 0xFFFFFFFE, 0xFFFFFFFF, 0x100000000, 0x100000001,
            0x123456789ABCDEF0, 2 ** 64 - 2, 2 ** 64 - 1]
    n = 0
    for v in vals:
        n += 1
        try:
            got = Evaluator(ctx.repo).call(spec_e, [v])
        except Raised as x:
            return [ctx.bad(spec_e, "encode_varint(%#x) raises %s" % (v, x.name), fn, mod, key="compact-size")]
        if got != ref(v):
            return [ctx.bad(spec_e, "encode_varint(%#x) is %s, the canonical compact size is %s" % (v, got.hex() if isinstance(got, bytes) else got, ref(v).hex()), fn, mod, key="compact-size")]
        s_ = FileStandIn(ref(v) + b"\xaa\xbb")
        try:
            back = Evaluator(ctx.repo).call(spec_d, [s_])
        except Raised as x:
            return [ctx.bad(spec_d, "read_varint of %s raises %s" % (ref(v).hex(), x.name), fn2, mod2, key="compact-size")]
        if back != v or s_.pos != len(ref(v)):
            return [ctx.bad(spec_d, "read_varint of %s gives %r and consumes %d byte(s); the value is %#x in %d byte(s)" % (ref(v).hex(), back, s_.pos, v, len(ref(v))), fn2, mod2,
                            key="compact-size")]
    try:
        Evaluator(ctx.repo).call(spec_e, [2 ** 64])
        return [ctx.bad(spec_e, "encode_varint(2^64) does not raise", fn, mod, key="compact-size")]
    except Raised:
        pass
    for ln in (0, 1, 0xFC, 0xFD, 0x1234):
        n += 1
        data = bytes((i * 3 + 1) & 255 for i in range(ln))
        got = Evaluator(ctx.repo).call("helper:encode_varstr", [data])
        if got != ref(ln) + data:
            return [ctx.bad("helper:encode_varstr", "encode_varstr of %d bytes is not compact size ‖ bytes" % ln, fn, mod, key="compact-size")]
        s_ = FileStandIn(got + b"\x99")
        back = Evaluator(ctx.repo).call("helper:read_varstr", [s_])
        if back != data or s_.pos != len(got):
            return [ctx.bad("helper:read_varstr", "read_varstr does not invert encode_varstr for %d bytes" % ln, fn2, mod2, key="compact-size")]
    ctx.count("cells", n)
    return [ctx.ok(spec_e, "%d values on and around every width boundary are written in canonical compact size and read back, consuming exactly their bytes" % len(vals), fn, mod,
                   key="compact-size")]
