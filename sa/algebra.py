"""Tiny canonical form for the arithmetic expressions the rules compare (`(e + t) % N`, `P + t*G`, `-1 * self`):

    canon(expr) -> ("mod", inner, modulus_text) | ("sum", frozen multiset of (sign, term)) | ("atom", text)

Addition is commutative and associative, `a - b` is `a + (-b)`, `-1 * x`, `x * -1` and `-x` are the same term with a
negative sign, a factor `G` (the generator) is dropped inside sums of points (`P + t` and `P + t * G` are the same
S256Point addition), and every leaf is the unparse text of the sub-expression.  Two expressions with the same canonical
form compute the same value; different forms are *not* proven different (the caller decides between "recognised wrong
form" and "not recognised")."""
import ast


def _terms(e, sign, out, drop=("G",)):
    if isinstance(e, ast.BinOp) and isinstance(e.op, ast.Add):
        _terms(e.left, sign, out, drop)
        _terms(e.right, sign, out, drop)
    elif isinstance(e, ast.BinOp) and isinstance(e.op, ast.Sub):
        _terms(e.left, sign, out, drop)
        _terms(e.right, -sign, out, drop)
    elif isinstance(e, ast.UnaryOp) and isinstance(e.op, ast.USub):
        _terms(e.operand, -sign, out, drop)
    elif isinstance(e, ast.UnaryOp) and isinstance(e.op, ast.UAdd):
        _terms(e.operand, sign, out, drop)
    elif isinstance(e, ast.BinOp) and isinstance(e.op, ast.Mult):
        fs = []
        s = sign
        for f in _factors(e):
            if isinstance(f, ast.Constant) and f.value == -1:
                s = -s
            elif isinstance(f, ast.UnaryOp) and isinstance(f.op, ast.USub) and isinstance(f.operand, ast.Constant) and f.operand.value == 1:
                s = -s
            elif isinstance(f, ast.UnaryOp) and isinstance(f.op, ast.USub):
                s = -s
                fs.append(ast.unparse(f.operand))
            elif isinstance(f, ast.Constant) and f.value == 1:
                continue
            elif isinstance(f, ast.Name) and f.id in drop:
                continue
            else:
                fs.append(ast.unparse(f))
        out.append((s, " * ".join(sorted(fs)) if fs else "1"))
    else:
        out.append((sign, ast.unparse(e)))


def _factors(e):
    if isinstance(e, ast.BinOp) and isinstance(e.op, ast.Mult):
        return _factors(e.left) + _factors(e.right)
    return [e]


def canon(e):
    if isinstance(e, ast.BinOp) and isinstance(e.op, ast.Mod):
        return ("mod", canon(e.left), ast.unparse(e.right))
    out = []
    _terms(e, 1, out)
    if len(out) == 1 and out[0][0] == 1:
        return ("atom", out[0][1])
    return ("sum", tuple(sorted(out)))


def terms(e):
    """[(sign, text)] of a sum (a single atom is a one-element sum); a top-level `% m` is looked through"""
    c = canon(e)
    if c[0] == "mod":
        c = c[1]
    if c[0] == "atom":
        return [(1, c[1])]
    return list(c[1])
