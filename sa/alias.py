"""ALIAS rule: two names bound to one mutable object.

`stack = altstack = []` creates one list with two names; `self.a = self.b = {}` one dict in two attributes.  Code that then
treats them as two containers (moves an item from one to the other, fills one and reads the other) works on a single one.
The rule flags a chained assignment (or `b = a` straight after `a = <display>`) whose value is a mutable display or a bare
container constructor.  On the reference tree there is no chained assignment at all."""
import ast


def _mutable_display(e):
    if isinstance(e, (ast.List, ast.Dict, ast.Set, ast.ListComp, ast.DictComp, ast.SetComp)):
        return True
    return isinstance(e, ast.Call) and isinstance(e.func, ast.Name) and e.func.id in ("list", "dict", "set", "bytearray", "OrderedDict", "defaultdict", "deque")


def alias_sites(mod):
    out = []
    for qn, fn in mod.functions.items():
        for n in ast.walk(fn):
            if isinstance(n, ast.Assign) and len(n.targets) > 1 and _mutable_display(n.value):
                # the alias matters when the object is changed through two of its names (each meant to collect something of its own);
                # `local = self._memo = []` filled through the local only is one list with a handle
                names = [ast.unparse(t) for t in n.targets]
                changed = {ast.unparse(x.func.value) for x in ast.walk(fn) if isinstance(x, ast.Call) and isinstance(x.func, ast.Attribute)
                           and x.func.attr in ("append", "extend", "insert", "pop", "remove", "clear", "add", "update", "setdefault", "sort", "reverse")}
                changed |= {ast.unparse(x.value) for x in ast.walk(fn) if isinstance(x, ast.Subscript) and isinstance(x.ctx, (ast.Store, ast.Del))}
                changed |= {ast.unparse(x.target) for x in ast.walk(fn) if isinstance(x, ast.AugAssign)}
                # handed to a callee, which may change it (`operation(stack, altstack)`)
                changed |= {ast.unparse(a_) for x in ast.walk(fn) if isinstance(x, ast.Call) for a_ in list(x.args) + [k_.value for k_ in x.keywords]
                            if isinstance(a_, (ast.Name, ast.Attribute))}
                if len([nm for nm in names if nm in changed]) >= 2:
                    out.append((qn, n, names))
            for f in ("body", "orelse", "finalbody"):
                v = getattr(n, f, None)
                if not isinstance(v, list):
                    continue
                for a, b in zip(v, v[1:]):
                    if isinstance(a, ast.Assign) and len(a.targets) == 1 and isinstance(a.targets[0], ast.Name) and _mutable_display(a.value) \
                            and isinstance(b, ast.Assign) and len(b.targets) == 1 and isinstance(b.targets[0], ast.Name) and isinstance(b.value, ast.Name) \
                            and b.value.id == a.targets[0].id and b.targets[0].id != a.targets[0].id:
                        # both names must be changed later for the alias to matter
                        names = (a.targets[0].id, b.targets[0].id)
                        mutated = {x.func.value.id for x in ast.walk(fn) if isinstance(x, ast.Call) and isinstance(x.func, ast.Attribute) and isinstance(x.func.value, ast.Name)
                                   and x.func.attr in ("append", "extend", "insert", "pop", "remove", "clear", "add", "update")}
                        if all(nm in mutated for nm in names):
                            out.append((qn, b, list(names)))
    return out


def alias_obligation(ctx, modnames, what):
    out = []
    looked = 0
    for mn in modnames:
        mod = ctx.repo.module(mn)
        looked += len(mod.functions)
        for qn, n, names in alias_sites(mod):
            out.append(ctx.bad("%s:%s" % (mn, qn), "`%s` binds %s to one and the same object: %s" % (ast.unparse(n)[:60], " and ".join("`%s`" % x for x in names), what), n, mod,
                               key="alias:%s:%s" % (qn, "+".join(sorted(names)))))
    if not out:
        out.append(ctx.ok("+".join(modnames) + ":*", "no two names are bound to one mutable display (%d functions inspected)" % looked, key="alias"))
    return out
