"""Finite-cell abstract evaluation (predicate abstraction with one representative per cell).

Some clauses quantify over structured inputs (a script's command list, an address string, a header value) but the code
only ever *compares* the parts of the input with constants that are written in the source.  The input space then falls
into finitely many cells -- one per combination of "equals constant c_i" / "none of them" for every inspected part -- and
every member of a cell takes the same path.  This module abstractly evaluates a function of the repository over one
representative of each cell with a small evaluator over the syntax tree (no code of the repository is imported or run):
tests are decided from the cell, straight-line statements update an abstract store, calls to repository methods are
followed, and anything outside the understood subset raises Undecided so that the rule reports "not decided" instead
of guessing.

The evaluator is deliberately small: integers, bytes / str, lists, tuples, dicts, None, booleans and abstract objects
(class + attribute store)."""
import ast

from sa.fold import Folder, Unknown
from sa.loader import decorators, param_names


class Undecided(Exception):
    pass


class Raised(Exception):
    """the evaluated code raises (exception class name in .name)"""

    def __init__(self, name, node=None):
        Exception.__init__(self, name)
        self.name = name
        self.node = node


class Obj:
    def __init__(self, mod, cls, attrs=None):
        self.mod, self.cls, self.attrs = mod, cls, dict(attrs or {})

    def __repr__(self):
        return "<%s %r>" % (self.cls, self.attrs)


class ClassRef:
    def __init__(self, mod, cls):
        self.mod, self.cls = mod, cls


class SuperRef:
    def __init__(self, mod, cls, obj):
        self.mod, self.cls, self.obj = mod, cls, obj  # cls: the class whose body `super()` appears in


class FileStandIn:
    """what an `open(...)` stand-in hands out: the text of a data file of the repository (read once, by `read()`)"""

    def __init__(self, text):
        self.text = text
        self.pos = 0

    def read(self, n=None):
        """the rest (n omitted) or the next n characters / bytes, as a file or BytesIO does"""
        end = len(self.text) if n is None or n < 0 else min(len(self.text), self.pos + n)
        out = self.text[self.pos:end]
        self.pos = end
        return out


    def seek(self, offset, whence=0):
        """io semantics: 0 from the start, 1 from the current position, 2 from the end"""
        base = 0 if whence == 0 else (self.pos if whence == 1 else len(self.text))
        if base + offset < 0:
            raise ValueError("negative seek position")
        self.pos = base + offset
        return self.pos

    def tell(self):
        return self.pos

    def lines(self):
        """the remaining lines, line ends kept, as iterating over a file gives them"""
        rest = self.read()
        nl = "\n" if isinstance(rest, str) else b"\n"
        parts = rest.split(nl)
        out = [p_ + nl for p_ in parts[:-1]]
        if parts[-1]:
            out.append(parts[-1])
        return out

    def getvalue(self):
        return self.text


class IterStandIn:
    """`iter(xs)` over a list / tuple: a position that loops and next() advance, shared by everything that holds the iterator"""

    def __init__(self, items):
        self.items, self.pos = list(items), 0

    def __iter__(self):
        return self

    def __next__(self):
        if self.pos >= len(self.items):
            raise StopIteration
        self.pos += 1
        return self.items[self.pos - 1]


class Namespace:
    """a stand-in for an imported module (`path`, `os`): attributes are python callables"""

    def __init__(self, **kw):
        self.__dict__.update(kw)


class _Return(Exception):
    def __init__(self, v):
        self.v = v


class TaggedInt(int):
    """a stand-in for an instance of an int subclass of the evaluated program (Locktime, Sequence): an int for all arithmetic, an instance of
    the class for isinstance"""

    def __new__(cls, v, mod, clsname):
        o = int.__new__(cls, v)
        o.tag = (mod, clsname)
        return o


class _GenExit(BaseException):
    """unwinds the body of a generator the consumer no longer needs"""


class _LazyGen:
    """A generator function of the evaluated program, evaluated lazily as in Python: the body runs in a thread of its own that is handed the
    baton at every next() and hands it back at every yield -- exactly one of the threads runs at any time, so the evaluator's state needs no
    lock.  An endless generator (`while True: yield …`) costs only the elements asked for; an exception behind the point where the consumer
    stops is never raised; partial consumption (islice in a loop) continues where it stopped."""

    def __init__(self, ev, run):
        import threading
        self.ev, self.run = ev, run
        self.state, self.msg, self.closing = "new", None, False
        self.resume, self.ready = threading.Semaphore(0), threading.Semaphore(0)
        ev._gens.append(self)

    def __iter__(self):
        return self

    def _target(self):
        import threading
        self.ev._gen_by_thread[threading.get_ident()] = self
        try:
            try:
                self.run()
            except _Return:
                pass
            self.msg = ("done",)
        except _GenExit:
            self.msg = ("done",)
        except BaseException as x:  # Raised / Undecided / internal errors surface in the consumer
            self.msg = ("exc", x)
        finally:
            self.ev._gen_by_thread.pop(threading.get_ident(), None)
            self.state = "done"
            self.ready.release()

    def __next__(self):
        import threading
        if self.state == "done":
            raise StopIteration
        if self.state == "new":
            self.state = "running"
            threading.Thread(target=self._target, daemon=True).start()
        else:
            self.resume.release()
        self.ready.acquire()
        m = self.msg
        if m[0] == "yield":
            return m[1]
        if m[0] == "exc":
            raise m[1]
        raise StopIteration

    def emit(self, v):
        """called by the body (in its thread) at a yield"""
        self.msg = ("yield", v)
        self.ready.release()
        self.resume.acquire()
        if self.closing:
            raise _GenExit()

    def close(self):
        if self.state == "running":
            self.closing = True
            self.resume.release()
            self.ready.acquire()
        self.state = "done"


class _Break(Exception):
    pass


class _Continue(Exception):
    pass


def _same(a, b):
    """`is`: a class is one object however often its name is looked up"""
    if isinstance(a, ClassRef) and isinstance(b, ClassRef):
        return (a.mod, a.cls) == (b.mod, b.cls)
    return a is b


_BUILTIN_TYPES = {"bytes": bytes, "int": int, "str": str, "list": list, "tuple": tuple, "dict": dict, "bool": bool, "bytearray": bytearray, "set": set, "frozenset": frozenset,
                  "float": float, "type": type, "object": object, "memoryview": memoryview}
_CMP = {
    ast.Eq: lambda a, b: a == b, ast.NotEq: lambda a, b: a != b, ast.Lt: lambda a, b: a < b, ast.LtE: lambda a, b: a <= b,
    ast.Gt: lambda a, b: a > b, ast.GtE: lambda a, b: a >= b, ast.In: lambda a, b: a in b, ast.NotIn: lambda a, b: a not in b,
    ast.Is: lambda a, b: _same(a, b), ast.IsNot: lambda a, b: not _same(a, b),
}
_BIN = {
    ast.Add: lambda a, b: a + b, ast.Sub: lambda a, b: a - b, ast.Mult: lambda a, b: a * b, ast.FloorDiv: lambda a, b: a // b,
    ast.Div: lambda a, b: a / b, ast.Mod: lambda a, b: a % b, ast.LShift: lambda a, b: a << b, ast.RShift: lambda a, b: a >> b, ast.BitAnd: lambda a, b: a & b,
    ast.BitOr: lambda a, b: a | b, ast.BitXor: lambda a, b: a ^ b, ast.Pow: lambda a, b: a ** b if (not isinstance(b, int) or abs(b) < 4096) else (_ for _ in ()).throw(OverflowError()),
}
import hashlib as _hl
import threading as _th
_th.stack_size(256 * 1024 * 1024)   # generator bodies run the recursive evaluator in threads of their own
import hmac as _hm
import base64 as _b64
import binascii as _ba
import collections as _co
import functools as _ft
import itertools as _it
import re as _re


def _lz(f):
    """finite itertools results as lists (the evaluator's loops and builtins take lists)"""
    g = lambda *a, **k: list(f(*a, **k))
    if hasattr(f, "from_iterable"):
        g.from_iterable = lambda it_: list(f.from_iterable(it_))
    return g

_PURE_METHODS = {
    bytes: {"startswith", "endswith", "hex", "decode", "lstrip", "rstrip", "strip", "find", "rfind", "index", "count", "join", "ljust", "rjust", "zfill", "center", "split", "rsplit",
            "replace", "partition", "rpartition", "upper", "lower", "isdigit", "isalpha", "isalnum", "translate"},
    str: {"startswith", "endswith", "lower", "upper", "strip", "lstrip", "rstrip", "find", "rfind", "index", "encode", "split", "rsplit", "splitlines", "partition", "rpartition", "count",
          "isdigit", "isalpha", "isalnum", "islower", "isupper", "isspace", "isidentifier", "replace", "format", "join", "zfill", "title", "capitalize", "casefold", "swapcase", "ljust", "rjust"},
    list: {"index", "count", "copy", "pop", "append", "extend", "insert", "remove", "clear", "reverse", "sort"},
    set: {"add", "discard", "remove", "copy", "union", "issubset", "issuperset", "isdisjoint", "intersection"},
    bytearray: {"append", "extend", "hex"},
    tuple: {"index", "count"},
    dict: {"get", "keys", "values", "items", "pop", "update", "setdefault", "copy"},
    int: {"to_bytes", "bit_length"},
    # regular expressions are constants of the source; matching them is the standard library's own (pure) semantics of the pattern language
    _re.Pattern: {"match", "fullmatch", "search", "findall", "sub", "split"},
    _re.Match: {"group", "groups", "groupdict", "start", "end", "span"},
    # digests of the standard library: pure functions of the bytes fed in
    type(_hl.sha256()): {"digest", "hexdigest", "update", "copy"},
    _hm.HMAC: {"digest", "hexdigest", "update", "copy"},
    # a compiled struct layout: a constant of the source, packing / unpacking is the standard library's pure fixed-width conversion
    __import__("struct").Struct: {"pack", "unpack", "unpack_from", "iter_unpack"},
}
_PURE_ATTRS = {__import__("struct").Struct: {"size", "format"}}


def _operator_ns():
    """the operator module on plain values (on objects of the evaluated program the operators are the program's own dunder methods, which
    these functions would bypass: undecided)"""
    import operator as _op

    def plain(f):
        def g(*a):
            if any(isinstance(x, (Obj, ClassRef)) for x in a):
                raise Undecided("operator.%s on an object" % f.__name__)
            return f(*a)
        return g
    names = ("eq", "ne", "lt", "le", "gt", "ge", "add", "sub", "mul", "floordiv", "mod", "and_", "or_", "xor", "not_", "neg", "pos", "abs", "lshift", "rshift", "truth",
             "contains", "getitem", "concat", "index", "invert", "pow", "is_", "is_not")
    return Namespace(itemgetter=_op.itemgetter, **{n: plain(getattr(_op, n)) for n in names})


class Evaluator:
    def __init__(self, repo, hooks=None, max_steps=200000, opaque=None, externals=None, method_hooks=None):
        """hooks: {call text: value or callable(args)->value} consulted before a call is resolved;
        opaque(name, args) -> value or raises Undecided, for functions outside the understood subset"""
        self.repo = repo
        self.hooks = hooks or {}
        self.opaque = opaque
        # global name -> python callable standing in for a function the evaluation does not follow; the standard-library helpers a codec may be
        # written with (struct, BytesIO, math) are always available -- they are pure functions of their arguments
        import math as _m
        import struct as _st
        self.externals = {"struct": Namespace(pack=_st.pack, unpack=lambda f_, b_: _st.unpack(f_, bytes(b_)), calcsize=_st.calcsize, Struct=_st.Struct, unpack_from=_st.unpack_from), "pack": _st.pack, "Struct": _st.Struct,
                          "unpack": lambda f_, b_: _st.unpack(f_, bytes(b_)), "BytesIO": lambda b_=b"": FileStandIn(bytes(b_)),
                          "math": Namespace(ceil=_m.ceil, floor=_m.floor, log=_m.log, log2=_m.log2, sqrt=_m.sqrt), "ceil": _m.ceil, "floor": _m.floor,
                          "hashlib": Namespace(sha256=_hl.sha256, sha1=_hl.sha1, sha512=_hl.sha512, new=_hl.new, pbkdf2_hmac=_hl.pbkdf2_hmac),
                          "hmac": Namespace(new=_hm.new, compare_digest=_hm.compare_digest, digest=_hm.digest, HMAC=_hm.HMAC),
                          "itertools": Namespace(accumulate=_lz(_it.accumulate), chain=_lz(_it.chain), combinations=_lz(_it.combinations), permutations=_lz(_it.permutations),
                                                 product=_lz(_it.product), islice=_lz(_it.islice), zip_longest=_lz(_it.zip_longest), repeat=_it.repeat, count=_it.count,
                                                 takewhile=_lz(_it.takewhile), dropwhile=_lz(_it.dropwhile), starmap=_lz(_it.starmap)),
                          "accumulate": _lz(_it.accumulate), "chain": _lz(_it.chain), "combinations": _lz(_it.combinations), "permutations": _lz(_it.permutations),
                          "product": _lz(_it.product), "islice": _lz(_it.islice), "zip_longest": _lz(_it.zip_longest), "count": _it.count, "repeat": _it.repeat,
                          "takewhile": _lz(_it.takewhile), "dropwhile": _lz(_it.dropwhile), "starmap": _lz(_it.starmap),
                          "a2b_base64": _ba.a2b_base64, "b2a_base64": _ba.b2a_base64, "hexlify": _ba.hexlify, "unhexlify": _ba.unhexlify,
                          "b64encode": _b64.b64encode, "b64decode": _b64.b64decode,
                          "binascii": Namespace(a2b_base64=_ba.a2b_base64, b2a_base64=_ba.b2a_base64, hexlify=_ba.hexlify, unhexlify=_ba.unhexlify),
                          "base64": Namespace(b64encode=_b64.b64encode, b64decode=_b64.b64decode),
                          "defaultdict": _co.defaultdict, "OrderedDict": _co.OrderedDict, "collections": Namespace(defaultdict=_co.defaultdict, OrderedDict=_co.OrderedDict),
                          "functools": Namespace(reduce=_ft.reduce, partial=_ft.partial, lru_cache=("ident",), cache=("ident",)), "reduce": _ft.reduce, "partial": _ft.partial,
                          "lru_cache": ("ident",), "cache": ("ident",), "sys": Namespace(byteorder=__import__("sys").byteorder, maxsize=__import__("sys").maxsize),
                          "operator": _operator_ns(), "itemgetter": __import__("operator").itemgetter,
                          "re": Namespace(compile=_re.compile, match=_re.match, fullmatch=_re.fullmatch, search=_re.search, findall=_re.findall, sub=_re.sub, split=_re.split,
                                          IGNORECASE=_re.IGNORECASE, I=_re.I)}
        self.externals.update(externals or {})
        self.method_hooks = method_hooks or {}  # (class name, method name) -> python callable(args) standing in for the method
        self.steps = 0
        self.max_steps = max_steps
        self.calls = 0
        self._const_stack = set()
        self._const_cache = {}
        self._yield_stack = []
        self._gens, self._gen_by_thread, self._depth = [], {}, 0
        self._class_objects = {}
        self.class_attrs = {}

    # -- entry points -----------------------------------------------------------------------
    def call(self, spec, args, self_obj=None, kwargs=None):
        mod, fn = self.repo.func(spec)
        cls = spec.split(":")[1].rsplit(".", 1)[0] if "." in spec.split(":")[1] else None
        self._depth += 1
        try:
            r = self._invoke(mod, fn, cls, list(args), dict(kwargs or {}), self_obj)
            if self._depth == 1 and isinstance(r, _LazyGen):
                r = list(r)     # a generator handed to the rule: its elements
            return r
        finally:
            self._depth -= 1
            if self._depth == 0:
                for g in self._gens:    # generators the evaluated call left unfinished
                    g.close()
                self._gens = []

    def _invoke(self, mod, fn, cls, args, kwargs, bound):
        self.calls += 1
        if self.calls > 5000:
            raise Undecided("call budget exhausted")
        env = {}
        decs = decorators(fn)
        if cls is not None and "staticmethod" not in decs:
            if bound is None:
                raise Undecided("unbound call of %s.%s" % (cls, fn.name))
            args = [bound] + args
        a = fn.args
        ps = [x.arg for x in a.posonlyargs + a.args]           # positional parameters
        kwonly = [x.arg for x in a.kwonlyargs]
        defaults = dict(zip(ps[len(ps) - len(a.defaults):], a.defaults)) if a.defaults else {}
        if len(args) > len(ps):
            if a.vararg is None:
                raise Undecided("too many arguments for %s" % fn.name)
            env[a.vararg.arg] = tuple(args[len(ps):])
            args = args[:len(ps)]
        elif a.vararg is not None:
            env[a.vararg.arg] = ()
        for p, v in zip(ps, args):
            env[p] = v
        extra = {}
        for k, v in kwargs.items():
            if k in ps or k in kwonly:
                if k in env:
                    raise Raised("TypeError")   # the same parameter given twice
                env[k] = v
            elif a.kwarg is not None:
                extra[k] = v
            else:
                raise Undecided("unknown keyword %s for %s" % (k, fn.name))
        if a.kwarg is not None:
            env[a.kwarg.arg] = extra
        for p in ps:
            if p not in env:
                if p in defaults:
                    env[p] = self._expr(defaults[p], {}, mod, cls)
                else:
                    raise Undecided("missing argument %s of %s" % (p, fn.name))
        for ko, kd in zip(a.kwonlyargs, a.kw_defaults):
            if ko.arg not in env:
                if kd is None:
                    raise Undecided("missing keyword-only argument")
                env[ko.arg] = self._expr(kd, {}, mod, cls)
        if any(isinstance(x, (ast.Yield, ast.YieldFrom)) for x in ast.walk(fn)):
            # a generator function: evaluated lazily (see _LazyGen)
            return _LazyGen(self, lambda: self._block(fn.body, env, mod, cls))
        try:
            self._block(fn.body, env, mod, cls)
        except _Return as r:
            return r.v
        return None

    # -- statements -------------------------------------------------------------------------
    def _block(self, stmts, env, mod, cls):
        for s in stmts:
            self._stmt(s, env, mod, cls)

    def _stmt(self, s, env, mod, cls):
        self.steps += 1
        if self.steps > self.max_steps:
            raise Undecided("step budget exhausted")
        if isinstance(s, ast.Expr):
            if isinstance(s.value, ast.Constant):
                return
            self._expr(s.value, env, mod, cls)
        elif isinstance(s, ast.Assign):
            v = self._expr(s.value, env, mod, cls)
            for t in s.targets:
                self._store(t, v, env, mod, cls)
        elif isinstance(s, ast.AnnAssign):
            if s.value is not None:
                self._store(s.target, self._expr(s.value, env, mod, cls), env, mod, cls)
        elif isinstance(s, ast.AugAssign):
            cur = self._expr(_load(s.target), env, mod, cls)
            v = self._expr(s.value, env, mod, cls)
            if type(s.op) not in _BIN:
                raise Undecided("operator %s" % type(s.op).__name__)
            self._store(s.target, self._binop(type(s.op), cur, v), env, mod, cls)
        elif isinstance(s, ast.If):
            self._block(s.body if self._truth(self._expr(s.test, env, mod, cls)) else s.orelse, env, mod, cls)
        elif isinstance(s, ast.Return):
            raise _Return(self._expr(s.value, env, mod, cls) if s.value is not None else None)
        elif isinstance(s, ast.Raise):
            nm = "Exception"
            e = s.exc
            if isinstance(e, ast.Call):
                e = e.func
            if isinstance(e, ast.Name):
                nm = e.id
            elif isinstance(e, ast.Attribute):
                nm = e.attr
            raise Raised(nm, s)
        elif isinstance(s, ast.Pass):
            return
        elif isinstance(s, ast.Delete):
            for t in s.targets:
                if isinstance(t, ast.Name):
                    env.pop(t.id, None)
                elif isinstance(t, ast.Subscript):
                    o = self._expr(t.value, env, mod, cls)
                    if not isinstance(o, (list, dict)):
                        raise Undecided("del on %s" % type(o).__name__)
                    if isinstance(t.slice, ast.Slice):
                        lo = self._expr(t.slice.lower, env, mod, cls) if t.slice.lower is not None else None
                        hi = self._expr(t.slice.upper, env, mod, cls) if t.slice.upper is not None else None
                        del o[lo:hi]
                    else:
                        try:
                            del o[self._expr(t.slice, env, mod, cls)]
                        except (IndexError, KeyError):
                            raise Raised("IndexError", s)
                else:
                    raise Undecided("del target")
        elif isinstance(s, ast.For):
            it = self._expr(s.iter, env, mod, cls)
            if isinstance(it, FileStandIn):
                it = it.lines()
            if not isinstance(it, (list, tuple, range, bytes, str, dict, IterStandIn)) and not hasattr(it, "__next__"):
                raise Undecided("iteration over %s" % type(it).__name__)
            broke = False
            for x in (it if isinstance(it, IterStandIn) or hasattr(it, "__next__") else list(it)):
                self._store(s.target, x, env, mod, cls)
                try:
                    self._block(s.body, env, mod, cls)
                except _Break:
                    broke = True
                    break
                except _Continue:
                    continue
            if not broke:
                self._block(s.orelse, env, mod, cls)
        elif isinstance(s, ast.While):
            n = 0
            while self._truth(self._expr(s.test, env, mod, cls)):
                n += 1
                if n > 10000:
                    raise Undecided("loop bound")
                try:
                    self._block(s.body, env, mod, cls)
                except _Break:
                    break
                except _Continue:
                    continue
            else:
                self._block(s.orelse, env, mod, cls)
        elif isinstance(s, ast.Break):
            raise _Break()
        elif isinstance(s, ast.Continue):
            raise _Continue()
        elif isinstance(s, ast.Assert):
            if not self._truth(self._expr(s.test, env, mod, cls)):
                raise Raised("AssertionError", s)
        elif isinstance(s, ast.With):
            for it in s.items:
                v = self._expr(it.context_expr, env, mod, cls)
                if not isinstance(v, FileStandIn):
                    raise Undecided("with-statement over %s" % type(v).__name__)
                if it.optional_vars is not None:
                    self._store(it.optional_vars, v, env, mod, cls)
            self._block(s.body, env, mod, cls)
        elif isinstance(s, ast.Try):
            try:
                self._block(s.body, env, mod, cls)
            except Raised as r:
                for h in s.handlers:
                    names = []
                    if h.type is None:
                        names = None
                    else:
                        for t in (h.type.elts if isinstance(h.type, ast.Tuple) else [h.type]):
                            names.append(t.id if isinstance(t, ast.Name) else getattr(t, "attr", "?"))
                    if names is None or r.name in names or "Exception" in names or "BaseException" in names:
                        if h.name:
                            env[h.name] = Obj("builtins", r.name)
                        self._block(h.body, env, mod, cls)
                        break
                else:
                    raise
            else:
                self._block(s.orelse, env, mod, cls)
            finally:
                if s.finalbody:
                    self._block(s.finalbody, env, mod, cls)
        elif isinstance(s, ast.ImportFrom):
            mn = (s.module or "").split(".")[-1]
            for a in s.names:
                if mn in self.repo.modules or self.repo.alias(mn) in self.repo.modules:
                    m2 = self.repo.module(mn)
                    if a.name in m2.functions:
                        env[a.asname or a.name] = ("func", m2.name, a.name)
                    elif a.name in m2.classes:
                        env[a.asname or a.name] = ClassRef(m2.name, a.name)
        elif isinstance(s, (ast.Import, ast.Global, ast.Nonlocal)):
            return
        else:
            if isinstance(s, ast.FunctionDef) and not s.decorator_list and not any(isinstance(x, (ast.Nonlocal, ast.Global)) for x in ast.walk(s)):
                env[s.name] = ("closure", s, env, mod, cls)   # reads the enclosing names when it is called, as Python does
                return
            raise Undecided("statement %s (line %s)" % (type(s).__name__, getattr(s, "lineno", "?")))

    def _store(self, t, v, env, mod, cls):
        if isinstance(t, ast.Name):
            env[t.id] = v
        elif isinstance(t, (ast.Tuple, ast.List)):
            if hasattr(v, "__next__") or isinstance(v, (IterStandIn, range, dict, set)):
                v = list(v)   # unpacking consumes any iterable
            if not isinstance(v, (list, tuple, bytes, str)):
                raise Undecided("unpacking %s" % type(v).__name__)
            stars = [i for i, e in enumerate(t.elts) if isinstance(e, ast.Starred)]
            if stars:
                # a, *rest, z = v: the starred name takes the list of what the others leave
                i, after = stars[0], len(t.elts) - stars[0] - 1
                if len(stars) > 1:
                    raise Undecided("two starred targets")
                if len(v) < len(t.elts) - 1:
                    raise Raised("ValueError", t)
                v = list(v) if not isinstance(v, (bytes, str)) else [v[j:j + 1] if isinstance(v, str) else v[j] for j in range(len(v))]
                for e, x in zip(t.elts[:i], v[:i]):
                    self._store(e, x, env, mod, cls)
                self._store(t.elts[i].value, list(v[i:len(v) - after]), env, mod, cls)
                for e, x in zip(t.elts[i + 1:], v[len(v) - after:]):
                    self._store(e, x, env, mod, cls)
                return
            if len(v) != len(t.elts):
                raise Raised("ValueError", t)
            for e, x in zip(t.elts, v):
                self._store(e, x, env, mod, cls)
        elif isinstance(t, ast.Attribute):
            o = self._expr(t.value, env, mod, cls)
            if isinstance(o, ClassRef):
                # class-level state (tables a classmethod fills in): kept per evaluator, seen by the class and by its instances
                self.class_attrs[(self.repo.alias(o.mod), o.cls, t.attr)] = v
                return
            if not isinstance(o, Obj):
                raise Undecided("attribute store on %s" % type(o).__name__)
            o.attrs[t.attr] = v
        elif isinstance(t, ast.Subscript):
            o = self._expr(t.value, env, mod, cls)
            if isinstance(t.slice, ast.Slice):
                if not isinstance(o, list) or t.slice.step is not None:
                    raise Undecided("slice store")
                lo = self._expr(t.slice.lower, env, mod, cls) if t.slice.lower is not None else None
                hi = self._expr(t.slice.upper, env, mod, cls) if t.slice.upper is not None else None
                if not isinstance(v, (list, tuple)):
                    raise Undecided("slice store of %s" % type(v).__name__)
                o[lo:hi] = v
                return
            k = self._expr(t.slice, env, mod, cls)
            if not isinstance(o, (list, dict, bytearray)):
                raise Undecided("item store on %s" % type(o).__name__)
            try:
                o[k] = v
            except (IndexError, KeyError, TypeError):
                raise Raised("IndexError", t)
            except ValueError:
                raise Raised("ValueError", t)
        else:
            raise Undecided("store target %s" % type(t).__name__)

    # -- expressions ------------------------------------------------------------------------
    def _truth(self, v):
        if isinstance(v, Obj):
            r = self.repo.resolve_method(v.mod, v.cls, "__bool__") or self.repo.resolve_method(v.mod, v.cls, "__len__") if v.mod != "builtins" else None
            if r:
                for dunder in ("__bool__", "__len__"):
                    ok, res = self._obj_method(v, dunder, [])
                    if ok:
                        if isinstance(res, (Obj, ClassRef)):
                            raise Undecided("%s returned an object" % dunder)
                        return bool(res)
                raise Undecided("truth of an object with __bool__/__len__")
            return True
        if isinstance(v, (ClassRef, SuperRef)):
            return True
        return bool(v)

    _DUNDER = {ast.Add: "__add__", ast.Sub: "__sub__", ast.Mult: "__mul__", ast.FloorDiv: "__floordiv__", ast.Mod: "__mod__", ast.Pow: "__pow__", ast.Div: "__truediv__"}
    _RDUNDER = {ast.Add: "__radd__", ast.Sub: "__rsub__", ast.Mult: "__rmul__"}

    def _obj_method(self, o, name, args):
        for m2, c2 in self.repo.mro(o.mod, o.cls):
            if (c2, name) in self.method_hooks:
                return True, self.method_hooks[(c2, name)](o, *args)
            mm = self.repo.modules[m2]
            if c2 + "." + name in mm.functions:
                return True, self._invoke(mm, mm.functions[c2 + "." + name], c2, list(args), {}, o)
        return False, None

    def _binop(self, op, a, b):
        if isinstance(a, Obj) and a.mod != "builtins" and op in self._DUNDER:
            ok, r = self._obj_method(a, self._DUNDER[op], [b])
            if ok:
                return r
        if isinstance(b, Obj) and b.mod != "builtins" and op in self._RDUNDER:
            ok, r = self._obj_method(b, self._RDUNDER[op], [a])
            if ok:
                return r
        if isinstance(a, Obj) or isinstance(b, Obj) or op not in _BIN:
            raise Undecided("operator on objects")
        try:
            return _BIN[op](a, b)
        except ZeroDivisionError:
            raise Raised("ZeroDivisionError")
        except TypeError:
            raise Raised("TypeError")
        except (ValueError, OverflowError):
            raise Raised("ValueError")

    def _expr(self, e, env, mod, cls):
        self.steps += 1
        if self.steps > self.max_steps:
            raise Undecided("step budget exhausted")
        if isinstance(e, ast.Constant):
            return e.value
        if isinstance(e, ast.Name):
            if e.id in env:
                return env[e.id]
            if e.id in ("True", "False", "None"):
                return {"True": True, "False": False, "None": None}[e.id]
            if e.id in self.externals:
                x = self.externals[e.id]
                return x if isinstance(x, (Namespace, Obj)) or not callable(x) else ("pyfunc", x)   # data stand-ins (tables) are values
            if e.id in getattr(mod, "ext_imports", {}) and e.id not in mod.functions and e.id not in mod.constants:
                # a standard-library name imported under another local name (`from functools import lru_cache as _lru_cache`, `import struct as st`)
                em, orig = mod.ext_imports[e.id]
                x = self.externals.get(em.split(".")[0]) if orig is None else (
                    getattr(self.externals.get(em.split(".")[0]), orig, None) if isinstance(self.externals.get(em.split(".")[0]), Namespace) else None)
                if x is None and orig is not None:
                    x = self.externals.get(orig)
                if x is not None:
                    return x if isinstance(x, (Namespace, Obj)) or not callable(x) else ("pyfunc", x)
            if e.id == "__file__":
                return mod.path
            r = self.repo.resolve_name(mod.name, e.id)
            if r:
                m2 = self.repo.modules[r[0]]
                if r[1] in m2.classes:
                    return ClassRef(m2.name, r[1])
                if r[1] in m2.constants:
                    if (m2.name, r[1]) in self._const_cache:
                        return self._const_cache[(m2.name, r[1])]
                    v = Folder(self.repo, m2.name).fold(m2.constants[r[1]])
                    if isinstance(v, (list, dict, set, bytearray)) and not _has_unknown(v):
                        self._const_cache[(m2.name, r[1])] = v   # a mutable module-level object (a memo table): ONE object per evaluation, as in Python
                    if _has_unknown(v):
                        # not a literal (a table of classes / functions, a comprehension over repository functions): evaluate its
                        # defining expression in the scope of its module
                        key = (m2.name, r[1])
                        if key in self._const_cache:
                            return self._const_cache[key]   # one object per module-level name, as in Python
                        if key in self._const_stack:
                            raise Undecided("constant %s defined through itself" % e.id)
                        self._const_stack.add(key)
                        try:
                            v = self._expr(m2.constants[r[1]], {}, m2, None)
                        finally:
                            self._const_stack.discard(key)
                        self._const_cache[key] = v
                    return v
                if r[1] in m2.functions:
                    return ("func", m2.name, r[1])
            if e.id in _BUILTIN_TYPES:
                return _BUILTIN_TYPES[e.id]
            if e.id == "print":
                return ("noop",)  # diagnostics have no effect on the verdict
            if e.id in ("little_endian_to_int", "big_endian_to_int", "int_to_little_endian", "int_to_big_endian") and "helper" in self.repo.modules \
                    and e.id in self.repo.modules["helper"].functions:
                return ("func", "helper", e.id)  # the normal form spells int.from_bytes / to_bytes with the library helpers
            raise Undecided("name %s" % e.id)
        if isinstance(e, ast.BoolOp):
            v = None
            for x in e.values:
                v = self._expr(x, env, mod, cls)
                t = self._truth(v)
                if isinstance(e.op, ast.And) and not t:
                    return v
                if isinstance(e.op, ast.Or) and t:
                    return v
            return v
        if isinstance(e, ast.UnaryOp):
            v = self._expr(e.operand, env, mod, cls)
            if isinstance(e.op, ast.Not):
                return not self._truth(v)
            if isinstance(v, Obj):
                dunder = {ast.USub: "__neg__", ast.UAdd: "__pos__", ast.Invert: "__invert__"}.get(type(e.op))
                if dunder and v.mod != "builtins":
                    ok_, rv = self._obj_method(v, dunder, [])
                    if ok_:
                        return rv
                raise Undecided("unary operator on object")
            if isinstance(e.op, ast.USub):
                return -v
            if isinstance(e.op, ast.Invert):
                return ~v
            return +v
        if isinstance(e, ast.Compare):
            left = self._expr(e.left, env, mod, cls)
            for op, c in zip(e.ops, e.comparators):
                right = self._expr(c, env, mod, cls)
                if isinstance(left, Obj) or isinstance(right, Obj):
                    handled = False
                    if isinstance(op, (ast.Eq, ast.NotEq)) and isinstance(left, Obj) and left.mod != "builtins":
                        ok_, rv = self._obj_method(left, "__eq__" if isinstance(op, ast.Eq) else "__ne__", [right])
                        if not ok_ and isinstance(op, ast.NotEq):
                            ok_, rv = self._obj_method(left, "__eq__", [right])
                            rv = (not self._truth(rv)) if ok_ else rv
                        if ok_:
                            r = self._truth(rv)
                            handled = True
                    if handled:
                        pass
                    elif isinstance(op, (ast.Is, ast.IsNot)):
                        r = (left is right) == isinstance(op, ast.Is)
                    elif isinstance(op, (ast.In, ast.NotIn)) and isinstance(right, Obj) and right.mod != "builtins":
                        ok_, rv = self._obj_method(right, "__contains__", [left])
                        if not ok_:
                            raise Undecided("membership in an object without __contains__")
                        r = self._truth(rv) == isinstance(op, ast.In)
                    elif isinstance(op, (ast.In, ast.NotIn)) and not isinstance(right, Obj):
                        # membership as Python defines it: identity first, then the element's (or the candidate's) __eq__
                        found = False
                        for x in right:
                            if x is left:
                                found = True
                                break
                            for a_, b_ in ((x, left), (left, x)):
                                if isinstance(a_, Obj) and a_.mod != "builtins":
                                    ok_, rv = self._obj_method(a_, "__eq__", [b_])
                                    if ok_:
                                        found = self._truth(rv)
                                        break
                            if found:
                                break
                        r = found == isinstance(op, ast.In)
                    elif (left is None or right is None) and isinstance(op, (ast.Eq, ast.NotEq)):
                        r = isinstance(op, ast.NotEq)
                    else:
                        raise Undecided("comparison of objects")
                else:
                    try:
                        r = _CMP[type(op)](left, right)
                    except TypeError:
                        raise Raised("TypeError", e)
                if not r:
                    return False
                left = right
            return True
        if isinstance(e, ast.BinOp):
            lv, rv_ = self._expr(e.left, env, mod, cls), self._expr(e.right, env, mod, cls)
            if type(e.op) not in _BIN and not (isinstance(lv, Obj) or isinstance(rv_, Obj)):
                raise Undecided("operator %s" % type(e.op).__name__)
            return self._binop(type(e.op), lv, rv_)
        if isinstance(e, ast.IfExp):
            return self._expr(e.body if self._truth(self._expr(e.test, env, mod, cls)) else e.orelse, env, mod, cls)
        if isinstance(e, (ast.List, ast.Tuple, ast.Set)):
            out = []
            for x in e.elts:
                if isinstance(x, ast.Starred):
                    out.extend(self._expr(x.value, env, mod, cls))
                else:
                    out.append(self._expr(x, env, mod, cls))
            return out if isinstance(e, ast.List) else (tuple(out) if isinstance(e, ast.Tuple) else set(out))
        if isinstance(e, ast.Dict):
            d_ = {}
            for k, v in zip(e.keys, e.values):
                if k is None:   # {**other}: the entries of a mapping, in its order
                    m_ = self._expr(v, env, mod, cls)
                    if not isinstance(m_, dict):
                        raise Undecided("dict unpacking of %s" % type(m_).__name__)
                    d_.update(m_)
                else:
                    d_[self._expr(k, env, mod, cls)] = self._expr(v, env, mod, cls)
            return d_
        if isinstance(e, ast.Subscript):
            o = self._expr(e.value, env, mod, cls)
            if isinstance(e.slice, ast.Slice):
                lo = self._expr(e.slice.lower, env, mod, cls) if e.slice.lower is not None else None
                hi = self._expr(e.slice.upper, env, mod, cls) if e.slice.upper is not None else None
                st = self._expr(e.slice.step, env, mod, cls) if e.slice.step is not None else None
                if isinstance(o, Obj):
                    raise Undecided("slice of object")
                return o[lo:hi:st]
            k = self._expr(e.slice, env, mod, cls)
            if isinstance(o, Obj):
                if o.mod != "builtins":
                    ok_, rv = self._obj_method(o, "__getitem__", [k])
                    if ok_:
                        return rv
                raise Undecided("index of object")
            try:
                return o[k]
            except IndexError:
                raise Raised("IndexError", e)
            except KeyError:
                raise Raised("KeyError", e)
            except TypeError:
                raise Raised("TypeError", e)
        if isinstance(e, ast.Attribute):
            o = self._expr(e.value, env, mod, cls)
            if isinstance(o, Namespace):
                if not hasattr(o, e.attr):
                    raise Undecided("attribute %s of a module stand-in" % e.attr)
                v_ = getattr(o, e.attr)
                return ("pyfunc", v_) if callable(v_) else v_
            if isinstance(o, FileStandIn) and e.attr in ("read", "seek", "tell", "getvalue"):
                return ("pymethod", o, e.attr)
            if isinstance(o, Obj):
                if e.attr == "__class__" and o.mod != "builtins":
                    return ClassRef(o.mod, o.cls)
                if e.attr in o.attrs:
                    return o.attrs[e.attr]
                r = self.repo.resolve_method(o.mod, o.cls, e.attr) if o.mod != "builtins" else None
                if r:
                    return ("method", r[0], r[1], o)
                # class attribute
                for m2, c2 in (self.repo.mro(o.mod, o.cls) if o.mod != "builtins" else ()):
                    if (m2, c2, e.attr) in self.class_attrs:
                        return self.class_attrs[(m2, c2, e.attr)]
                    v = _class_const(self.repo, m2, c2, e.attr)
                    if v is not Unknown:
                        return v
                raise Raised("AttributeError", e)
            if isinstance(o, ClassRef):
                r = self.repo.resolve_method(o.mod, o.cls, e.attr)
                if r:
                    return ("method", r[0], r[1], o)
                for m2, c2 in self.repo.mro(o.mod, o.cls):
                    if (m2, c2, e.attr) in self.class_attrs:
                        return self.class_attrs[(m2, c2, e.attr)]
                    v = _class_const(self.repo, m2, c2, e.attr)
                    if v is not Unknown:
                        return v
                if e.attr in ("__name__", "__qualname__"):
                    return o.cls
                raise Undecided("class attribute %s.%s" % (o.cls, e.attr))
            if isinstance(o, SuperRef):
                mro = self.repo.mro(o.obj.mod if isinstance(o.obj, (Obj, ClassRef)) else o.mod, o.obj.cls if isinstance(o.obj, (Obj, ClassRef)) else o.cls)
                names = [c for _, c in mro]
                start = names.index(o.cls) + 1 if o.cls in names else 0
                for m2, c2 in mro[start:]:
                    mm = self.repo.modules[m2]
                    if c2 + "." + e.attr in mm.functions:
                        return ("method", mm, mm.functions[c2 + "." + e.attr], o.obj)
                if e.attr == "__init__":
                    return ("noop",)
                raise Undecided("super().%s" % e.attr)
            if isinstance(o, tuple) and o and o[0] in ("func", "method", "closure") and e.attr in ("cache_clear", "cache_info"):
                return ("noop",)   # the evaluator never memoises: clearing a memo of the evaluated program has nothing to clear
            if isinstance(o, type) and (o, e.attr) in ((int, "from_bytes"), (bytes, "fromhex"), (bytes, "join"), (str, "join"), (bytes, "maketrans"), (str, "maketrans")):
                return ("pyfunc", getattr(o, e.attr))
            for ty, ms in _PURE_METHODS.items():
                if isinstance(o, ty) and e.attr in ms:
                    return ("pymethod", o, e.attr)
            for ty, ms in _PURE_ATTRS.items():
                if isinstance(o, ty) and e.attr in ms:
                    return getattr(o, e.attr)
            if isinstance(o, tuple) and len(o) == 2 and o[0] == "pyfunc" and e.attr == "from_iterable" and hasattr(o[1], "from_iterable"):
                return ("pyfunc", o[1].from_iterable)
            if isinstance(o, set) and e.attr == "pop" and len(o) == 1:
                return ("pymethod", o, e.attr)  # the only element: no dependence on the set's internal order
            if o is None:
                raise Raised("AttributeError", e)  # None has none of the attributes the repository's code asks for
            raise Undecided("attribute %s of %s" % (e.attr, type(o).__name__))
        if isinstance(e, ast.Call):
            return self._call(e, env, mod, cls)
        if isinstance(e, ast.JoinedStr):
            out = ""
            for v in e.values:
                if isinstance(v, ast.Constant):
                    out += str(v.value)
                else:
                    x = self._expr(v.value, env, mod, cls)
                    if isinstance(x, Obj) or v.format_spec is not None or v.conversion != -1:
                        out += "?"
                    else:
                        out += str(x)
            return out
        if isinstance(e, ast.GeneratorExp):
            # a real (lazy) generator: elements are evaluated when something asks for them, as in Python -- next(g, default) stops at the first
            # match and never evaluates what follows it
            def lazy(gens, env2):
                if not gens:
                    yield self._expr(e.elt, env2, mod, cls)
                    return
                g = gens[0]
                it = self._expr(g.iter, env2, mod, cls)
                if not isinstance(it, (list, tuple, range, bytes, str, dict, set, IterStandIn)) and not hasattr(it, "__next__"):
                    raise Undecided("generator over %s" % type(it).__name__)
                for x in (it if isinstance(it, IterStandIn) or hasattr(it, "__next__") else list(it)):
                    env3 = dict(env2)
                    self._store(g.target, x, env3, mod, cls)
                    if all(self._truth(self._expr(c, env3, mod, cls)) for c in g.ifs):
                        yield from lazy(gens[1:], env3)
            return lazy(list(e.generators), dict(env))
        if isinstance(e, (ast.ListComp, ast.SetComp, ast.DictComp)):
            out = []

            def rec(gens, env2):
                if not gens:
                    if isinstance(e, ast.DictComp):
                        out.append((self._expr(e.key, env2, mod, cls), self._expr(e.value, env2, mod, cls)))
                    else:
                        out.append(self._expr(e.elt, env2, mod, cls))
                    return
                g = gens[0]
                it = self._expr(g.iter, env2, mod, cls)
                if not isinstance(it, (list, tuple, range, bytes, str, dict, set, IterStandIn)) and not hasattr(it, "__next__"):
                    raise Undecided("comprehension over %s" % type(it).__name__)
                for x in list(it):
                    env3 = dict(env2)
                    self._store(g.target, x, env3, mod, cls)
                    if all(self._truth(self._expr(c, env3, mod, cls)) for c in g.ifs):
                        rec(gens[1:], env3)
            rec(list(e.generators), dict(env))
            if isinstance(e, ast.DictComp):
                return dict(out)
            if isinstance(e, ast.SetComp):
                return set(out)
            return out
        if isinstance(e, ast.Yield):
            g_ = self._gen_by_thread.get(__import__("threading").get_ident())
            if g_ is None:
                raise Undecided("yield outside a generator function")
            g_.emit(self._expr(e.value, env, mod, cls) if e.value is not None else None)
            return None
        if isinstance(e, ast.YieldFrom):
            g_ = self._gen_by_thread.get(__import__("threading").get_ident())
            if g_ is None:
                raise Undecided("yield from outside a generator function")
            v_ = self._expr(e.value, env, mod, cls)
            if not isinstance(v_, (list, tuple, range)) and not hasattr(v_, "__next__"):
                raise Undecided("yield from %s" % type(v_).__name__)
            for x_ in v_:
                g_.emit(x_)
            return None
        if isinstance(e, ast.Lambda):
            fd = ast.FunctionDef(name="<lambda>", args=e.args, body=[ast.copy_location(ast.Return(value=e.body), e)], decorator_list=[], returns=None, type_comment=None)
            ast.copy_location(fd, e)
            if any(isinstance(x, (ast.Yield, ast.YieldFrom)) for x in ast.walk(e.body)):
                raise Undecided("lambda with yield")
            return ("closure", fd, env, mod, cls)
        raise Undecided("expression %s" % type(e).__name__)

    def _call(self, e, env, mod, cls):
        txt = ast.unparse(e)
        if txt in self.hooks:
            h = self.hooks[txt]
            return h() if callable(h) else h
        if any(isinstance(a, ast.Starred) for a in e.args):
            # f(a, *rest): the starred operand must evaluate to a list / tuple; the call is re-written with its elements as constants of the environment
            env = dict(env)
            new_args = []
            for i, a in enumerate(e.args):
                if isinstance(a, ast.Starred):
                    v = self._expr(a.value, env, mod, cls)
                    if not isinstance(v, (list, tuple)):
                        raise Undecided("star argument of %s" % type(v).__name__)
                    for j, x in enumerate(v):
                        nm = "__star_%d_%d__" % (i, j)
                        env[nm] = x
                        new_args.append(ast.copy_location(ast.Name(id=nm, ctx=ast.Load()), a))
                else:
                    new_args.append(a)
            e = ast.copy_location(ast.Call(func=e.func, args=new_args, keywords=e.keywords), e)
        if isinstance(e.func, ast.Name) and e.func.id == "super" and not e.args:
            me = env.get("self", env.get("cls"))
            if me is None or cls is None:
                raise Undecided("super() outside a method")
            return SuperRef(mod.name, cls, me)
        if isinstance(e.func, ast.Name) and e.func.id not in env:
            nm = e.func.id
            if nm == "isinstance" and len(e.args) == 2:
                v = self._expr(e.args[0], env, mod, cls)
                ty = self._expr(e.args[1], env, mod, cls)
                tys = ty if isinstance(ty, tuple) else (ty,)
                for t in tys:
                    if isinstance(t, ClassRef):
                        if isinstance(v, Obj) and v.mod != "builtins" and (t.mod, t.cls) in self.repo.mro(v.mod, v.cls):
                            return True
                        if isinstance(v, TaggedInt) and (t.mod, t.cls) in self.repo.mro(*v.tag):
                            return True
                    elif isinstance(t, type):
                        if not isinstance(v, (Obj, ClassRef)) and isinstance(v, t) and not (t is int and isinstance(v, bool) and False):
                            return True
                    else:
                        raise Undecided("isinstance against %r" % (t,))
                return False
            if nm == "iter" and len(e.args) == 1 and not e.keywords:
                v = self._expr(e.args[0], env, mod, cls)
                if isinstance(v, IterStandIn):
                    return v
                if not isinstance(v, (list, tuple)):
                    raise Undecided("iter() of %s" % type(v).__name__)
                return IterStandIn(v)
            if nm == "next" and len(e.args) in (1, 2) and not e.keywords:
                v = self._expr(e.args[0], env, mod, cls)
                if not isinstance(v, IterStandIn) and not hasattr(v, "__next__"):
                    raise Undecided("next() of %s" % type(v).__name__)
                try:
                    return next(v)
                except StopIteration:
                    if len(e.args) == 2:
                        return self._expr(e.args[1], env, mod, cls)
                    raise Raised("StopIteration", e)
            if nm == "type" and len(e.args) == 1 and not e.keywords:
                v = self._expr(e.args[0], env, mod, cls)
                if isinstance(v, Obj) and v.mod != "builtins":
                    # one ClassRef object per class, so that `type(a) is type(b)` compares classes
                    return self._class_objects.setdefault((v.mod, v.cls), ClassRef(v.mod, v.cls))
                if isinstance(v, (Obj, ClassRef, SuperRef)) or (isinstance(v, tuple) and v and v[0] in ("func", "pyfunc", "method", "pymethod")):
                    raise Undecided("type() of an object")
                return type(v)
            if nm == "vars" and len(e.args) == 1 and not e.keywords:
                v = self._expr(e.args[0], env, mod, cls)
                if isinstance(v, Obj) and v.mod != "builtins":
                    return v.attrs   # the object's own dictionary: changes to it are changes to the object
                raise Undecided("vars() of %s" % type(v).__name__)
            if nm == "setattr" and len(e.args) == 3:
                o = self._expr(e.args[0], env, mod, cls)
                an = self._expr(e.args[1], env, mod, cls)
                if not isinstance(an, str) or not isinstance(o, Obj) or o.mod == "builtins":
                    raise Undecided("setattr on %s" % type(o).__name__)
                o.attrs[an] = self._expr(e.args[2], env, mod, cls)
                return None
            if nm in ("getattr", "hasattr") and len(e.args) in (2, 3):
                o = self._expr(e.args[0], env, mod, cls)
                an = self._expr(e.args[1], env, mod, cls)
                if not isinstance(an, str):
                    raise Undecided("getattr with a non-string name")
                probe = ast.copy_location(ast.Attribute(value=ast.Constant(value=None), attr=an, ctx=ast.Load()), e)
                env2 = dict(env)
                env2["__recv__"] = o
                probe.value = ast.Name(id="__recv__", ctx=ast.Load())
                try:
                    v = self._expr(probe, env2, mod, cls)
                except Raised as x:
                    if x.name != "AttributeError":
                        raise
                    if nm == "hasattr":
                        return False
                    if len(e.args) == 3:
                        return self._expr(e.args[2], env, mod, cls)
                    raise
                return True if nm == "hasattr" else v
            if nm in ("len", "int", "bytes", "str", "bool", "list", "tuple", "sorted", "min", "max", "sum", "abs", "range", "reversed", "any", "all",
                      "enumerate", "zip", "hex", "ord", "chr", "divmod", "set", "bytearray", "dict", "pow", "bin", "oct", "round", "repr", "map", "filter", "frozenset", "float",
                      "callable", "id", "memoryview", "format", "ascii", "hash"):
                args = [self._expr(a, env, mod, cls) for a in e.args]
                kw = self._kwargs(e, env, mod, cls)
                for k_ in ("key",):
                    if k_ in kw and isinstance(kw[k_], tuple) and kw[k_] and kw[k_][0] in ("closure", "func", "method", "pyfunc", "pymethod"):
                        kw[k_] = (lambda fv: (lambda *a_: self._apply(fv, list(a_), {}, e)))(kw[k_])
                if nm in ("map", "filter") and args and isinstance(args[0], tuple) and args[0] and args[0][0] in ("closure", "func", "method", "pyfunc", "pymethod"):
                    args[0] = (lambda fv: (lambda *a_: self._apply(fv, list(a_), {}, e)))(args[0])
                elif nm in ("map", "filter") and args and isinstance(args[0], ClassRef):
                    raise Undecided("%s over a class" % nm)
                if nm in ("len", "bool") and len(args) == 1 and isinstance(args[0], Obj) and args[0].mod != "builtins":
                    ok, r = self._obj_method(args[0], "__len__" if nm == "len" else "__bool__", [])
                    if ok:
                        return r
                if nm in ("str", "repr") and len(args) == 1 and isinstance(args[0], Obj) and args[0].mod != "builtins":
                    for dunder in (("__str__", "__repr__") if nm == "str" else ("__repr__",)):
                        ok, r = self._obj_method(args[0], dunder, [])
                        if ok:
                            return r
                    raise Undecided("%s() of an object without __str__ / __repr__" % nm)
                if nm == "sum" and args and isinstance(args[0], (list, tuple)) and (any(isinstance(x, Obj) for x in args[0]) or any(isinstance(x, Obj) for x in args[1:])):
                    acc = args[1] if len(args) > 1 else 0
                    for x in args[0]:
                        acc = self._binop(ast.Add, acc, x)
                    return acc
                if any(isinstance(a, (Obj, ClassRef)) for a in args):
                    raise Undecided("%s() of an object" % nm)
                try:
                    r = getattr(__import__("builtins"), nm)(*args, **kw)
                except TypeError:
                    raise Raised("TypeError", e)
                except ValueError:
                    raise Raised("ValueError", e)
                except OverflowError:
                    raise Raised("OverflowError", e)
                if nm in ("reversed", "enumerate", "zip", "map", "filter"):
                    r = list(r)
                return r
        f = self._expr(e.func, env, mod, cls)
        args = [self._expr(a, env, mod, cls) for a in e.args]
        kw = self._kwargs(e, env, mod, cls)
        return self._apply(f, args, kw, e)

    def _kwargs(self, e, env, mod, cls):
        kw = {}
        for k in e.keywords:
            v = self._expr(k.value, env, mod, cls)
            if k.arg is None:
                # f(**d): a dictionary with string keys, as Python requires
                if not isinstance(v, dict) or not all(isinstance(x, str) for x in v):
                    raise Undecided("double-star argument of %s" % type(v).__name__)
                kw.update(v)
            else:
                kw[k.arg] = v
        return kw

    def _apply(self, f, args, kw, e):
        if isinstance(f, tuple) and f and f[0] == "noop":
            return None
        if isinstance(f, tuple) and f and f[0] == "ident":
            # functools.lru_cache / cache: a memo in front of a function of the evaluated program is the function itself (the evaluator never
            # memoises; that a memo is sound -- pure function, immutable values -- is the MEMO rule's obligation); lru_cache(maxsize=…) is the decorator
            if args and isinstance(args[0], tuple) and args[0] and args[0][0] in ("func", "method", "closure", "pyfunc", "pymethod"):
                return args[0]
            return ("ident",)
        if isinstance(f, tuple) and f and f[0] == "closure":
            _, fdef, outer, m3, c3 = f
            ps3 = param_names(fdef)
            if len(args) > len(ps3) or any(k_ not in ps3 for k_ in kw) or fdef.args.vararg or fdef.args.kwarg:
                raise Undecided("call of local function %s" % fdef.name)
            env3 = dict(outer)
            dflt = dict(zip(ps3[len(ps3) - len(fdef.args.defaults):], fdef.args.defaults)) if fdef.args.defaults else {}
            for p_, v_ in zip(ps3, args):
                env3[p_] = v_
            env3.update(kw)
            for p_ in ps3:
                if p_ not in env3 or (p_ in outer and p_ not in kw and ps3.index(p_) >= len(args)):
                    if p_ in dflt:
                        env3[p_] = self._expr(dflt[p_], outer, m3, c3)
                    elif ps3.index(p_) >= len(args) and p_ not in kw:
                        raise Undecided("missing argument %s of %s" % (p_, fdef.name))
            if any(isinstance(x, (ast.Yield, ast.YieldFrom)) for x in ast.walk(fdef)):
                return _LazyGen(self, lambda: self._block(fdef.body, env3, m3, c3))   # a local generator function
            try:
                self._block(fdef.body, env3, m3, c3)
            except _Return as r_:
                return r_.v
            return None
        if isinstance(f, _ft.partial):
            return f(*args, **kw)    # built by the evaluator (see below): its function calls back into the evaluator
        if isinstance(f, tuple) and f and f[0] == "pyfunc":
            # a function of the evaluated program handed to a library function (key=, accumulate(xs, f), re.sub(p, f, s)) is called back through the evaluator
            wrap = lambda v_: (lambda *a_, **k_: self._apply(v_, list(a_), k_, e)) if (isinstance(v_, tuple) and v_ and v_[0] in ("closure", "func", "method")) or (
                isinstance(v_, ClassRef) and f[1] is _ft.partial) else (v_[1] if isinstance(v_, tuple) and len(v_) == 2 and v_[0] == "pyfunc" else v_)
            if f[1] is _ft.partial and args and isinstance(args[0], ClassRef):
                args = [wrap(args[0])] + list(args[1:])      # partial(Class, …): the class is called through the evaluator when the partial is
                return _ft.partial(*args, **kw)
            if any(isinstance(a, (Obj, ClassRef)) for a in args) and f[1] not in self.externals.values():
                raise Undecided("builtin on object")
            args = [wrap(a_) for a_ in args]
            kw = {k_: wrap(v_) for k_, v_ in kw.items()}
            try:
                return f[1](*args, **kw)
            except (ValueError, TypeError, OverflowError) as x:
                raise Raised(type(x).__name__, e)
            except Exception as x:
                if type(x).__name__ == "error":  # struct.error
                    raise Raised("error", e)
                raise
        if isinstance(f, tuple) and f and f[0] == "pymethod":
            wrap = lambda v_: (lambda *a_: self._apply(v_, list(a_), {}, e)) if isinstance(v_, tuple) and v_ and v_[0] in ("closure", "func", "method") else (
                v_[1] if isinstance(v_, tuple) and len(v_) == 2 and v_[0] == "pyfunc" else v_)
            args = [wrap(a_) for a_ in args]
            kw = {k_: wrap(v_) for k_, v_ in kw.items()}
            try:
                r_ = getattr(f[1], f[2])(*args, **kw)
                if isinstance(f[1], dict) and f[2] in ("keys", "values", "items"):
                    r_ = list(r_)  # a snapshot of the view, in insertion order
                return r_
            except (ValueError, TypeError, IndexError, KeyError, UnicodeError, OverflowError) as x:
                raise Raised(type(x).__name__, e)
        if isinstance(f, tuple) and f and f[0] == "method":
            _, m2, fn2, bound = f
            qn = _qual(m2, fn2)
            if tuple(qn.split(".", 1)) in self.method_hooks:
                return self.method_hooks[tuple(qn.split(".", 1))](bound, *args, **kw)
            if self.method_hooks and isinstance(bound, (Obj, ClassRef)) and bound.mod in self.repo.modules:
                # a stand-in registered for the receiver's class (or one between it and the defining class) covers an inherited method
                for _, c3 in self.repo.mro(bound.mod, bound.cls):
                    if (c3, fn2.name) in self.method_hooks:
                        return self.method_hooks[(c3, fn2.name)](bound, *args, **kw)
            c2 = qn.rsplit(".", 1)[0] if "." in qn else None
            decs = decorators(fn2)
            if "property" in decs:
                raise Undecided("call of a property")
            if "staticmethod" in decs:
                return self._invoke(m2, fn2, c2, args, kw, None)
            if "classmethod" in decs:
                b = bound if isinstance(bound, ClassRef) else ClassRef(bound.mod, bound.cls)
                return self._invoke(m2, fn2, c2, args, kw, b)
            if isinstance(bound, ClassRef):
                # Class.method(obj, ...) explicit self
                if not args:
                    raise Undecided("unbound method call")
                return self._invoke(m2, fn2, c2, args[1:], kw, args[0])
            return self._invoke(m2, fn2, c2, args, kw, bound)
        if isinstance(f, tuple) and f and f[0] == "func":
            m2 = self.repo.modules[f[1]]
            if self.opaque is not None:
                r = self.opaque(f[2], args, kw)
                if r is not NotImplemented:
                    return r
            return self._invoke(m2, m2.functions[f[2]], None, args, kw, None)
        if isinstance(f, ClassRef):
            o = Obj(f.mod, f.cls)
            r = self.repo.resolve_method(f.mod, f.cls, "__init__")
            hooked = next(((c2, "__init__") for _, c2 in self.repo.mro(f.mod, f.cls) if (c2, "__init__") in self.method_hooks), None)
            if hooked:
                self.method_hooks[hooked](o, *args, **kw)
            elif r:
                qn = _qual(r[0], r[1])
                self._invoke(r[0], r[1], qn.rsplit(".", 1)[0], args, kw, o)
            elif args or kw:
                # no __init__ of its own in the repository: a namedtuple base supplies the fields; any other outside base is not modelled
                cnode = self.repo.modules[f.mod].classes.get(f.cls)
                fields = None
                outside = False
                for b in (cnode.bases if cnode is not None else []):
                    if isinstance(b, ast.Call) and isinstance(b.func, ast.Name) and b.func.id == "namedtuple" and len(b.args) == 2:
                        fv = Folder(self.repo, f.mod).fold(b.args[1])
                        if isinstance(fv, str):
                            fv = fv.replace(",", " ").split()
                        if isinstance(fv, (list, tuple)) and all(isinstance(x, str) for x in fv):
                            fields = list(fv)
                    elif not (isinstance(b, ast.Name) and (b.id == "object" or self.repo.resolve_name(f.mod, b.id))):
                        outside = True
                if fields is not None and len(args) + len(kw) == len(fields) and all(k in fields for k in kw):
                    for name_, v_ in zip(fields, args):
                        o.attrs[name_] = v_
                    o.attrs.update(kw)
                    return o
                if outside or fields is not None:
                    raise Undecided("constructor of %s comes from outside the repository" % f.cls)
                raise Raised("TypeError", e)
            return o
        if isinstance(f, type):
            if any(isinstance(a, (Obj, ClassRef)) for a in args):
                raise Undecided("builtin constructor on object")
            try:
                return f(*args, **kw)
            except (ValueError, TypeError, OverflowError) as x:
                raise Raised(type(x).__name__, e)
        raise Undecided("call of %s" % ast.unparse(e.func))


def _has_unknown(v, depth=0):
    if v is Unknown:
        return True
    if depth > 6:
        return False
    if isinstance(v, dict):
        return any(_has_unknown(k, depth + 1) or _has_unknown(x, depth + 1) for k, x in v.items())
    if isinstance(v, (list, tuple, set, frozenset)):
        return any(_has_unknown(x, depth + 1) for x in v)
    return False


def _qual(mod, fn):
    for qn, f in mod.functions.items():
        if f is fn:
            return qn
    return fn.name


def _class_const(repo, modname, clsname, attr):
    m = repo.modules[modname]
    c = m.classes.get(clsname)
    if c is None:
        return Unknown
    for st in c.body:
        if isinstance(st, ast.Assign) and len(st.targets) == 1 and isinstance(st.targets[0], ast.Name) and st.targets[0].id == attr:
            return Folder(repo, modname).fold(st.value)
    return Unknown


def _load(t):
    import copy
    t2 = copy.deepcopy(t)
    for n in ast.walk(t2):
        if hasattr(n, "ctx"):
            n.ctx = ast.Load()
    return t2
