"""Statement-level control-flow graph for the statement kinds the repository uses.

Branch conditions are decomposed into *atomic* tests (short-circuit `and`/`or`/`not` become edges),
so that a guard such as `if len(x) < 2 or len(x) > 40: raise` yields two test nodes.
"""
import ast
from collections import deque

from .loader import AnalysisError


class Node:
    __slots__ = ("id", "kind", "ast", "lineno", "stmt", "loops", "tries")

    def __init__(self, id, kind, node=None, stmt=None):
        self.id = id
        self.kind = kind  # entry | stmt | test | for | with | return | raise | join | exit_return | exit_raise
        self.ast = node  # statement, or test expression for kind == 'test', iter stmt for 'for'
        self.stmt = stmt  # enclosing statement (If/While/Assert for tests)
        self.lineno = getattr(node, "lineno", None) or getattr(stmt, "lineno", 0)
        self.loops = ()  # ids of enclosing loop heads, innermost last
        self.tries = ()

    def __repr__(self):
        return "<%d %s L%s>" % (self.id, self.kind, self.lineno)


class Loop:
    def __init__(self, head, stmt):
        self.head = head  # join node id at loop top
        self.stmt = stmt
        self.body = set()  # node ids in body (incl. tests of a while header)
        self.test_nodes = []  # header test nodes for while; the 'for' node for for
        self.body_entry = []  # [(node, label)] edges entering the body
        self.exit_edges = []  # [(node, label)] edges leaving through test false / done
        self.breaks = []  # break join nodes


class CFG:
    def __init__(self, fn):
        self.fn = fn
        self.nodes = []
        self.succ = {}
        self.pred = {}
        self.loops = {}  # head id -> Loop
        self.entry = self._new("entry").id
        self.exit_return = self._new("exit_return").id
        self.exit_raise = self._new("exit_raise").id
        self._loop_stack = []
        self._try_stack = []  # list of (handlers: [(join_id, types)], catch_all)
        out = self._stmts(fn.body, [(self.entry, None)])
        if out:
            # fall off the end: return None
            n = self._new("return", None)
            n.lineno = getattr(fn.body[-1], "end_lineno", fn.lineno)
            self._link(out, n.id)
            self._edge(n.id, self.exit_return, None)
        self.falloff = n.id if out else None

    # -- construction ---------------------------------------------------------------------
    def _new(self, kind, node=None, stmt=None):
        n = Node(len(self.nodes), kind, node, stmt)
        if hasattr(self, "_loop_stack"):
            n.loops = tuple(self._loop_stack)
            n.tries = tuple(range(len(self._try_stack)))
        self.nodes.append(n)
        self.succ[n.id] = []
        self.pred[n.id] = []
        for h in n.loops:
            self.loops[h].body.add(n.id)
        return n

    def _edge(self, a, b, label):
        self.succ[a].append((b, label))
        self.pred[b].append((a, label))

    def _link(self, preds, b):
        for a, label in preds:
            self._edge(a, b, label)

    _BUILTIN_BASES = {
        "KeyError": ("LookupError",), "IndexError": ("LookupError",), "UnicodeDecodeError": ("UnicodeError", "ValueError"),
        "UnicodeError": ("ValueError",), "OverflowError": ("ArithmeticError",), "ZeroDivisionError": ("ArithmeticError",),
        "NotImplementedError": ("RuntimeError",), "FileNotFoundError": ("OSError",), "ConnectionError": ("OSError",),
    }

    def _catches(self, types, raised):
        """True / False / None(maybe)."""
        if types is None or {"Exception", "BaseException"} & set(types):
            return True
        if raised is None:
            return None
        if raised in types or set(self._BUILTIN_BASES.get(raised, ())) & set(types):
            return True
        return False

    def _exc_targets(self, raised=None):
        """Where an exception raised at the current position may go: list of node ids
        (handler join nodes, possibly followed by exit_raise when it may escape)."""
        targets = []
        for handlers, _ in reversed(self._try_stack):
            for join_id, types in handlers:
                c = self._catches(types, raised)
                if c is True:
                    targets.append(join_id)
                    return targets
                if c is None:
                    targets.append(join_id)
        targets.append(self.exit_raise)
        return targets

    def _stmts(self, body, preds):
        for st in body:
            preds = self._stmt(st, preds)
        return preds

    def _simple(self, st, preds, kind="stmt"):
        n = self._new(kind, st)
        self._link(preds, n.id)
        if self._try_stack and kind in ("stmt", "for", "with", "test"):
            for t in self._exc_targets(None):
                if t != self.exit_raise:
                    self._edge(n.id, t, "exc")
        return n

    def _stmt(self, st, preds):
        if isinstance(st, (ast.Assign, ast.AugAssign, ast.AnnAssign, ast.Expr, ast.Delete, ast.Pass, ast.Import,
                           ast.ImportFrom, ast.Global, ast.Nonlocal, ast.FunctionDef, ast.ClassDef)):
            n = self._simple(st, preds)
            return [(n.id, None)]
        if isinstance(st, ast.Return):
            n = self._new("return", st)
            self._link(preds, n.id)
            if self._try_stack and st.value is not None and any(isinstance(x, ast.Call) for x in ast.walk(st.value)):
                for t in self._exc_targets(None):
                    if t != self.exit_raise:
                        self._edge(n.id, t, "exc")
            self._edge(n.id, self.exit_return, None)
            return []
        if isinstance(st, ast.Raise):
            n = self._new("raise", st)
            self._link(preds, n.id)
            raised = None
            exc = st.exc
            if isinstance(exc, ast.Call):
                exc = exc.func
            if isinstance(exc, ast.Name):
                raised = exc.id
            for t in self._exc_targets(raised):
                self._edge(n.id, t, "exc" if t != self.exit_raise else None)
            return []
        if isinstance(st, ast.If):
            t, f = self._cond(st.test, preds, st)
            out = self._stmts(st.body, t)
            out2 = self._stmts(st.orelse, f) if st.orelse else f
            return out + out2
        if isinstance(st, ast.Assert):
            t, f = self._cond(st.test, preds, st)
            if f:
                n = self._new("raise", st)
                self._link(f, n.id)
                for tg in self._exc_targets("AssertionError"):
                    self._edge(n.id, tg, "exc" if tg != self.exit_raise else None)
            return t
        if isinstance(st, ast.While):
            head = self._new("join", None, st)
            self._link(preds, head.id)
            loop = Loop(head.id, st)
            self.loops[head.id] = loop
            self._loop_stack.append(head.id)
            before = len(self.nodes)
            t, f = self._cond(st.test, [(head.id, None)], st)
            loop.test_nodes = [n.id for n in self.nodes[before:] if n.kind == "test"]
            loop.body_entry = list(t)
            loop.exit_edges = list(f)
            loop._continues = []
            out = self._stmts(st.body, t)
            self._link(out, head.id)
            self._loop_stack.pop()
            brk = [(b, None) for b in loop.breaks]
            if st.orelse:
                f = self._stmts(st.orelse, f)
            return f + brk
        if isinstance(st, ast.For):
            head = self._new("join", None, st)
            self._link(preds, head.id)
            loop = Loop(head.id, st)
            self.loops[head.id] = loop
            self._loop_stack.append(head.id)
            fn = self._simple(st, [(head.id, None)], "for")
            loop.test_nodes = [fn.id]
            loop.body_entry = [(fn.id, "iter")]
            loop.exit_edges = [(fn.id, "done")]
            out = self._stmts(st.body, [(fn.id, "iter")])
            self._link(out, head.id)
            self._loop_stack.pop()
            f = [(fn.id, "done")]
            if st.orelse:
                f = self._stmts(st.orelse, f)
            return f + [(b, None) for b in loop.breaks]
        if isinstance(st, ast.Break):
            n = self._new("join", st)
            self._link(preds, n.id)
            if not self._loop_stack:
                raise AnalysisError("break outside loop")
            self.loops[self._loop_stack[-1]].breaks.append(n.id)
            return []
        if isinstance(st, ast.Continue):
            n = self._new("join", st)
            self._link(preds, n.id)
            self._edge(n.id, self._loop_stack[-1], None)
            return []
        if isinstance(st, ast.With):
            n = self._simple(st, preds, "with")
            return self._stmts(st.body, [(n.id, None)])
        if isinstance(st, ast.Try):
            if st.finalbody:
                raise AnalysisError("try/finally not modelled (line %d)" % st.lineno)
            handlers = []
            catch_all = False
            for h in st.handlers:
                j = self._new("join", None, h)
                j.lineno = h.lineno
                if h.type is None:
                    types = None
                    catch_all = True
                else:
                    ts = h.type.elts if isinstance(h.type, ast.Tuple) else [h.type]
                    types = [t.id if isinstance(t, ast.Name) else (t.attr if isinstance(t, ast.Attribute) else "?") for t in ts]
                    if {"Exception", "BaseException"} & set(types):
                        catch_all = True
                handlers.append((j.id, types))
            self._try_stack.append((handlers, catch_all))
            out = self._stmts(st.body, preds)
            self._try_stack.pop()
            if st.orelse:
                out = self._stmts(st.orelse, out)
            for (j, _), h in zip(handlers, st.handlers):
                out = out + self._stmts(h.body, [(j, None)])
            return out
        raise AnalysisError("statement kind %s not modelled (line %d)" % (type(st).__name__, st.lineno))

    def _cond(self, test, preds, stmt):
        if isinstance(test, ast.BoolOp):
            if isinstance(test.op, ast.And):
                t, falses = preds, []
                for v in test.values:
                    t, f = self._cond(v, t, stmt)
                    falses += f
                return t, falses
            f, trues = preds, []
            for v in test.values:
                t, f = self._cond(v, f, stmt)
                trues += t
            return trues, f
        if isinstance(test, ast.UnaryOp) and isinstance(test.op, ast.Not):
            t, f = self._cond(test.operand, preds, stmt)
            return f, t
        if isinstance(test, ast.Constant):
            return (preds, []) if test.value else ([], preds)
        n = self._new("test", test, stmt)
        self._link(preds, n.id)
        if self._try_stack and any(isinstance(x, (ast.Call, ast.Subscript)) for x in ast.walk(test)):
            for t in self._exc_targets(None):
                if t != self.exit_raise:
                    self._edge(n.id, t, "exc")
        return [(n.id, True)], [(n.id, False)]

    # -- queries --------------------------------------------------------------------------
    def reach(self, sources, removed=frozenset(), blocked=frozenset(), within=None):
        """Forward reachable node ids from `sources` not using edges in `removed`
        ({(src, label)} or {(src, dst, label)}) nor entering `blocked` nodes."""
        seen = set()
        dq = deque(s for s in sources if s not in blocked)
        seen.update(dq)
        while dq:
            a = dq.popleft()
            for b, label in self.succ[a]:
                if (a, label) in removed or (a, b, label) in removed:
                    continue
                if b in blocked or b in seen:
                    continue
                if within is not None and b not in within:
                    continue
                seen.add(b)
                dq.append(b)
        return seen

    def back_reach(self, targets, removed=frozenset(), blocked=frozenset()):
        seen = set(targets)
        dq = deque(targets)
        while dq:
            b = dq.popleft()
            for a, label in self.pred[b]:
                if (a, label) in removed or (a, b, label) in removed or a in blocked or a in seen:
                    continue
                seen.add(a)
                dq.append(a)
        return seen

    def path(self, sources, targets, removed=frozenset(), blocked=frozenset()):
        """Shortest path (list of (node, label-taken)) from a source to a target, or None."""
        targets = set(targets)
        prev = {}
        dq = deque()
        for s in sources:
            if s in blocked:
                continue
            prev[s] = None
            dq.append(s)
        while dq:
            a = dq.popleft()
            if a in targets:
                out = []
                cur = a
                lab = None
                while cur is not None:
                    out.append((cur, lab))
                    p = prev[cur]
                    if p is None:
                        break
                    cur, lab = p
                out.reverse()
                # shift labels so each entry carries the label taken when leaving that node
                res = []
                for i, (nid, _) in enumerate(out):
                    nxt = out[i + 1][1] if i + 1 < len(out) else None
                    res.append((nid, nxt))
                return res
            for b, label in self.succ[a]:
                if (a, label) in removed or (a, b, label) in removed or b in blocked or b in prev:
                    continue
                prev[b] = (a, label)
                dq.append(b)
        return None

    def fmt_path(self, path, mod=None, limit=14):
        parts = []
        for nid, lab in path:
            n = self.nodes[nid]
            if n.kind in ("join", "entry"):
                continue
            if n.kind in ("exit_return", "exit_raise"):
                parts.append(n.kind)
                continue
            txt = ""
            if n.ast is not None:
                try:
                    txt = ast.unparse(n.ast.target if n.kind == "for" else n.ast).split("\n")[0][:60]
                except Exception:
                    txt = ""
            elif n.kind == "return":
                txt = "<fall off end>"
            parts.append("L%s %s%s" % (n.lineno, txt, "" if lab is None else " [%s]" % lab))
        if len(parts) > limit:
            parts = parts[: limit // 2] + ["…"] + parts[-limit // 2:]
        return " -> ".join(parts)

    def tests(self):
        return [n for n in self.nodes if n.kind == "test"]

    def stmts(self, kinds=("stmt", "return", "raise", "for", "with")):
        return [n for n in self.nodes if n.kind in kinds]

    def returns(self):
        return [n for n in self.nodes if n.kind == "return"]

    def can_return_from(self, nid, removed=frozenset(), ok_return=None):
        """True when some path from node `nid` reaches a return (satisfying ok_return(node) if given)."""
        r = self.reach([nid], removed)
        for x in r:
            n = self.nodes[x]
            if n.kind == "return" and (ok_return is None or ok_return(n)):
                return True
        return False

    def edge_target(self, nid, label):
        return [b for b, l in self.succ[nid] if l == label]

    def dominators(self):
        """node -> set of dominators (iterative; graphs are small)."""
        order = list(self.reach([self.entry]))
        full = set(order)
        dom = {n: set(full) for n in order}
        dom[self.entry] = {self.entry}
        changed = True
        while changed:
            changed = False
            for n in order:
                if n == self.entry:
                    continue
                ps = [p for p, _ in self.pred[n] if p in dom]
                new = set.intersection(*(dom[p] for p in ps)) if ps else set()
                new = new | {n}
                if new != dom[n]:
                    dom[n] = new
                    changed = True
        return dom


_cache = {}


def cfg_of(fn):
    key = id(fn)
    if key not in _cache:
        _cache[key] = (fn, CFG(fn))
    return _cache[key][1]


def is_false_const(expr):
    return isinstance(expr, ast.Constant) and (expr.value is False or expr.value is None)


def returns_failure(node):
    """A return node whose value is literally False / None (or bare)."""
    if node.kind != "return":
        return False
    if node.ast is None or node.ast.value is None:
        return True
    return is_false_const(node.ast.value)


# -- lightweight path sensitivity ------------------------------------------------------------------
# Reachability in the product of the CFG with the truth values of *pure* atomic predicates
# (comparisons / attribute tests over names, attributes and constants only).  Two tests with the
# same canonical predicate must agree along a path unless a statement in between may change an
# operand.  This removes syntactically present but contradictory paths such as
# `x == y` false followed by `x != y` false.

_CMP_NEG = {ast.Eq: ast.NotEq, ast.NotEq: ast.Eq, ast.Lt: ast.GtE, ast.GtE: ast.Lt, ast.Gt: ast.LtE, ast.LtE: ast.Gt,
            ast.Is: ast.IsNot, ast.IsNot: ast.Is, ast.In: ast.NotIn, ast.NotIn: ast.In}
_CMP_SWAP = {ast.Lt: ast.Gt, ast.Gt: ast.Lt, ast.LtE: ast.GtE, ast.GtE: ast.LtE, ast.Eq: ast.Eq, ast.NotEq: ast.NotEq}
_CANON_POS = (ast.Eq, ast.Lt, ast.LtE, ast.Is, ast.In)


def _pure(e):
    for n in ast.walk(e):
        if isinstance(n, (ast.Call, ast.Subscript, ast.Await, ast.Yield, ast.NamedExpr, ast.Lambda, ast.ListComp,
                          ast.SetComp, ast.DictComp, ast.GeneratorExp)):
            # len(x) on a pure name is allowed
            if isinstance(n, ast.Call) and isinstance(n.func, ast.Name) and n.func.id == "len" and len(n.args) == 1:
                continue
            if isinstance(n, ast.Subscript) and isinstance(n.slice, ast.Constant):
                continue
            return False
    return True


def pred_key(test):
    """(canonical key, polarity) for a pure atomic test, or None."""
    if not _pure(test):
        return None
    if isinstance(test, ast.Compare) and len(test.ops) == 1:
        op = type(test.ops[0])
        l, r = ast.unparse(test.left), ast.unparse(test.comparators[0])
        pol = True
        if op in (ast.Gt, ast.GtE):  # a > b == b < a
            op = _CMP_SWAP[op]
            l, r = r, l
        if op in (ast.Eq, ast.NotEq, ast.Is, ast.IsNot) and r < l:
            l, r = r, l
        if op not in _CANON_POS:
            op = _CMP_NEG[op]
            pol = False
            if op in (ast.Gt, ast.GtE):
                op = _CMP_SWAP[op]
                l, r = r, l
        return ("%s %s %s" % (l, op.__name__, r), pol)
    if isinstance(test, (ast.Name, ast.Attribute)):
        return ("truthy " + ast.unparse(test), True)
    return None


def _roots(e):
    out = set()
    for n in ast.walk(e):
        if isinstance(n, ast.Name):
            out.add(n.id)
    return out


def _kills(node):
    """root names whose state a CFG node may change"""
    a = node.ast
    out = set()
    if a is None or node.kind in ("test", "return", "raise", "join"):
        return out
    tgts = []
    if node.kind == "for":
        tgts = [a.target]
    elif isinstance(a, ast.Assign):
        tgts = a.targets
    elif isinstance(a, (ast.AugAssign, ast.AnnAssign)):
        tgts = [a.target]
    elif isinstance(a, ast.Delete):
        tgts = a.targets
    elif isinstance(a, ast.With):
        tgts = [it.optional_vars for it in a.items if it.optional_vars is not None]
    for t in tgts:
        out |= _roots(t)
    root = a.iter if node.kind == "for" else a
    if isinstance(root, (ast.FunctionDef, ast.ClassDef)):
        return out
    for c in ast.walk(root):
        if isinstance(c, ast.Call):
            if isinstance(c.func, ast.Attribute):
                out |= _roots(c.func.value)
            for x in c.args:
                if isinstance(x, (ast.Name, ast.Attribute)):
                    out |= _roots(x)
    return out


def reach_ps(cfg, sources, removed=frozenset(), blocked=frozenset(), targets=None, max_states=20000, forbid=()):
    """Path-sensitive forward reachability.  Returns (reached node ids, witness path to a target or None).
    `forbid`: fact sets {(predicate key, truth)}; a state containing one of them is not explored
    (paths the obligation exempts, e.g. 'no UTXO known')."""
    forbid = [frozenset(f) for f in forbid]
    targets = set(targets or ())
    keys = {}
    roots_of = {}
    for n in cfg.nodes:
        if n.kind == "test":
            pk = pred_key(n.ast)
            if pk:
                keys[n.id] = pk
                roots_of[pk[0]] = _roots(n.ast)
    kills = {n.id: _kills(n) for n in cfg.nodes}
    start = [(s, frozenset()) for s in sources if s not in blocked]
    prev = {st: None for st in start}
    dq = deque(start)
    reached = set(s for s, _ in start)
    hit = None
    while dq:
        cur = dq.popleft()
        nid, facts = cur
        if nid in targets:
            hit = cur
            break
        if len(prev) > max_states:
            # give up on path sensitivity: fall back to plain reachability (sound for alarms? no -> caller decides)
            return None, None
        k = kills.get(nid)
        if k and facts:
            facts = frozenset((pk, tv) for pk, tv in facts if not (roots_of.get(pk, set()) & k))
        for b, label in cfg.succ[nid]:
            if (nid, label) in removed or (nid, b, label) in removed or b in blocked:
                continue
            f2 = facts
            if nid in keys and label in (True, False):
                pk, pol = keys[nid]
                tv = (label == pol)
                d = dict(facts)
                if pk in d:
                    if d[pk] != tv:
                        continue  # contradictory
                else:
                    f2 = facts | {(pk, tv)}
                    if forbid and any(fb <= f2 for fb in forbid):
                        continue
            st = (b, f2)
            if st in prev:
                continue
            prev[st] = (cur, label)
            reached.add(b)
            dq.append(st)
    path = None
    if hit is not None:
        seq = []
        cur = hit
        lab = None
        while cur is not None:
            seq.append((cur[0], lab))
            p = prev[cur]
            if p is None:
                break
            cur, lab = p
        seq.reverse()
        path = seq
    return reached, path
