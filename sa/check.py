"""CLI:  python -m sa.check <Cxx> [--tier quick|thorough] [--only C01.3] [--repo DIR]

exit 0: all obligations discharged (KNOWN-FINDING lines allowed)
exit 1: VIOLATION property=<id> replay=<path>
exit 2: ANALYSIS-ERROR (cannot decide) -- never reported as a violation
"""
import argparse
import importlib
import os
import sys
import time
import traceback

from . import report
from .loader import AnalysisError, Repo
from .report import Res

PROPS = ["C%02d" % i for i in range(1, 21)]

ASSUMPTIONS = [
    "the CFG built by sa/cfg.py is faithful for the statement kinds the repository uses (implicit exceptions are failures, not successes)",
    "oracle tables in /verif/spec are correct transcriptions of the cited specifications",
    "Python semantics of the operators folded by sa/fold.py; integers compared with floats are compared exactly",
    "a discharged obligation is a necessary structural condition of the property, not the property's behaviour",
]


class Ctx:
    """Shared analysis context handed to every obligation function."""

    def __init__(self, root=None, overrides=None, tier="quick"):
        self.root = root
        self.tier = tier
        self.repo = Repo(root, overrides, "p")
        self._repo_c = None
        self._overrides = overrides
        self.stats = {"functions": set(), "cfg_nodes": 0, "cfg_edges": 0, "tests_interpreted": 0,
                      "table_entries": 0, "layout_terms": 0, "paths": 0, "call_sites": 0}
        self.cur = None  # (obl id, kind)

    @property
    def repo_c(self):
        if self._repo_c is None:
            self._repo_c = Repo(self.root, self._overrides, "c")
        return self._repo_c

    # result constructors ------------------------------------------------------------------
    def _mk(self, status, anchor, msg, node=None, mod=None, key=None, detail=None):
        obl, kind = self.cur
        file = line = None
        if mod is not None:
            file = mod.path
        if node is not None:
            line = getattr(node, "lineno", None)
        if isinstance(anchor, tuple):
            anchor = "%s:%s" % anchor
        return Res(status, obl, kind, anchor, msg, file, line, key, detail)

    def ok(self, anchor, msg, node=None, mod=None, key=None, detail=None):
        return self._mk("ok", anchor, msg, node, mod, key, detail)

    def bad(self, anchor, msg, node=None, mod=None, key=None, detail=None):
        return self._mk("violation", anchor, msg, node, mod, key or "default", detail)

    def err(self, anchor, msg, node=None, mod=None):
        return self._mk("error", anchor, msg, node, mod)

    def note_fn(self, mod, fn):
        from .cfg import cfg_of

        k = (mod.path, fn.name, fn.lineno)
        if k not in self.stats["functions"]:
            self.stats["functions"].add(k)
            try:
                c = cfg_of(fn)
                self.stats["cfg_nodes"] += len(c.nodes)
                self.stats["cfg_edges"] += sum(len(v) for v in c.succ.values())
            except AnalysisError:
                pass

    def count(self, what, n=1):
        self.stats[what] = self.stats.get(what, 0) + n


def run_property(prop, ctx, only=None):
    mod = importlib.import_module("rules." + prop)
    results = []
    for obl, kind, fn in mod.OBLIGATIONS:
        if only and obl not in only:
            continue
        ctx.cur = (obl, kind)
        try:
            rs = fn(ctx)
            if isinstance(rs, Res):
                rs = [rs]
            rs = list(rs)
            if not rs:
                rs = [ctx.err(obl, "rule matched zero instances (vacuous) -- anchor or idiom vanished")]
        except AnalysisError as e:
            rs = [ctx.err(obl, str(e))]
        except Exception as e:  # internal error: undecided, never a violation
            tb = traceback.format_exc().strip().split("\n")
            rs = [ctx.err(obl, "internal error %s: %s @ %s" % (type(e).__name__, e, tb[-3].strip() if len(tb) > 2 else ""))]
        floor = getattr(mod, "FLOORS", {}).get(obl)
        # the floor guards the structural reading against matching nothing; an instance decided by the whole-function cells it deferred to
        # (rl.defer) was not read structurally, and the cells carry their own floor
        if floor and len([r for r in rs if r.status != "error"]) < floor and not any(r.status in ("error", "violation") for r in rs) \
                and not any("structural_reading" in (r.detail or {}) for r in rs):
            rs.append(ctx.err(obl, "instance count %d below the confirmed floor %d" % (len(rs), floor)))
        results.extend(rs)
    return mod, results


def main(argv=None):
    ap = argparse.ArgumentParser()
    ap.add_argument("prop")
    ap.add_argument("--tier", default=os.environ.get("VERIF_TIER") or "quick", choices=["quick", "thorough"])
    ap.add_argument("--only", action="append")
    ap.add_argument("--repo", default=None)
    ap.add_argument("--no-evidence", action="store_true")
    ap.add_argument("-v", "--verbose", action="store_true")
    a = ap.parse_args(argv)
    tier = os.environ.get("VERIF_TIER") or a.tier
    if tier not in ("quick", "thorough"):
        tier = a.tier
    try:
        seed = int(os.environ.get("VERIF_SEED", "0"))
    except ValueError:
        seed = 0
    if a.prop == "--selfcheck" or a.prop == "selfcheck":
        return selfcheck()
    prop = a.prop
    if prop not in PROPS:
        print("ANALYSIS-ERROR unknown property %s" % prop)
        return 2
    t0 = time.time()
    try:
        ctx = Ctx(a.repo, tier=tier)
        mod, results = run_property(prop, ctx, a.only)
    except AnalysisError as e:
        print("ANALYSIS-ERROR property=%s %s" % (prop, e))
        return 2
    except Exception as e:
        traceback.print_exc()
        print("ANALYSIS-ERROR property=%s internal %s: %s" % (prop, type(e).__name__, e))
        return 2
    report.match_known(results, prop)
    selftest = None
    st_fail = []
    if tier == "thorough" and not a.only:
        try:
            from selftest import runner

            selftest, st_fail = runner.run(prop, a.repo)
            # behaviour-preserving rewrites of every analysed function (must stay silent) ...
            from selftest import autotwin, patches

            tw, tw_bad = autotwin.run(prop, a.repo)
            selftest["auto_twins"] = tw
            st_fail += ["auto-twin %s:%s [%s] -> %s (%s)" % (r[0], r[1], r[2], r[3], r[4][:160]) for r in tw_bad]
            # ... and the changes kept from independent agents: seeded/ must be reported, refactors/ must stay silent
            pt, pt_bad = patches.run(prop, a.repo)
            selftest["agent_patches"] = pt
            st_fail += pt_bad
        except AnalysisError as e:
            st_fail = ["selftest: %s" % e]
        except Exception as e:
            traceback.print_exc()
            st_fail = ["selftest internal %s: %s" % (type(e).__name__, e)]
    rc = 0
    nviol = 0
    for r in results:
        if r.status == "ok":
            if a.verbose:
                print("OK %s [%s] %s: %s" % (r.obl, r.kind, r.loc(), r.msg))
        elif r.status == "violation" and r.known:
            print("KNOWN-FINDING: property=%s %s %s: %s" % (prop, r.obl, r.loc(), r.known))
        elif r.status == "violation":
            p = report.write_violation(prop, r)
            print("VIOLATION property=%s replay=%s" % (prop, p))
            print("  %s rule=%s instance=%s\n  %s" % (r.loc(), r.kind, r.finding_key(), r.msg))
            nviol += 1
        else:
            print("ANALYSIS-ERROR property=%s %s %s: %s" % (prop, r.obl, r.loc(), r.msg))
    for s in st_fail:
        print("ANALYSIS-ERROR property=%s %s" % (prop, s))
    nerr = len([r for r in results if r.status == "error"]) + len(st_fail)
    nok = len([r for r in results if r.status == "ok"])
    stats = dict(ctx.stats)
    stats["functions"] = sorted("%s:%s" % (f, n) for f, n, _ in ctx.stats["functions"])
    stats["n_functions"] = len(stats["functions"])
    stats["files"] = ctx.repo.files
    wall = time.time() - t0
    if not a.no_evidence and not a.only:
        kinds = []
        for _, kind, _f in getattr(mod, "OBLIGATIONS", []):
            if kind not in kinds:
                kinds.append(kind)
        expl = getattr(mod, "EXPLANATION", "") + " Rule kinds evaluated in this run (DESIGN.md §3.2, §9.10, §9.11): " + "; ".join(kinds) + "."
        report.write_evidence(prop, tier, seed, results, stats, wall, expl, ASSUMPTIONS + list(getattr(mod, "ASSUMPTIONS", [])),
                              selftest, exhaustive=False)
    print("%s tier=%s obligations=%d discharged=%d known=%d violations=%d undecided=%d wall=%.2fs" % (
        prop, tier, len(results), nok, len([r for r in results if r.known]), nviol, nerr, wall))
    if nviol:
        rc = 1
    elif nerr:
        rc = 2
    return rc


def selfcheck():
    """setup_cmd: parse the repository, import every rule module and oracle file."""
    try:
        ctx = Ctx()
        n = 0
        for p in PROPS:
            try:
                m = importlib.import_module("rules." + p)
                n += len(m.OBLIGATIONS)
            except ModuleNotFoundError:
                pass
        print("selfcheck: %d modules parsed, %d obligations registered" % (len(ctx.repo.modules), n))
        return 0
    except Exception as e:
        print("ANALYSIS-ERROR selfcheck %s: %s" % (type(e).__name__, e))
        return 2


if __name__ == "__main__":
    try:
        sys.exit(main())
    except SystemExit:
        raise
    except Exception as e:  # never exit 1 on a traceback
        traceback.print_exc()
        print("ANALYSIS-ERROR internal %s: %s" % (type(e).__name__, e))
        sys.exit(2)
