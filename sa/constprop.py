"""Named constants that do not exist in the reference tree are replaced by their literal value.

"Introduce a named constant" (`CHECKSUM_LENGTH = 4`, `HARDENED_OFFSET = 0x80000000`, `ANNEX_TAG = b"\\x50"`) is a
behaviour-preserving refactoring; the rules describe the reference tree, where the literal is written out.  Every
module-level (or class-level) name bound exactly once to a literal — int, bytes, str, bool, None, or a tuple / list /
dict / set of those, possibly through arithmetic on literals and on other such constants — that is *not* a constant of
the reference tree (spec/functions_ref.json, key "<module>#constants") is substituted at its uses before anything else
looks at the module.  Names that are rebound anywhere (assigned twice, augmented, deleted, declared global) are left
alone; so are names the reference tree already has (the rules know those by name)."""
import ast
import copy

_OK_NODES = (ast.Constant, ast.Tuple, ast.List, ast.Dict, ast.Set, ast.BinOp, ast.UnaryOp, ast.operator, ast.unaryop, ast.expr_context, ast.Load)


def _literal(e, known):
    """evaluate e when it only consists of literals, arithmetic and already known constants; else raise ValueError"""
    for n in ast.walk(e):
        if isinstance(n, ast.Name):
            if n.id not in known:
                raise ValueError(n.id)
        elif not isinstance(n, _OK_NODES):
            raise ValueError(type(n).__name__)
    code = compile(ast.Expression(body=copy.deepcopy(e)), "<const>", "eval")
    try:
        return eval(code, {"__builtins__": {}}, dict(known))  # noqa: S307 - literals and arithmetic only, checked above
    except Exception as ex:
        raise ValueError(str(ex))


def _to_ast(v):
    if isinstance(v, (tuple, list, set, frozenset)):
        elts = [_to_ast(x) for x in (sorted(v, key=repr) if isinstance(v, (set, frozenset)) else v)]
        if isinstance(v, tuple):
            return ast.Tuple(elts=elts, ctx=ast.Load())
        if isinstance(v, list):
            return ast.List(elts=elts, ctx=ast.Load())
        return ast.Set(elts=elts)
    if isinstance(v, dict):
        return ast.Dict(keys=[_to_ast(k) for k in v], values=[_to_ast(x) for x in v.values()])
    return ast.Constant(value=v)


class CompTable:
    """`T = {k: f(k) for k in range(lo, hi)}` / `[f(k) for k in range(lo, hi)]`: a table computed once at import; `T[c]` is `f(c)`"""

    def __init__(self, var, lo, hi, expr, is_list):
        self.var, self.lo, self.hi, self.expr, self.is_list = var, lo, hi, expr, is_list

    def lookup(self, c):
        if self.is_list:
            if c < 0:
                c += self.hi - self.lo
            if not 0 <= c < self.hi - self.lo:
                return None
            c += self.lo
        elif not self.lo <= c < self.hi:
            return None

        class _S(ast.NodeTransformer):
            def visit_Name(s, n):
                return ast.Constant(value=c) if n.id == self.var else n

        return _S().visit(copy.deepcopy(self.expr))


def _comp_table(e, known, funcs):
    """a comprehension over range(<consts>) whose element only mentions the loop variable, constants and module-level functions"""
    if isinstance(e, ast.Call) and isinstance(e.func, ast.Name) and e.func.id in ("tuple", "list") and len(e.args) == 1 and not e.keywords \
            and isinstance(e.args[0], (ast.GeneratorExp, ast.ListComp)):
        e = e.args[0]
    if not isinstance(e, (ast.DictComp, ast.ListComp, ast.GeneratorExp)) or len(e.generators) != 1:
        return None
    g = e.generators[0]
    if g.ifs or g.is_async or not isinstance(g.target, ast.Name):
        return None
    it = g.iter
    if not (isinstance(it, ast.Call) and isinstance(it.func, ast.Name) and it.func.id == "range" and 1 <= len(it.args) <= 2 and not it.keywords):
        return None
    try:
        bounds = [_literal(a, known) for a in it.args]
    except ValueError:
        return None
    if not all(isinstance(b, int) for b in bounds):
        return None
    lo, hi = (0, bounds[0]) if len(bounds) == 1 else bounds
    var = g.target.id
    if isinstance(e, ast.DictComp):
        if not (isinstance(e.key, ast.Name) and e.key.id == var):
            return None
        val = e.value
    else:
        val = e.elt
    for n in ast.walk(val):
        if isinstance(n, ast.Name) and n.id != var and n.id not in known and n.id not in funcs:
            return None
        if isinstance(n, (ast.Lambda, ast.NamedExpr, ast.Await, ast.Yield, ast.YieldFrom, ast.ListComp, ast.DictComp, ast.SetComp, ast.GeneratorExp)):
            return None
    return CompTable(var, lo, hi, val, not isinstance(e, ast.DictComp))


def new_constants(tree, ref_names):
    """{name: python value} for module-level names, {(class, name): value} for class-level ones"""
    counts = {}
    for n in ast.walk(tree):
        if isinstance(n, ast.Name) and isinstance(n.ctx, (ast.Store, ast.Del)):
            counts[n.id] = counts.get(n.id, 0) + 1
        elif isinstance(n, (ast.Global, ast.Nonlocal)):
            for x in n.names:
                counts[x] = counts.get(x, 0) + 10
        elif isinstance(n, (ast.FunctionDef, ast.AsyncFunctionDef, ast.ClassDef)):
            counts[n.name] = counts.get(n.name, 0) + 10
        elif isinstance(n, (ast.Import, ast.ImportFrom)):
            for a in n.names:
                nm = (a.asname or a.name).split(".")[0]
                counts[nm] = counts.get(nm, 0) + 10
        elif isinstance(n, ast.arg):
            counts[n.arg] = counts.get(n.arg, 0) + 10
    # a class-level name that is also stored through an instance / class (`self.x = ...`) is a default, not a constant
    attr_stored = {n.attr for n in ast.walk(tree) if isinstance(n, ast.Attribute) and isinstance(n.ctx, (ast.Store, ast.Del))}
    attr_stored |= {c.args[1].value for c in ast.walk(tree) if isinstance(c, ast.Call) and isinstance(c.func, ast.Name) and c.func.id == "setattr"
                    and len(c.args) >= 2 and isinstance(c.args[1], ast.Constant) and isinstance(c.args[1].value, str)}
    # a container that is written to (TABLE[k] = v, TABLE.add(x), ...) is state, not a constant
    mutated = set()
    for n in ast.walk(tree):
        if isinstance(n, ast.Subscript) and isinstance(n.ctx, (ast.Store, ast.Del)) and isinstance(n.value, ast.Name):
            mutated.add(n.value.id)
        elif isinstance(n, ast.Subscript) and isinstance(n.ctx, (ast.Store, ast.Del)) and isinstance(n.value, ast.Attribute):
            mutated.add(n.value.attr)  # self.TABLE[k] = v / cls.TABLE[k] = v: a class-level table that is written to
        elif isinstance(n, ast.Call) and isinstance(n.func, ast.Attribute) and isinstance(n.func.value, ast.Name) and n.func.attr in (
                "append", "extend", "insert", "remove", "pop", "clear", "sort", "reverse", "add", "discard", "update", "setdefault", "popitem"):
            mutated.add(n.func.value.id)
        elif isinstance(n, ast.Call) and isinstance(n.func, ast.Attribute) and isinstance(n.func.value, ast.Attribute) and n.func.attr in (
                "append", "extend", "insert", "remove", "pop", "clear", "sort", "reverse", "add", "discard", "update", "setdefault", "popitem"):
            mutated.add(n.func.value.attr)
        elif isinstance(n, ast.AugAssign) and isinstance(n.target, ast.Name):
            mutated.add(n.target.id)
    mod_consts, cls_consts = {}, {}
    known = {}
    funcs = {st.name for st in tree.body if isinstance(st, ast.FunctionDef) and counts.get(st.name, 0) == 10}
    for _ in range(3):
        for st in tree.body:
            if isinstance(st, ast.Assign) and len(st.targets) == 1 and isinstance(st.targets[0], ast.Name):
                nm = st.targets[0].id
                if counts.get(nm, 0) != 1 or nm in mutated:
                    continue
                try:
                    v = _literal(st.value, known)
                except ValueError:
                    t = _comp_table(st.value, known, funcs) if nm not in ref_names else None
                    if t is not None:
                        mod_consts[nm] = t
                    continue
                known[nm] = v
                if nm not in ref_names:
                    mod_consts[nm] = v
            elif isinstance(st, ast.ClassDef):
                for b in st.body:
                    if isinstance(b, ast.Assign) and len(b.targets) == 1 and isinstance(b.targets[0], ast.Name):
                        nm = b.targets[0].id
                        try:
                            v = _literal(b.value, known)
                        except ValueError:
                            continue
                        if nm in attr_stored or nm in mutated:
                            continue
                        if "%s.%s" % (st.name, nm) not in ref_names:
                            cls_consts[(st.name, nm)] = v
    return mod_consts, cls_consts


class _Subst(ast.NodeTransformer):
    def __init__(self, mod_consts, cls_consts):
        self.mc, self.cc = mod_consts, cls_consts
        self.cls = None
        self.shadow = [set()]

    def visit_ClassDef(self, n):
        prev, self.cls = self.cls, n.name
        self.generic_visit(n)
        self.cls = prev
        return n

    def visit_FunctionDef(self, n):
        local = {a.arg for a in n.args.posonlyargs + n.args.args + n.args.kwonlyargs}
        if n.args.vararg:
            local.add(n.args.vararg.arg)
        if n.args.kwarg:
            local.add(n.args.kwarg.arg)
        local |= {x.id for x in ast.walk(n) if isinstance(x, ast.Name) and isinstance(x.ctx, (ast.Store, ast.Del))}
        self.shadow.append(local)
        self.generic_visit(n)
        self.shadow.pop()
        return n

    visit_AsyncFunctionDef = visit_FunctionDef

    def visit_Subscript(self, n):
        v = n.value
        if isinstance(n.ctx, ast.Load) and isinstance(v, ast.Name) and isinstance(self.mc.get(v.id), CompTable) and not any(v.id in s for s in self.shadow):
            try:
                c = _literal(n.slice, {})
            except ValueError:
                c = None
            if isinstance(c, int) and not isinstance(c, bool):
                r = self.mc[v.id].lookup(c)
                if r is not None:
                    return ast.copy_location(r, n)
        self.generic_visit(n)
        return n

    def visit_Name(self, n):
        if isinstance(n.ctx, ast.Load) and isinstance(self.mc.get(n.id), CompTable):
            return n
        if isinstance(n.ctx, ast.Load) and n.id in self.mc and not any(n.id in s for s in self.shadow):
            return ast.copy_location(_to_ast(self.mc[n.id]), n)
        return n

    def visit_Attribute(self, n):
        self.generic_visit(n)
        if isinstance(n.ctx, ast.Load) and isinstance(n.value, ast.Name):
            recv = n.value.id
            c = self.cls if recv in ("self", "cls") else recv
            if c is not None and (c, n.attr) in self.cc:
                return ast.copy_location(_to_ast(self.cc[(c, n.attr)]), n)
        return n


def substitute(tree, mod_consts, cls_consts, imported=None):
    """replace the uses (the defining assignments stay: other modules may import the names)"""
    mc = dict(imported or {})
    mc.update(mod_consts)
    if not mc and not cls_consts:
        return tree
    # the defining statements themselves must keep their targets: only Load contexts are touched
    return ast.fix_missing_locations(_Subst(mc, cls_consts).visit(tree))
