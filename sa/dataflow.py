"""Reaching definitions on the CFG, def-use expansion of expressions, origin sets."""
import ast
import copy

from .cfg import cfg_of


def _targets(t):
    if isinstance(t, ast.Name):
        yield t.id
    elif isinstance(t, (ast.Tuple, ast.List)):
        for e in t.elts:
            yield from _targets(e)
    elif isinstance(t, ast.Starred):
        yield from _targets(t.value)


def defs_of(node):
    """names (re)defined by a CFG node -> value expr or None (unknown/derived)."""
    a = node.ast
    out = {}
    if a is None:
        return out
    if node.kind == "for":
        for n in _targets(a.target):
            out[n] = ("iter", a.iter)
        return out
    if node.kind == "with":
        for it in a.items:
            if it.optional_vars is not None:
                for n in _targets(it.optional_vars):
                    out[n] = ("with", it.context_expr)
        return out
    if node.kind != "stmt":
        return out
    if isinstance(a, ast.Assign):
        for t in a.targets:
            if isinstance(t, ast.Name):
                out[t.id] = ("val", a.value)
            elif isinstance(t, (ast.Tuple, ast.List)):
                if isinstance(a.value, (ast.Tuple, ast.List)) and len(a.value.elts) == len(t.elts) and all(isinstance(e, ast.Name) for e in t.elts):
                    for e, v in zip(t.elts, a.value.elts):
                        out[e.id] = ("val", v)
                else:
                    for i, n in enumerate(_targets(t)):
                        out[n] = ("unpack", a.value, i)
    elif isinstance(a, ast.AnnAssign) and isinstance(a.target, ast.Name) and a.value is not None:
        out[a.target.id] = ("val", a.value)
    elif isinstance(a, ast.AugAssign) and isinstance(a.target, ast.Name):
        out[a.target.id] = ("aug", a)
    elif isinstance(a, (ast.Import, ast.ImportFrom)):
        for al in a.names:
            out[(al.asname or al.name).split(".")[0]] = ("import", a)
    elif isinstance(a, (ast.FunctionDef, ast.ClassDef)):
        out[a.name] = ("def", a)
    return out


class ReachingDefs:
    def __init__(self, fn):
        self.fn = fn
        self.cfg = cfg_of(fn)
        cfg = self.cfg
        self.gen = {n.id: defs_of(n) for n in cfg.nodes}
        params = [a.arg for a in fn.args.posonlyargs + fn.args.args + fn.args.kwonlyargs]
        if fn.args.vararg:
            params.append(fn.args.vararg.arg)
        if fn.args.kwarg:
            params.append(fn.args.kwarg.arg)
        self.params = params
        self._visited = set()
        # IN[n]: name -> frozenset of def node ids (entry id for params)
        IN = {n.id: {} for n in cfg.nodes}
        entry_defs = {p: frozenset([cfg.entry]) for p in params}
        work = [cfg.entry]
        queued = {cfg.entry}
        while work:
            nid = work.pop()
            queued.discard(nid)
            inn = IN[nid]
            if nid == cfg.entry:
                out = entry_defs
            elif self.gen[nid]:
                out = dict(inn)
                for name in self.gen[nid]:
                    out[name] = frozenset([nid])
            else:
                out = inn
            for b, label in cfg.succ[nid]:
                tgt = IN[b]
                src = inn if (label == "exc" and nid != cfg.entry) else out
                changed = False
                for name, ds in src.items():
                    cur = tgt.get(name)
                    if cur is None:
                        tgt[name] = ds
                        changed = True
                    elif not ds <= cur:
                        tgt[name] = cur | ds
                        changed = True
                if (changed or b not in self._visited) and b not in queued:
                    work.append(b)
                    queued.add(b)
                self._visited.add(b)
        self.IN = IN

    def reaching(self, nid, name):
        return self.IN.get(nid, {}).get(name, frozenset())

    def single_value(self, nid, name):
        """The value expression when exactly one plain assignment reaches, else None."""
        ds = self.reaching(nid, name)
        if len(ds) != 1:
            return None
        (d,) = ds
        if d == self.cfg.entry:
            return None
        g = self.gen[d].get(name)
        if g and g[0] == "val":
            return g[1], d
        return None


_rd_cache = {}


def rd_of(fn):
    k = id(fn)
    if k not in _rd_cache:
        _rd_cache[k] = (fn, ReachingDefs(fn))
    return _rd_cache[k][1]


class _Expander(ast.NodeTransformer):
    def __init__(self, rd, nid, depth, stop=()):
        self.rd, self.nid, self.depth, self.stop = rd, nid, depth, stop

    def visit_Name(self, node):
        if not isinstance(node.ctx, ast.Load) or self.depth <= 0 or node.id in self.stop:
            return node
        sv = self.rd.single_value(self.nid, node.id)
        if sv is None:
            return node
        val, d = sv
        sub = _Expander(self.rd, d, self.depth - 1, self.stop)
        return sub.visit(copy.deepcopy(val))

    def visit_Lambda(self, node):
        return node

    def visit_ListComp(self, node):
        return node

    visit_SetComp = visit_DictComp = visit_GeneratorExp = visit_ListComp


def expand(fn, nid, expr, depth=6, stop=()):
    """Copy of `expr` (evaluated at CFG node nid) with local names replaced by their unique
    reaching definition, recursively (names in `stop` are kept)."""
    return _Expander(rd_of(fn), nid, depth, tuple(stop)).visit(copy.deepcopy(expr))


def call_name(call):
    f = call.func
    if isinstance(f, ast.Name):
        return f.id
    if isinstance(f, ast.Attribute):
        return f.attr
    return None


def dotted(expr):
    """a.b.c -> 'a.b.c' for pure Name/Attribute chains, else None."""
    parts = []
    while isinstance(expr, ast.Attribute):
        parts.append(expr.attr)
        expr = expr.value
    if isinstance(expr, ast.Name):
        parts.append(expr.id)
        return ".".join(reversed(parts))
    return None


def origins(fn, nid, expr, depth=8):
    """Origin atoms of an expression evaluated at node nid: through *all* reaching definitions
    (flow-sensitive union).  Atoms: call:<name>, attr:<dotted>, name:<id> (params / unresolved),
    const:<repr>, op:<OpName>, slice, index:<repr>, cmp."""
    rd = rd_of(fn)
    atoms = set()
    seen = set()

    def walk(e, at, d):
        for sub in ast.walk(e):
            if isinstance(sub, ast.Call):
                nm = call_name(sub)
                if nm:
                    atoms.add("call:" + nm)
            elif isinstance(sub, ast.Attribute):
                dn = dotted(sub)
                if dn:
                    atoms.add("attr:" + dn)
                atoms.add("attrname:" + sub.attr)
            elif isinstance(sub, ast.Constant):
                atoms.add("const:%r" % (sub.value,))
            elif isinstance(sub, ast.BinOp):
                atoms.add("op:" + type(sub.op).__name__)
            elif isinstance(sub, ast.Subscript):
                if isinstance(sub.slice, ast.Slice):
                    atoms.add("slice:%s" % ast.unparse(sub.slice))
                else:
                    atoms.add("index:%s" % ast.unparse(sub.slice))
            elif isinstance(sub, ast.Name) and isinstance(sub.ctx, ast.Load):
                ds = rd.reaching(at, sub.id)
                if not ds or d <= 0:
                    atoms.add("name:" + sub.id)
                    continue
                for dn in ds:
                    if dn == rd.cfg.entry:
                        atoms.add("name:" + sub.id)
                        atoms.add("param:" + sub.id)
                        continue
                    if (dn, sub.id) in seen:
                        continue
                    seen.add((dn, sub.id))
                    g = rd.gen[dn].get(sub.id)
                    if not g:
                        continue
                    if g[0] == "val":
                        walk(g[1], dn, d - 1)
                    elif g[0] == "aug":
                        atoms.add("op:" + type(g[1].op).__name__)
                        walk(g[1].value, dn, d - 1)
                        # previous value of the same name
                        for pd in rd.reaching(dn, sub.id):
                            if pd != dn and (pd, sub.id) not in seen:
                                seen.add((pd, sub.id))
                                g2 = rd.gen.get(pd, {}).get(sub.id)
                                if g2 and g2[0] == "val":
                                    walk(g2[1], pd, d - 1)
                                elif pd == rd.cfg.entry:
                                    atoms.add("param:" + sub.id)
                    elif g[0] in ("iter", "with", "unpack"):
                        atoms.add("%s:%s" % (g[0], sub.id))
                        walk(g[1], dn, d - 1)

    walk(expr, nid, depth)
    return atoms


def names_in(expr):
    return {n.id for n in ast.walk(expr) if isinstance(n, ast.Name)}


def calls_in(node, name=None):
    out = []
    for sub in ast.walk(node):
        if isinstance(sub, ast.Call) and (name is None or call_name(sub) == name):
            out.append(sub)
    return out
