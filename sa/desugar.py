"""Statement-level desugaring done before the normal form (sa/normal.py), so that the rules see one spelling:

  conditional expressions   `x = A if c else B`        -> `if c: x = A` / `else: x = B`
                            `return A if c else B`     -> `if c: return A` ; `return B`
                            `x += A if c else B`       -> `if c: x += A` / `else: x += B`
  comprehensions            `x = [E for v in it if c]` -> `x = []` ; `for v in it: if c: x.append(E)`
                            `x = sep.join(E for v in it)` (sep an empty bytes / str literal)
                                                       -> `x = sep` ; `for v in it: x += E`
                            `x += b"".join(...)`       -> `for v in it: x += E`
                            `x = sum(E for v in it)`   -> `x = 0` ; `for v in it: x += E`
                            `return <one of these>`    -> through the temporary `_acc`
                            `f(<join / list comprehension>)` as the whole right-hand side of an assignment or return
                                                       -> the comprehension is first bound to `_acc`

Only applied when the construct is the whole value of the statement, the comprehension has plain-name targets, and the
loop variables are not used anywhere else in the function (a comprehension has its own scope, a loop does not).
Evaluation order and the values computed are unchanged."""
import ast


_WRAPPERS = {"hash256", "sha256", "hash160", "encode_varstr", "hash_tapsighash", "hash_tapleaf", "hash_tapbranch", "hash_keyagglist"}


_BUILTIN_CONSUMERS = {"bytes", "bytearray", "sorted", "set", "frozenset", "list", "tuple", "sum", "any", "all", "len", "max", "min", "dict", "reversed", "enumerate", "zip"}


def _is_empty_bytes(e):
    return isinstance(e, ast.Constant) and e.value == b""


def _is_empty_sep(e):
    return isinstance(e, ast.Constant) and e.value in (b"", "")


def _comp_parts(v):
    """(kind, elt, generators, sep) for a supported accumulation expression, else None"""
    if isinstance(v, ast.ListComp):
        return ("list", v.elt, v.generators, None)
    if isinstance(v, ast.Call) and isinstance(v.func, ast.Attribute) and v.func.attr == "join" and _is_empty_sep(v.func.value) and len(v.args) == 1 and not v.keywords \
            and isinstance(v.args[0], (ast.ListComp, ast.GeneratorExp)):
        return ("join", v.args[0].elt, v.args[0].generators, v.func.value)
    if isinstance(v, ast.Call) and isinstance(v.func, ast.Attribute) and v.func.attr == "join" and _is_empty_bytes(v.func.value) and len(v.args) == 1 and not v.keywords \
            and isinstance(v.args[0], (ast.Name, ast.Attribute)) and not any(isinstance(x, ast.Call) for x in ast.walk(v.args[0])):
        # b"".join(xs) over a plain sequence: every element is appended as it is
        g = ast.comprehension(target=ast.Name(id="_e", ctx=ast.Store()), iter=v.args[0], ifs=[], is_async=0)
        return ("join", ast.Name(id="_e", ctx=ast.Load()), [g], v.func.value)
    if isinstance(v, ast.Call) and isinstance(v.func, ast.Name) and v.func.id == "sum" and len(v.args) == 1 and not v.keywords and isinstance(v.args[0], (ast.ListComp, ast.GeneratorExp)):
        return ("sum", v.args[0].elt, v.args[0].generators, None)
    return None


def _targets_ok(gens, busy):
    names = []
    for g in gens:
        if g.is_async:
            return None
        for n in ast.walk(g.target):
            if isinstance(n, ast.Name):
                names.append(n.id)
            elif not isinstance(n, (ast.Tuple, ast.List, ast.Store, ast.Load)):
                return None
    if any(busy.get(n, 0) > 0 for n in names):
        return None
    return names


class Desugar(ast.NodeTransformer):
    def __init__(self):
        self.outside = {}  # name -> number of uses outside comprehensions in the current function
        self.k = 0

    def visit_FunctionDef(self, n):
        saved = self.outside, self.k
        self.k = 0
        # uses of every name outside any comprehension of this function
        inside = set()
        for c in ast.walk(n):
            if isinstance(c, (ast.ListComp, ast.SetComp, ast.DictComp, ast.GeneratorExp)):
                for x in ast.walk(c):
                    if isinstance(x, ast.Name):
                        inside.add(id(x))
        cnt = {}
        for x in ast.walk(n):
            if isinstance(x, ast.Name) and id(x) not in inside:
                cnt[x.id] = cnt.get(x.id, 0) + 1
        for a in n.args.posonlyargs + n.args.args + n.args.kwonlyargs:
            cnt[a.arg] = cnt.get(a.arg, 0) + 1
        self.outside = cnt
        self._parts_lists(n)
        self._inline_tables(n)
        self._split_buffer_reads(n)
        self.generic_visit(n)
        self.outside, self.k = saved
        return n

    @staticmethod
    def _split_buffer_reads(fn):
        """`buf = s.read(36); a = buf[:32][::-1]; b = f(buf[32:])` -- a fixed number of bytes read in one go and used only through constant
        slices that tile it in order, in the statements that follow immediately (nothing else touches the stream in between): each slice is
        written back as the read of its own bytes, `a = s.read(32)[::-1]; b = f(s.read(4))`"""
        for holder in ast.walk(fn):
            for field in ("body", "orelse", "finalbody"):
                stmts = getattr(holder, field, None)
                if not isinstance(stmts, list) or not stmts or not isinstance(stmts[0], ast.stmt):
                    continue
                i = 0
                while i < len(stmts):
                    st = stmts[i]
                    i += 1
                    if not (isinstance(st, ast.Assign) and len(st.targets) == 1 and isinstance(st.targets[0], ast.Name) and isinstance(st.value, ast.Call)
                            and isinstance(st.value.func, ast.Attribute) and st.value.func.attr == "read" and isinstance(st.value.func.value, ast.Name)
                            and len(st.value.args) == 1 and isinstance(st.value.args[0], ast.Constant) and type(st.value.args[0].value) is int):
                        continue
                    buf, stream, total = st.targets[0].id, st.value.func.value.id, st.value.args[0].value
                    every = [x for x in ast.walk(fn) if isinstance(x, ast.Name) and x.id == buf]
                    if sum(1 for x in every if isinstance(x.ctx, ast.Store)) != 1:
                        continue
                    # the slices, in program order, within the statements directly after the read
                    uses, pos, j, ok = [], 0, i, True
                    while j < len(stmts) and ok and pos < total:
                        nxt = stmts[j]
                        subs = [x for x in ast.walk(nxt) if isinstance(x, ast.Subscript) and isinstance(x.value, ast.Name) and x.value.id == buf]
                        names = [x for x in ast.walk(nxt) if isinstance(x, ast.Name) and x.id == buf]
                        touches_stream = any(isinstance(x, ast.Name) and x.id == stream for x in ast.walk(nxt))
                        if not subs:
                            ok = not names and not touches_stream and isinstance(nxt, (ast.Assign, ast.Expr)) and False
                            break
                        if len(subs) != len(names) or touches_stream or isinstance(nxt, (ast.For, ast.While, ast.If, ast.Try, ast.With)):
                            ok = False
                            break
                        subs.sort(key=lambda x: (x.lineno, x.col_offset))
                        for sub in subs:
                            sl = sub.slice
                            if not (isinstance(sl, ast.Slice) and sl.step is None and all(b is None or (isinstance(b, ast.Constant) and type(b.value) is int and b.value >= 0) for b in (sl.lower, sl.upper))):
                                ok = False
                                break
                            lo = sl.lower.value if sl.lower is not None else 0
                            hi = sl.upper.value if sl.upper is not None else total
                            if lo != pos or hi <= lo or hi > total:
                                ok = False
                                break
                            uses.append((sub, hi - lo))
                            pos = hi
                        j += 1
                    if not ok or pos != total or len(uses) != len([x for x in every if isinstance(x.ctx, ast.Load)]):
                        continue
                    for sub, width in uses:
                        new = ast.Call(func=ast.Attribute(value=ast.Name(id=stream, ctx=ast.Load()), attr="read", ctx=ast.Load()), args=[ast.Constant(value=width)], keywords=[])
                        ast.copy_location(new, sub)
                        for parent in ast.walk(fn):
                            for f_, v_ in ast.iter_fields(parent):
                                if v_ is sub:
                                    setattr(parent, f_, new)
                                elif isinstance(v_, list):
                                    for k_, item in enumerate(v_):
                                        if item is sub:
                                            v_[k_] = new
                    stmts.remove(st)
                    i -= 1
        ast.fix_missing_locations(fn)

    @staticmethod
    def _inline_tables(fn):
        """`rows = ((a, 4), (b, 5)); for v, w in rows: ...` -- a local bound once to a literal sequence of call-free rows and used
        only as the iterable of one loop: the literal is written into the loop header (where the unrolling rule sees it)"""
        import copy
        assigns, loads, fors = {}, {}, {}
        for x in ast.walk(fn):
            if isinstance(x, ast.Assign) and len(x.targets) == 1 and isinstance(x.targets[0], ast.Name):
                assigns.setdefault(x.targets[0].id, []).append(x)
            elif isinstance(x, ast.Name) and isinstance(x.ctx, ast.Load):
                loads[x.id] = loads.get(x.id, 0) + 1
            if isinstance(x, ast.For) and isinstance(x.iter, ast.Name):
                fors.setdefault(x.iter.id, []).append(x)
        stores = {}
        for x in ast.walk(fn):
            if isinstance(x, ast.Name) and isinstance(x.ctx, (ast.Store, ast.Del)):
                stores[x.id] = stores.get(x.id, 0) + 1
        for nm, fs in fors.items():
            a = assigns.get(nm, [])
            if len(a) != 1 or len(fs) != 1 or loads.get(nm, 0) != 1 or stores.get(nm, 0) != 1:
                continue
            v = a[0].value
            if not isinstance(v, (ast.Tuple, ast.List)) or not (1 <= len(v.elts) <= 8):
                continue
            if any(isinstance(e, ast.Starred) or any(isinstance(y, (ast.Call, ast.Await, ast.NamedExpr)) for y in ast.walk(e)) for e in v.elts):
                continue
            # nothing the rows mention may be rebound between the assignment and the loop: require that they are never stored in this function
            row_names = {y.id for e in v.elts for y in ast.walk(e) if isinstance(y, ast.Name)}
            if any(stores.get(r, 0) for r in row_names if r not in ("self",)):
                continue
            fs[0].iter = ast.copy_location(copy.deepcopy(v), fs[0].iter)
            ast.fix_missing_locations(fs[0])

    def _parts_lists(self, fn):
        """`parts = [a, b]; parts.append(c); parts.extend(E for v in it); return b"".join(parts)` is the accumulator
        `parts = a + b; parts += c; for v in it: parts += E; return parts` (same bytes)."""
        # candidate names: assigned exactly once, from a list literal
        assigns = {}
        for x in ast.walk(fn):
            if isinstance(x, ast.Assign) and len(x.targets) == 1 and isinstance(x.targets[0], ast.Name):
                assigns.setdefault(x.targets[0].id, []).append(x)
        for name, sts in assigns.items():
            if len(sts) != 1 or not isinstance(sts[0].value, ast.List) or any(isinstance(e, ast.Starred) for e in sts[0].value.elts):
                continue
            uses = [x for x in ast.walk(fn) if isinstance(x, ast.Name) and x.id == name]
            ok_nodes = set()
            joins, sep = [], None
            bad = False
            for x in ast.walk(fn):
                if isinstance(x, ast.Expr) and isinstance(x.value, ast.Call) and isinstance(x.value.func, ast.Attribute) and isinstance(x.value.func.value, ast.Name) \
                        and x.value.func.value.id == name and x.value.func.attr in ("append", "extend") and len(x.value.args) == 1 and not x.value.keywords:
                    a = x.value.args[0]
                    if any(isinstance(y, ast.Name) and y.id == name for y in ast.walk(a)):
                        bad = True
                    if x.value.func.attr == "extend" and not isinstance(a, (ast.List, ast.Tuple, ast.ListComp, ast.GeneratorExp)):
                        bad = True
                    ok_nodes.add(id(x.value.func.value))
                elif isinstance(x, ast.Call) and isinstance(x.func, ast.Attribute) and x.func.attr == "join" and _is_empty_bytes(x.func.value) and len(x.args) == 1 \
                        and isinstance(x.args[0], ast.Name) and x.args[0].id == name:
                    joins.append(x)
                    sep = x.func.value
                    ok_nodes.add(id(x.args[0]))
            ok_nodes.add(id(sts[0].targets[0]))
            if bad or len(joins) != 1 or any(id(u) not in ok_nodes for u in uses):
                continue
            _PartsRewriter(name, sep, self).visit(fn)

    visit_AsyncFunctionDef = visit_FunctionDef

    def visit_Call(self, n):
        self.generic_visit(n)
        # b"".join([a, b, c])  ->  a + b + c   (literal sequence of at least one element, no starred items)
        if isinstance(n.func, ast.Attribute) and n.func.attr == "join" and _is_empty_sep(n.func.value) and len(n.args) == 1 and not n.keywords \
                and isinstance(n.args[0], (ast.List, ast.Tuple)) and n.args[0].elts and not any(isinstance(e, ast.Starred) for e in n.args[0].elts):
            e = n.args[0].elts[0]
            for nxt in n.args[0].elts[1:]:
                e = ast.copy_location(ast.BinOp(left=e, op=ast.Add(), right=nxt), n)
            return e
        return n

    # ------------------------------------------------------------------------------------
    def _loops(self, gens, inner, at):
        body = inner
        for g in reversed(gens):
            for cond in reversed(g.ifs):
                body = [ast.copy_location(ast.If(test=cond, body=body, orelse=[]), at)]
            body = [ast.copy_location(ast.For(target=_store(g.target), iter=g.iter, body=body, orelse=[]), at)]
        return body

    def _expand(self, target_name, v, at, accumulate=False):
        """statements computing the comprehension `v` into the local `target_name` (None when unsupported)"""
        p = _comp_parts(v)
        if p is None:
            return None
        kind, elt, gens, sep = p
        if _targets_ok(gens, self.outside) is None:
            return None
        tgt_l = lambda: ast.Name(id=target_name, ctx=ast.Load())
        tgt_s = lambda: ast.Name(id=target_name, ctx=ast.Store())
        if kind == "list":
            if accumulate:
                return None
            init = ast.copy_location(ast.Assign(targets=[tgt_s()], value=ast.List(elts=[], ctx=ast.Load()), lineno=at.lineno), at)
            step = ast.copy_location(ast.Expr(value=ast.Call(func=ast.Attribute(value=tgt_l(), attr="append", ctx=ast.Load()), args=[elt], keywords=[])), at)
        elif kind == "join":
            init = ast.copy_location(ast.Assign(targets=[tgt_s()], value=sep, lineno=at.lineno), at)
            step = ast.copy_location(ast.AugAssign(target=tgt_s(), op=ast.Add(), value=elt), at)
        else:
            init = ast.copy_location(ast.Assign(targets=[tgt_s()], value=ast.Constant(value=0), lineno=at.lineno), at)
            step = ast.copy_location(ast.AugAssign(target=tgt_s(), op=ast.Add(), value=elt), at)
        loops = self._loops(gens, [step], at)
        return loops if accumulate else [init] + loops

    def _fresh(self):
        self.k += 1
        return "_acc" if self.k == 1 else "_acc%d" % self.k

    def _anyall(self, e):
        """(generator, elt, found_means_true) for any(G) / all(G) / not any(G) / not all(G) over one generator expression"""
        neg = False
        while isinstance(e, ast.UnaryOp) and isinstance(e.op, ast.Not):
            neg, e = not neg, e.operand
        if not (isinstance(e, ast.Call) and isinstance(e.func, ast.Name) and e.func.id in ("any", "all") and len(e.args) == 1 and not e.keywords
                and isinstance(e.args[0], ast.GeneratorExp) and len(e.args[0].generators) == 1):
            return None
        g = e.args[0]
        if _targets_ok(g.generators, self.outside) is None:
            return None
        elt = g.elt
        if e.func.id == "all":  # all(e) == not any(not e)
            elt = ast.copy_location(ast.UnaryOp(op=ast.Not(), operand=elt), elt)
            neg = not neg
        return g.generators, elt, not neg

    def _search_loop(self, gens, elt, found, exhausted, at):
        if any(isinstance(x, (ast.Break, ast.Continue)) for b in found for x in ast.walk(b)):
            return None
        inner = list(found)
        if not inner or not isinstance(inner[-1], (ast.Return, ast.Raise)):
            inner.append(ast.copy_location(ast.Break(), at))
        loop = self._loops(gens, [ast.copy_location(ast.If(test=elt, body=inner, orelse=[]), at)], at)
        loop[0].orelse = list(exhausted)
        return loop

    def _stmt(self, s):
        # any(...) / all(...) over a generator expression as a statement's condition or result: a search loop ---------
        if isinstance(s, ast.If):
            aa = self._anyall(s.test)
            if aa is not None:
                gens, elt, pos = aa
                r = self._search_loop(gens, elt, s.body if pos else s.orelse, s.orelse if pos else s.body, s)
                if r is not None:
                    return [ast.fix_missing_locations(x) for x in r]
        if isinstance(s, ast.Return) and s.value is not None:
            aa = self._anyall(s.value)
            if aa is not None:
                gens, elt, pos = aa
                r = self._search_loop(gens, elt, [ast.copy_location(ast.Return(value=ast.Constant(value=pos)), s)], [], s)
                if r is not None:
                    return [ast.fix_missing_locations(x) for x in r] + [ast.copy_location(ast.Return(value=ast.Constant(value=not pos)), s)]
        # conditional expressions ---------------------------------------------------------
        if isinstance(s, ast.Assign) and isinstance(s.value, ast.IfExp):
            a = ast.copy_location(ast.Assign(targets=s.targets, value=s.value.body, lineno=s.lineno), s)
            b = ast.copy_location(ast.Assign(targets=s.targets, value=s.value.orelse, lineno=s.lineno), s)
            return self._block([ast.copy_location(ast.If(test=s.value.test, body=[a], orelse=[b]), s)])
        if isinstance(s, ast.AugAssign) and isinstance(s.value, ast.IfExp):
            a = ast.copy_location(ast.AugAssign(target=s.target, op=s.op, value=s.value.body), s)
            b = ast.copy_location(ast.AugAssign(target=s.target, op=s.op, value=s.value.orelse), s)
            return self._block([ast.copy_location(ast.If(test=s.value.test, body=[a], orelse=[b]), s)])
        if isinstance(s, ast.Return) and isinstance(s.value, ast.IfExp):
            a = ast.copy_location(ast.Return(value=s.value.body), s)
            b = ast.copy_location(ast.Return(value=s.value.orelse), s)
            return self._block([ast.copy_location(ast.If(test=s.value.test, body=[a], orelse=[]), s), b])
        # a conditional expression nested in the value, evaluated before anything with an effect: split the statement
        if isinstance(s, (ast.Assign, ast.AugAssign, ast.Return, ast.Expr)) and getattr(s, "value", None) is not None:
            spot = _first_ifexp(s.value)
            if spot is not None:
                import copy
                a, b = copy.deepcopy(s), copy.deepcopy(s)
                ia, ib = _first_ifexp(a.value), _first_ifexp(b.value)
                _replace(a, ia, ia[3].body)
                _replace(b, ib, ib[3].orelse)
                test = spot[3].test
                if isinstance(s, ast.Return):
                    return self._block([ast.copy_location(ast.If(test=test, body=[a], orelse=[]), s), b])
                return self._block([ast.copy_location(ast.If(test=test, body=[a], orelse=[b]), s)])
        # `for k, v in {literal dict}.items()` is a loop over the literal pairs
        if isinstance(s, ast.For) and isinstance(s.iter, ast.Call) and isinstance(s.iter.func, ast.Attribute) and s.iter.func.attr in ("items", "keys", "values") \
                and not s.iter.args and isinstance(s.iter.func.value, ast.Dict) and all(k is not None for k in s.iter.func.value.keys):
            d = s.iter.func.value
            if s.iter.func.attr == "items":
                elts = [ast.Tuple(elts=[k, v], ctx=ast.Load()) for k, v in zip(d.keys, d.values)]
            else:
                elts = list(d.keys if s.iter.func.attr == "keys" else d.values)
            s = ast.copy_location(ast.For(target=s.target, iter=ast.copy_location(ast.Tuple(elts=elts, ctx=ast.Load()), s.iter), body=s.body, orelse=s.orelse), s)
            ast.fix_missing_locations(s)
        # a loop over a short literal sequence of call-free expressions is unrolled
        if isinstance(s, ast.For) and not s.orelse and isinstance(s.iter, (ast.Tuple, ast.List)) and 1 <= len(s.iter.elts) <= 8 \
                and not any(isinstance(x, (ast.Break, ast.Continue, ast.Yield, ast.YieldFrom)) for b in s.body for x in ast.walk(b)) \
                and not any(isinstance(e, ast.Starred) or any(isinstance(x, (ast.Call, ast.Await, ast.NamedExpr)) for x in ast.walk(e)) for e in s.iter.elts):
            # plain name target, or a tuple target over literal tuples of the same arity
            if isinstance(s.target, ast.Name):
                names, rows = [s.target.id], [[e] for e in s.iter.elts]
            elif isinstance(s.target, (ast.Tuple, ast.List)) and all(isinstance(t, ast.Name) for t in s.target.elts) \
                    and all(isinstance(e, (ast.Tuple, ast.List)) and len(e.elts) == len(s.target.elts) for e in s.iter.elts):
                names, rows = [t.id for t in s.target.elts], [list(e.elts) for e in s.iter.elts]
            else:
                names, rows = None, None
            if names:
                stored = {x.id for b in s.body for x in ast.walk(b) if isinstance(x, ast.Name) and isinstance(x.ctx, (ast.Store, ast.Del))}
                elt_names = {x.id for e in s.iter.elts for x in ast.walk(e) if isinstance(x, ast.Name)}
                used_after = any(self.outside.get(v, 0) > sum(1 for x in ast.walk(s) if isinstance(x, ast.Name) and x.id == v) for v in names)
                if not (set(names) & stored) and not (stored & elt_names) and not used_after:
                    import copy
                    out = []
                    for row in rows:
                        for b in s.body:
                            b2 = copy.deepcopy(b)
                            for v, e in zip(names, row):
                                b2 = _SubstName(v, e).visit(b2)
                            out.append(b2)
                    return self._block(out)
        # `xs.extend(E for v in it)` -> `for v in it: xs.append(E)`
        if isinstance(s, ast.Expr) and isinstance(s.value, ast.Call) and isinstance(s.value.func, ast.Attribute) and s.value.func.attr == "extend" \
                and isinstance(s.value.func.value, ast.Name) and len(s.value.args) == 1 and not s.value.keywords \
                and isinstance(s.value.args[0], (ast.ListComp, ast.GeneratorExp)):
            c = s.value.args[0]
            lst = s.value.func.value.id
            if _targets_ok(c.generators, self.outside) is not None and not any(isinstance(x, ast.Name) and x.id == lst for x in ast.walk(c)):
                step = ast.copy_location(ast.Expr(value=ast.Call(func=ast.Attribute(value=ast.Name(id=lst, ctx=ast.Load()), attr="append", ctx=ast.Load()),
                                                                 args=[c.elt], keywords=[])), s)
                return self._loops(c.generators, [step], s)
        # comprehensions ------------------------------------------------------------------
        if isinstance(s, ast.Assign) and len(s.targets) == 1 and isinstance(s.targets[0], ast.Name):
            r = self._expand(s.targets[0].id, s.value, s)
            if r is not None:
                return r
            r = self._hoist_arg(s.value, s)
            if r is not None:
                pre, v2 = r
                return pre + [ast.copy_location(ast.Assign(targets=s.targets, value=v2, lineno=s.lineno), s)]
        if isinstance(s, ast.AugAssign) and isinstance(s.target, ast.Name) and isinstance(s.op, ast.Add):
            p = _comp_parts(s.value)
            if p is not None and p[0] in ("join", "sum"):
                r = self._expand(s.target.id, s.value, s, accumulate=True)
                if r is not None:
                    return r
        if isinstance(s, ast.Assign) and len(s.targets) == 1 and isinstance(s.targets[0], ast.Name):
            r = self._concat(s.targets[0].id, s.value, s)
            if r is not None:
                return r
        if isinstance(s, ast.Return) and s.value is not None:
            t0 = "_acc%d" % (self.k + 1) if self.k else "_acc"
            r = self._concat(t0, s.value, s)
            if r is not None:
                self._fresh()
                return r + [ast.copy_location(ast.Return(value=ast.Name(id=t0, ctx=ast.Load())), s)]
            if _comp_parts(s.value) is not None:
                t = self._fresh()
                r = self._expand(t, s.value, s)
                if r is not None:
                    return r + [ast.copy_location(ast.Return(value=ast.Name(id=t, ctx=ast.Load())), s)]
            r = self._hoist_arg(s.value, s)
            if r is not None:
                pre, v2 = r
                return pre + [ast.copy_location(ast.Return(value=v2), s)]
        return [s]

    def _concat(self, target, v, at):
        """`a + b"".join(E for v in it) + c` computed into `target` left to right (None when no term is a join)"""
        terms = []

        def flat(e):
            if isinstance(e, ast.BinOp) and isinstance(e.op, ast.Add):
                flat(e.left)
                flat(e.right)
            else:
                terms.append(e)
        flat(v)
        if len(terms) < 2 or not any((_comp_parts(t) or (None,))[0] == "join" for t in terms):
            return None
        if any(isinstance(x, ast.Name) and x.id == target for t in terms for x in ast.walk(t)):
            return None
        first = terms[0]
        out = []
        p0 = _comp_parts(first)
        if p0 is not None and p0[0] == "join":
            r = self._expand(target, first, at)
            if r is None:
                return None
            out += r
        else:
            out.append(ast.copy_location(ast.Assign(targets=[ast.Name(id=target, ctx=ast.Store())], value=first, lineno=at.lineno), at))
        for t in terms[1:]:
            p = _comp_parts(t)
            if p is not None and p[0] == "join":
                r = self._expand(target, t, at, accumulate=True)
                if r is None:
                    return None
                out += r
            else:
                out.append(ast.copy_location(ast.AugAssign(target=ast.Name(id=target, ctx=ast.Store()), op=ast.Add(), value=t), at))
        return out

    def _hoist_arg(self, v, at):
        """`f(<comprehension>)` with the comprehension as the only argument of a plain call: bind it to a temporary first"""
        def over_range(p):
            g = p[2]
            return len(g) == 1 and isinstance(g[0].iter, ast.Call) and isinstance(g[0].iter.func, ast.Name) and g[0].iter.func.id == "range"
        if isinstance(v, ast.Call) and len(v.args) == 1 and not v.keywords and _comp_parts(v.args[0]) is not None and _comp_parts(v) is None \
                and not any(isinstance(x, ast.Call) for x in ast.walk(v.func)) \
                and ((isinstance(v.func, ast.Name) and v.func.id in _WRAPPERS and _comp_parts(v.args[0])[0] == "join")
                     or (_comp_parts(v.args[0])[0] == "list" and over_range(_comp_parts(v.args[0]))
                         and not (isinstance(v.func, ast.Name) and v.func.id in _BUILTIN_CONSUMERS))):
            t = self._fresh()
            r = self._expand(t, v.args[0], at)
            if r is not None:
                return r, ast.copy_location(ast.Call(func=v.func, args=[ast.Name(id=t, ctx=ast.Load())], keywords=[]), v)
        return None

    def _block(self, stmts):
        out = []
        for s in stmts:
            out.extend(self._stmt(s))
        return out

    def generic_visit(self, node):
        super().generic_visit(node)
        for f in ("body", "orelse", "finalbody"):
            v = getattr(node, f, None)
            if isinstance(v, list) and v and isinstance(v[0], ast.stmt):
                setattr(node, f, self._block(v))
        if isinstance(node, ast.Try):
            for h in node.handlers:
                h.body = self._block(h.body)
        return node


class _SubstName(ast.NodeTransformer):
    def __init__(self, name, expr):
        self.name, self.expr = name, expr

    def visit_Name(self, n):
        if n.id == self.name and isinstance(n.ctx, ast.Load):
            import copy
            return ast.copy_location(copy.deepcopy(self.expr), n)
        return n


def _first_ifexp(val):
    """(parent, field, index, IfExp) of a conditional expression nested in `val` such that nothing evaluated before it
    has an effect (only names, attributes, constants, operators) and its own test is call-free; None otherwise"""
    found = []

    def pure(e):
        for x in ast.walk(e):
            if isinstance(x, ast.Call) and not (isinstance(x.func, ast.Name) and x.func.id in ("bool", "len", "isinstance", "abs", "min", "max")):
                return False
            if isinstance(x, (ast.Await, ast.Yield, ast.YieldFrom, ast.NamedExpr)):
                return False
        return True

    def walk(node, parent, field, idx):
        """returns False when an effectful node was met before any IfExp"""
        if found:
            return True
        if isinstance(node, ast.IfExp):
            if parent is not None and pure(node.test):
                found.append((parent, field, idx, node))
                return True
            return False
        if isinstance(node, (ast.Lambda, ast.ListComp, ast.SetComp, ast.DictComp, ast.GeneratorExp, ast.BoolOp)):
            return pure(node)
        # children in evaluation order; a call's own effect happens after its arguments
        for f, v in ast.iter_fields(node):
            if isinstance(v, list):
                for i, x in enumerate(v):
                    if isinstance(x, ast.AST) and not walk(x, node, f, i):
                        return False
                    if found:
                        return True
            elif isinstance(v, ast.AST):
                if not walk(v, node, f, None):
                    return False
                if found:
                    return True
        return not isinstance(node, (ast.Call, ast.Await, ast.Yield, ast.YieldFrom, ast.NamedExpr))
    if isinstance(val, ast.IfExp):
        return None  # the whole-value case is handled separately
    walk(val, None, None, None)
    return found[0] if found else None


def _replace(stmt, spot, new):
    parent, field, idx, _ = spot
    if idx is None:
        setattr(parent, field, new)
    else:
        getattr(parent, field)[idx] = new


class _PartsRewriter(ast.NodeTransformer):
    def __init__(self, name, sep, owner):
        self.name, self.sep, self.owner = name, sep, owner

    def _acc(self, ctx):
        return ast.Name(id=self.name, ctx=ctx)

    def visit_Call(self, n):
        self.generic_visit(n)
        if isinstance(n.func, ast.Attribute) and n.func.attr == "join" and _is_empty_sep(n.func.value) and len(n.args) == 1 and isinstance(n.args[0], ast.Name) and n.args[0].id == self.name:
            return ast.copy_location(self._acc(ast.Load()), n)
        return n

    def _stmts(self, stmts):
        import copy
        out = []
        for s in stmts:
            if isinstance(s, ast.Assign) and len(s.targets) == 1 and isinstance(s.targets[0], ast.Name) and s.targets[0].id == self.name and isinstance(s.value, ast.List):
                v = copy.deepcopy(self.sep)
                for e in s.value.elts:
                    v = ast.copy_location(ast.BinOp(left=v, op=ast.Add(), right=e), s) if not _is_empty_sep(v) else e
                out.append(ast.copy_location(ast.Assign(targets=[self._acc(ast.Store())], value=v, lineno=s.lineno), s))
                continue
            if isinstance(s, ast.Expr) and isinstance(s.value, ast.Call) and isinstance(s.value.func, ast.Attribute) and isinstance(s.value.func.value, ast.Name) \
                    and s.value.func.value.id == self.name and s.value.func.attr in ("append", "extend"):
                a = s.value.args[0]
                if s.value.func.attr == "append":
                    out.append(ast.copy_location(ast.AugAssign(target=self._acc(ast.Store()), op=ast.Add(), value=a), s))
                elif isinstance(a, (ast.List, ast.Tuple)):
                    for e in a.elts:
                        out.append(ast.copy_location(ast.AugAssign(target=self._acc(ast.Store()), op=ast.Add(), value=e), s))
                else:
                    step = ast.copy_location(ast.AugAssign(target=self._acc(ast.Store()), op=ast.Add(), value=a.elt), s)
                    out.extend(self.owner._loops(a.generators, [step], s))
                continue
            out.append(s)
        return out

    def generic_visit(self, node):
        super().generic_visit(node)
        for f in ("body", "orelse", "finalbody"):
            v = getattr(node, f, None)
            if isinstance(v, list) and v and isinstance(v[0], ast.stmt):
                setattr(node, f, self._stmts(v))
        return node


def _store(t):
    import copy
    t = copy.deepcopy(t)
    for n in ast.walk(t):
        if isinstance(n, (ast.Name, ast.Tuple, ast.List, ast.Starred)):
            n.ctx = ast.Store()
    return t


def desugar(tree):
    return ast.fix_missing_locations(Desugar().visit(tree))


def expand_table_functions(tree):
    """Module-level functions generated from a table:

        TABLE = {"name_a": <expr a>, "name_b": <expr b>}
        def factory(name, value):
            def inner(msg): return helper(value, msg)
            ...
            return inner
        for k, v in TABLE.items():
            globals()[k] = factory(k, v)

    is rewritten into the definitions it produces (`def name_a(msg): return helper(<expr a>, msg)`, ...), appended to the module, so that
    every rule sees the same functions as in the hand-written form.  Only this exact shape is expanded: a dict literal with string keys,
    a loop over its .items() whose body is the single globals() store, and a factory that returns one nested function."""
    import copy
    body = tree.body
    tables = {s.targets[0].id: s.value for s in body if isinstance(s, ast.Assign) and len(s.targets) == 1 and isinstance(s.targets[0], ast.Name) and isinstance(s.value, ast.Dict)
              and all(isinstance(k, ast.Constant) and isinstance(k.value, str) for k in s.value.keys)}
    funcs = {s.name: s for s in body if isinstance(s, ast.FunctionDef)}
    new = []
    for st in body:
        if not (isinstance(st, ast.For) and isinstance(st.target, ast.Tuple) and len(st.target.elts) == 2 and all(isinstance(e, ast.Name) for e in st.target.elts)
                and isinstance(st.iter, ast.Call) and isinstance(st.iter.func, ast.Attribute) and st.iter.func.attr == "items" and isinstance(st.iter.func.value, ast.Name)
                and st.iter.func.value.id in tables and not st.iter.args and len(st.body) == 1 and not st.orelse):
            continue
        kname, vname = st.target.elts[0].id, st.target.elts[1].id
        a = st.body[0]
        if not (isinstance(a, ast.Assign) and len(a.targets) == 1 and isinstance(a.targets[0], ast.Subscript) and isinstance(a.targets[0].value, ast.Call)
                and isinstance(a.targets[0].value.func, ast.Name) and a.targets[0].value.func.id == "globals" and isinstance(a.targets[0].slice, ast.Name)
                and a.targets[0].slice.id == kname and isinstance(a.value, ast.Call) and isinstance(a.value.func, ast.Name) and a.value.func.id in funcs
                and all(isinstance(x, ast.Name) and x.id in (kname, vname) for x in a.value.args) and not a.value.keywords):
            continue
        fac = funcs[a.value.func.id]
        inner = [x for x in fac.body if isinstance(x, ast.FunctionDef)]
        rets = [x for x in fac.body if isinstance(x, ast.Return)]
        if len(inner) != 1 or len(rets) != 1 or not (isinstance(rets[0].value, ast.Name) and rets[0].value.id == inner[0].name):
            continue
        fparams = [x.arg for x in fac.args.args]
        if len(fparams) != len(a.value.args):
            continue
        table = tables[st.iter.func.value.id]
        for k, v in zip(table.keys, table.values):
            bind = {}
            for p_, arg in zip(fparams, a.value.args):
                bind[p_] = ast.Constant(value=k.value) if arg.id == kname else v
            fn = copy.deepcopy(inner[0])
            fn.name = k.value
            shadow = {x.arg for x in fn.args.args}

            class _Sub(ast.NodeTransformer):
                def visit_Name(self, node):
                    if isinstance(node.ctx, ast.Load) and node.id in bind and node.id not in shadow:
                        return ast.copy_location(copy.deepcopy(bind[node.id]), node)
                    return node
            fn = _Sub().visit(fn)
            ast.fix_missing_locations(fn)
            new.append(fn)
    if new:
        have = {s.name for s in body if isinstance(s, ast.FunctionDef)}
        tree.body = body + [f for f in new if f.name not in have]
    # methods produced by a factory in a class body:  `__add__ = _operator("__add__", lambda a, b, p: (a + b) % p)`
    for cls_ in [c for c in tree.body if isinstance(c, ast.ClassDef)]:
        for i, st in enumerate(list(cls_.body)):
            if not (isinstance(st, ast.Assign) and len(st.targets) == 1 and isinstance(st.targets[0], ast.Name) and isinstance(st.value, ast.Call)
                    and isinstance(st.value.func, ast.Name) and st.value.func.id in funcs and not st.value.keywords):
                continue
            fac = funcs[st.value.func.id]
            inner = [x for x in fac.body if isinstance(x, ast.FunctionDef)]
            rets = [x for x in fac.body if isinstance(x, ast.Return)]
            fparams = [x.arg for x in fac.args.args]
            if len(inner) != 1 or len(rets) != 1 or not (isinstance(rets[0].value, ast.Name) and rets[0].value.id == inner[0].name) or len(fparams) != len(st.value.args):
                continue
            if not all(isinstance(a_, (ast.Constant, ast.Lambda, ast.Name)) for a_ in st.value.args):
                continue
            bind = dict(zip(fparams, st.value.args))
            fn = copy.deepcopy(inner[0])
            fn.name = st.targets[0].id
            shadow = {x.arg for x in fn.args.args}

            class _Sub2(ast.NodeTransformer):
                def visit_Name(self, node):
                    if isinstance(node.ctx, ast.Load) and node.id in bind and node.id not in shadow:
                        return ast.copy_location(copy.deepcopy(bind[node.id]), node)
                    return node

                def visit_Call(self, node):
                    self.generic_visit(node)
                    f_ = node.func
                    # (lambda a, b: body)(x, y) with plain parameters and side-effect-free arguments: the body with the arguments written in
                    if isinstance(f_, ast.Lambda) and not node.keywords and not f_.args.vararg and not f_.args.kwarg and not f_.args.defaults \
                            and len(f_.args.args) == len(node.args) and all(isinstance(a_, (ast.Name, ast.Attribute, ast.Constant)) for a_ in node.args):
                        m_ = {p_.arg: a_ for p_, a_ in zip(f_.args.args, node.args)}

                        class _Beta(ast.NodeTransformer):
                            def visit_Name(self, n2):
                                if isinstance(n2.ctx, ast.Load) and n2.id in m_:
                                    return ast.copy_location(copy.deepcopy(m_[n2.id]), n2)
                                return n2
                        return ast.copy_location(_Beta().visit(copy.deepcopy(f_.body)), node)
                    return node
            fn = _Sub2().visit(fn)
            ast.copy_location(fn, st)
            ast.fix_missing_locations(fn)
            cls_.body[cls_.body.index(st)] = fn
    return tree
