"""Typed attribute read-sets (NONINT / MEMO): which (class, attribute) pairs a method reads, transitively.

Types of attributes are *derived from the repository*: from what the parse classmethods construct
(`inputs.append(TxIn.parse(s))` + constructor binding) and from constructor calls in `__init__`
(`self.witness = Witness()`), never from a frozen table.
"""
import ast

from .layout import ReaderExec
from .layoutcmp import _walk_reads, ctor_fields
from .loader import AnalysisError, param_names


def derive_types(repo):
    """{(module, Class, attr): ('one'|'list', (module, Class))}"""
    types = {}
    for mod in repo.modules.values():
        for qn, fn in mod.functions.items():
            if "." not in qn:
                continue
            cls, meth = qn.split(".", 1)
            if meth == "__init__":
                for st in ast.walk(fn):
                    if isinstance(st, ast.Assign) and isinstance(st.targets[0], ast.Attribute) and isinstance(st.targets[0].value, ast.Name) \
                            and st.targets[0].value.id == "self" and isinstance(st.value, ast.Call) and isinstance(st.value.func, ast.Name):
                        r = repo.resolve_name(mod.name, st.value.func.id)
                        if r and r[1] in repo.modules[r[0]].classes:
                            types.setdefault((mod.name, cls, st.targets[0].attr), ("one", r))
            if meth.startswith("parse") or meth == "raw_parse":
                try:
                    reads = ReaderExec(repo, mod, fn).run()
                except Exception:
                    continue
                fields = {}
                for r in _walk_reads(reads):
                    if r[0] == "return" and r[1].value is not None and isinstance(r[1].value, ast.Call):
                        fields.update(ctor_fields(repo, mod, fn, r[1].value))

                def visit(rs, in_repeat):
                    for r in rs:
                        if r[0] == "read" and r[1] == "nested" and r[4]:
                            target = r[2]  # e.g. TxIn.parse
                            cname = target.split(".")[0]
                            rr = repo.resolve_name(mod.name, cname)
                            if not rr or rr[1] not in repo.modules[rr[0]].classes:
                                continue
                            b = r[4]
                            if b.endswith("[]"):
                                f = fields.get(b[:-2])
                                if f:
                                    types[(mod.name, cls, f)] = ("list", rr)
                            elif "." in b:
                                # tx_in.witness = Witness.parse(s): attribute of an element type
                                base, attr = b.split(".", 1)
                                # find the element type of the list `base` iterates: handled by caller through loop var binding
                                types.setdefault(("?", base, attr), ("one", rr))
                            else:
                                f = fields.get(b)
                                if f:
                                    types[(mod.name, cls, f)] = ("one", rr)
                        elif r[0] == "repeat":
                            visit(r[2], True)
                        elif r[0] == "alt":
                            visit(r[2], in_repeat)
                            visit(r[3], in_repeat)
                visit(reads, False)
    return types


class Effects:
    def __init__(self, repo, types=None):
        self.repo = repo
        self.types = types if types is not None else derive_types(repo)
        self.unresolved = []
        self.resolved = 0
        self._memo = {}

    def attr_type(self, cls, attr):
        """cls = (module, Class)"""
        for m2, c2 in self.repo.mro(*cls):
            t = self.types.get((m2, c2, attr))
            if t:
                return t
        return None

    def reads(self, spec, _stack=None):
        """Transitive set of (Class, attr) read starting from 'module:Class.method'."""
        mod, fn = self.repo.func(spec)
        qn = spec.split(":")[1]
        cls = (mod.name, qn.split(".")[0]) if "." in qn else None
        return self._reads(mod, fn, cls, _stack or set())

    def _reads(self, mod, fn, cls, stack):
        key = (mod.name, fn.name, fn.lineno, cls)
        if key in self._memo:
            return self._memo[key]
        if key in stack:
            return set()
        stack = stack | {key}
        out = set()
        selfn = param_names(fn)[0] if param_names(fn) else None
        env = {}  # local name -> (module, Class)
        if cls and selfn:
            env[selfn] = cls

        def type_of(e):
            if isinstance(e, ast.Name):
                return env.get(e.id)
            if isinstance(e, ast.Attribute):
                bt = type_of(e.value)
                if bt:
                    t = self.attr_type(bt, e.attr)
                    if t and t[0] == "one":
                        return t[1]
                return None
            if isinstance(e, ast.Subscript):
                if isinstance(e.value, ast.Attribute):
                    bt = type_of(e.value.value)
                    if bt:
                        t = self.attr_type(bt, e.value.attr)
                        if t and t[0] == "list" and not isinstance(e.slice, ast.Slice):
                            return t[1]
                return None
            if isinstance(e, ast.Call) and isinstance(e.func, ast.Name):
                r = self.repo.resolve_name(mod.name, e.func.id)
                if r and r[1] in self.repo.modules[r[0]].classes:
                    return r
            return None

        def elem_type(it):
            if isinstance(it, ast.Call) and isinstance(it.func, ast.Name) and it.func.id in ("enumerate", "reversed", "sorted", "list") and it.args:
                return elem_type(it.args[0])
            if isinstance(it, ast.Attribute):
                bt = type_of(it.value)
                if bt:
                    t = self.attr_type(bt, it.attr)
                    if t and t[0] == "list":
                        return t[1]
            return None

        # first pass: bind loop variables and simple aliases (flow-insensitive)
        for st in ast.walk(fn):
            if isinstance(st, ast.For):
                et = elem_type(st.iter)
                if et:
                    names = [n for n in ast.walk(st.target) if isinstance(n, ast.Name)]
                    env[names[-1].id] = et
            elif isinstance(st, (ast.ListComp, ast.GeneratorExp, ast.SetComp)):
                for g in st.generators:
                    et = elem_type(g.iter)
                    if et:
                        names = [n for n in ast.walk(g.target) if isinstance(n, ast.Name)]
                        env[names[-1].id] = et
        for st in ast.walk(fn):
            if isinstance(st, ast.Assign) and isinstance(st.targets[0], ast.Name):
                t = type_of(st.value)
                if t:
                    env.setdefault(st.targets[0].id, t)

        for node in ast.walk(fn):
            if isinstance(node, ast.Attribute) and isinstance(node.ctx, ast.Load):
                bt = type_of(node.value)
                if bt:
                    # is it a method call?  handled below; record data attribute reads only
                    r = self.repo.resolve_method(bt[0], bt[1], node.attr)
                    if not r:
                        out.add((bt[1], node.attr))
            if isinstance(node, ast.Call):
                f = node.func
                if isinstance(f, ast.Attribute):
                    bt = type_of(f.value)
                    if bt:
                        r = self.repo.resolve_method(bt[0], bt[1], f.attr)
                        if r:
                            self.resolved += 1
                            # the defining class for `self` inside the callee stays the receiver's class
                            out |= self._reads(r[0], r[1], bt, stack)
                            # subclass overrides
                            for sm, sc in self.repo.subclasses(bt[0], bt[1]):
                                m2 = self.repo.modules[sm]
                                if sc + "." + f.attr in m2.functions:
                                    out |= self._reads(m2, m2.functions[sc + "." + f.attr], (sm, sc), stack)
                        else:
                            self.unresolved.append("%s:%d %s.%s()" % (mod.path, node.lineno, bt[1], f.attr))
                    else:
                        if isinstance(f.value, ast.Call) and isinstance(f.value.func, ast.Name) and f.value.func.id == "super" and cls:
                            for m2, c2 in self.repo.mro(*cls)[1:]:
                                mm = self.repo.modules[m2]
                                if c2 + "." + f.attr in mm.functions:
                                    out |= self._reads(mm, mm.functions[c2 + "." + f.attr], cls, stack)
                                    break
                        else:
                            self.unresolved.append("%s:%d %s()" % (mod.path, node.lineno, ast.unparse(f)[:60]))
                elif isinstance(f, ast.Name):
                    r = self.repo.resolve_name(mod.name, f.id)
                    if r and r[1] in self.repo.modules[r[0]].functions:
                        self.resolved += 1
                        m2 = self.repo.modules[r[0]]
                        out |= self._reads(m2, m2.functions[r[1]], None, stack)
        self._memo[key] = out
        return out
