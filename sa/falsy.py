"""FALSY-DEFAULT rule shared by several properties: a parameter replaced by a default through its truth value.

`value = param or DEFAULT` and `if not param: param = DEFAULT` substitute DEFAULT not only for "no argument" (None) but for
every falsy argument: 0, b"", "" -- which are legal values of integer and byte-string parameters (leaf version 0, start
height 0, an empty passphrase).  When DEFAULT is itself falsy-equivalent (`x or {}`, `items or []`) nothing changes; when it
is a truthy constant the legal falsy argument is silently turned into another value.  The rule flags only the second kind:
a parameter defaulted by truthiness to a non-empty / non-zero constant.  On the reference tree there is none."""
import ast

from .fold import Folder, Unknown


def _truthy_const(repo, modname, e):
    v = Folder(repo, modname).fold(e)
    if v is Unknown:
        return None
    if isinstance(v, bool) or v is None:
        return None
    if isinstance(v, (int, bytes, str)) and v:
        return v
    return None


class _Expr(str):
    """a replacement that is not a constant (shown as source text)"""


def falsy_default_sites(repo, mod):
    """[(qualname, node, parameter, default value)]"""
    out = []
    for qn, fn in mod.functions.items():
        params = {a.arg for a in fn.args.posonlyargs + fn.args.args + fn.args.kwonlyargs} - {"self", "cls"}
        pos = fn.args.posonlyargs + fn.args.args
        none_default = {a.arg for a, d in zip(pos[len(pos) - len(fn.args.defaults):], fn.args.defaults) if isinstance(d, ast.Constant) and d.value is None}
        none_default |= {a.arg for a, d in zip(fn.args.kwonlyargs, fn.args.kw_defaults) if isinstance(d, ast.Constant) and d.value is None}
        for n in ast.walk(fn):
            if isinstance(n, ast.BoolOp) and isinstance(n.op, ast.Or) and len(n.values) == 2 and isinstance(n.values[0], ast.Name) and n.values[0].id in params:
                v = _truthy_const(repo, mod.name, n.values[1])
                if v is not None:
                    out.append((qn, n, n.values[0].id, v))
                elif n.values[0].id in none_default and isinstance(n.values[1], (ast.Attribute, ast.Call, ast.Name, ast.Subscript)) \
                        and Folder(repo, mod.name).fold(n.values[1]) is Unknown:
                    # the declared "missing" marker is None, the test is truthiness, and the replacement is a value of the object / a computed one:
                    # an explicit False / 0 / b"" is replaced as well
                    out.append((qn, n, n.values[0].id, _Expr(ast.unparse(n.values[1]))))
            elif isinstance(n, ast.IfExp) and isinstance(n.test, ast.Name) and n.test.id in params and isinstance(n.body, ast.Name) and n.body.id == n.test.id:
                v = _truthy_const(repo, mod.name, n.orelse)
                if v is not None:
                    out.append((qn, n, n.test.id, v))
            elif isinstance(n, ast.If) and not n.orelse and len(n.body) == 1 and isinstance(n.body[0], ast.Assign) and len(n.body[0].targets) == 1 \
                    and isinstance(n.body[0].targets[0], ast.Name) and n.body[0].targets[0].id in params:
                p = n.body[0].targets[0].id
                t = n.test
                if isinstance(t, ast.UnaryOp) and isinstance(t.op, ast.Not) and isinstance(t.operand, ast.Name) and t.operand.id == p:
                    v = _truthy_const(repo, mod.name, n.body[0].value)
                    if v is not None:
                        out.append((qn, n, p, v))
    return out


def falsy_default_obligation(ctx, modnames, what):
    out = []
    looked = 0
    for mn in modnames:
        mod = ctx.repo.module(mn)
        looked += len(mod.functions)
        for qn, n, p, v in falsy_default_sites(ctx.repo, mod):
            shown = ("`%s`" % v) if isinstance(v, _Expr) else (hex(v) if isinstance(v, int) else repr(v))
            out.append(ctx.bad("%s:%s" % (mn, qn), "`%s` replaces every falsy `%s` (False, 0, b'', '') by %s, not only a missing one: %s" % (
                ast.unparse(n)[:70].split("\n")[0], p, shown, what), n, mod, key="falsy-default:%s:%s" % (qn, p)))
    if not out:
        out.append(ctx.ok("+".join(modnames) + ":*", "no parameter is defaulted by truthiness to a non-empty constant (%d functions inspected)" % looked, key="falsy-default"))
    return out
