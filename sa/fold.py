"""Constant folder: evaluates literal expressions of the repository without importing it."""
import ast
import math
from fractions import Fraction


class _Unknown:
    def __repr__(self):
        return "Unknown"

    def __bool__(self):
        return False


Unknown = _Unknown()

_BIN = {
    ast.Add: lambda a, b: a + b,
    ast.Sub: lambda a, b: a - b,
    ast.Mult: lambda a, b: a * b,
    ast.FloorDiv: lambda a, b: a // b,
    ast.Mod: lambda a, b: a % b,
    ast.LShift: lambda a, b: a << b,
    ast.RShift: lambda a, b: a >> b,
    ast.BitAnd: lambda a, b: a & b,
    ast.BitOr: lambda a, b: a | b,
    ast.BitXor: lambda a, b: a ^ b,
}


class Folder:
    """Folds expressions in the scope of one module; `env` gives extra local bindings."""

    def __init__(self, repo, modname, env=None, exact_div=False):
        self.repo = repo
        self.modname = repo.alias(modname)
        self.env = dict(env or {})
        self.exact_div = exact_div  # True: '/' yields Fraction (exact rational) instead of float
        self._stack = set()

    def fold(self, node):
        try:
            return self._f(node)
        except (ArithmeticError, ValueError, TypeError, OverflowError, KeyError, IndexError, RecursionError):
            return Unknown

    def _name(self, name):
        if name in self.env:
            return self.env[name]
        r = self.repo.resolve_name(self.modname, name)
        if not r:
            return Unknown
        mod, nm = r
        key = (mod, nm)
        if key in self._stack:
            return Unknown
        m = self.repo.modules[mod]
        if nm not in m.constants or len(m.const_multi.get(nm, [0])) > 1:
            return Unknown
        self._stack.add(key)
        try:
            sub = Folder(self.repo, mod, exact_div=self.exact_div)
            sub._stack = self._stack
            return sub._f(m.constants[nm])
        finally:
            self._stack.discard(key)

    def _f(self, n):
        if isinstance(n, ast.Constant):
            if isinstance(n.value, float) and self.exact_div:
                return Fraction(n.value)
            return n.value
        if isinstance(n, ast.Name):
            return self._name(n.id)
        if isinstance(n, ast.Tuple):
            v = [self._f(e) for e in n.elts]
            return Unknown if any(x is Unknown for x in v) else tuple(v)
        if isinstance(n, ast.List):
            v = [self._f(e) for e in n.elts]
            return Unknown if any(x is Unknown for x in v) else list(v)
        if isinstance(n, ast.Set):
            v = [self._f(e) for e in n.elts]
            return Unknown if any(x is Unknown for x in v) else frozenset(v)
        if isinstance(n, ast.Dict):
            out = {}
            for k, v in zip(n.keys, n.values):
                if k is None:
                    return Unknown
                kk, vv = self._f(k), self._f(v)
                if kk is Unknown:
                    return Unknown
                out[kk] = vv  # values may be Unknown (e.g. function references)
            return out
        if isinstance(n, ast.UnaryOp):
            v = self._f(n.operand)
            if v is Unknown:
                return Unknown
            if isinstance(n.op, ast.USub):
                return -v
            if isinstance(n.op, ast.UAdd):
                return +v
            if isinstance(n.op, ast.Invert):
                return ~v
            if isinstance(n.op, ast.Not):
                return not v
        if isinstance(n, ast.BinOp):
            a, b = self._f(n.left), self._f(n.right)
            if a is Unknown or b is Unknown:
                return Unknown
            if isinstance(n.op, ast.Pow):
                if isinstance(b, int) and b < 0:
                    return Fraction(a) ** b if self.exact_div else a**b
                if isinstance(b, int) and b > 100000:
                    return Unknown
                return a**b
            if isinstance(n.op, ast.Div):
                if self.exact_div:
                    return Fraction(a) / Fraction(b)
                return a / b
            op = _BIN.get(type(n.op))
            if op is None:
                return Unknown
            if isinstance(n.op, ast.LShift) and isinstance(b, int) and b > 100000:
                return Unknown
            return op(a, b)
        if isinstance(n, ast.Call):
            return self._call(n)
        if isinstance(n, ast.Subscript):
            v = self._f(n.value)
            if v is Unknown:
                return Unknown
            if isinstance(n.slice, ast.Slice):
                lo = self._f(n.slice.lower) if n.slice.lower else None
                hi = self._f(n.slice.upper) if n.slice.upper else None
                st = self._f(n.slice.step) if n.slice.step else None
                if Unknown in (lo, hi, st):
                    return Unknown
                return v[lo:hi:st]
            i = self._f(n.slice)
            if i is Unknown:
                return Unknown
            return v[i]
        if isinstance(n, ast.Compare) and len(n.ops) == 1:
            a, b = self._f(n.left), self._f(n.comparators[0])
            if a is Unknown or b is Unknown:
                return Unknown
            op = n.ops[0]
            return {
                ast.Eq: lambda: a == b, ast.NotEq: lambda: a != b, ast.Lt: lambda: a < b,
                ast.LtE: lambda: a <= b, ast.Gt: lambda: a > b, ast.GtE: lambda: a >= b,
                ast.In: lambda: a in b, ast.NotIn: lambda: a not in b,
            }.get(type(op), lambda: Unknown)()
        if isinstance(n, ast.BoolOp):
            last = Unknown
            for v in n.values:
                last = self._f(v)
                if last is Unknown:
                    return Unknown
                if isinstance(n.op, ast.And) and not last:
                    return last
                if isinstance(n.op, ast.Or) and last:
                    return last
            return last
        if isinstance(n, ast.IfExp):
            t = self._f(n.test)
            if t is Unknown:
                return Unknown
            return self._f(n.body if t else n.orelse)
        if isinstance(n, (ast.ListComp, ast.SetComp, ast.GeneratorExp, ast.DictComp)):
            return self._comp(n)
        if isinstance(n, ast.JoinedStr):
            return Unknown
        if isinstance(n, ast.Attribute):
            # module-level class attribute e.g. Cls.CONST is not folded
            return Unknown
        return Unknown

    def _comp(self, n):
        if len(n.generators) != 1:
            return Unknown
        g = n.generators[0]
        it = self._f(g.iter)
        if it is Unknown or isinstance(it, dict) and False:
            return Unknown
        out = []
        try:
            items = list(it.items()) if False else list(it)
        except TypeError:
            return Unknown
        for x in items:
            env = dict(self.env)
            if isinstance(g.target, ast.Name):
                env[g.target.id] = x
            elif isinstance(g.target, ast.Tuple) and all(isinstance(e, ast.Name) for e in g.target.elts):
                for e, xv in zip(g.target.elts, x):
                    env[e.id] = xv
            else:
                return Unknown
            sub = Folder(self.repo, self.modname, env, self.exact_div)
            sub._stack = self._stack
            ok = True
            for c in g.ifs:
                cv = sub._f(c)
                if cv is Unknown:
                    return Unknown
                ok = ok and bool(cv)
            if not ok:
                continue
            if isinstance(n, ast.DictComp):
                k, v = sub._f(n.key), sub._f(n.value)
                if k is Unknown:
                    return Unknown
                out.append((k, v))
            else:
                v = sub._f(n.elt)
                if v is Unknown:
                    return Unknown
                out.append(v)
        if isinstance(n, ast.DictComp):
            return dict(out)
        if isinstance(n, ast.SetComp):
            return frozenset(out)
        return out

    def _call(self, n):
        f = n.func
        args = [self._f(a) for a in n.args]
        if any(a is Unknown for a in args) or n.keywords:
            # allow int(x, 16) style handled below only with known args
            return Unknown
        if isinstance(f, ast.Attribute):
            if isinstance(f.value, ast.Name) and f.value.id == "bytes" and f.attr == "fromhex":
                return bytes.fromhex(args[0])
            if isinstance(f.value, ast.Name) and f.value.id == "math":
                if f.attr == "ceil":
                    return math.ceil(args[0])
                if f.attr == "floor":
                    return math.floor(args[0])
                return Unknown
            recv = self._f(f.value)
            if recv is Unknown:
                return Unknown
            if isinstance(recv, (str, bytes)) and f.attr in (
                "encode", "decode", "lower", "upper", "split", "join", "strip", "hex", "format", "startswith", "endswith", "replace", "count", "find", "index",
            ):
                try:
                    return getattr(recv, f.attr)(*args)
                except Exception:
                    return Unknown
            if isinstance(recv, dict) and f.attr in ("keys", "values", "items"):
                return list(getattr(recv, f.attr)())
            return Unknown
        if isinstance(f, ast.Name):
            nm = f.id
            simple = {
                "int": int, "len": len, "bytes": bytes, "tuple": tuple, "list": list, "set": frozenset,
                "frozenset": frozenset, "sorted": sorted, "min": min, "max": max, "sum": sum, "abs": abs,
                "pow": pow, "round": round, "range": lambda *a: list(range(*a)) if (len(a) and abs(a[-1] if len(a) == 1 else a[1]) < 100000) else Unknown,
                "dict": dict, "str": str, "chr": chr, "ord": ord, "bool": bool, "reversed": lambda x: list(reversed(x)),
                "float": (lambda x: Fraction(x)) if self.exact_div else float,
                "zip": lambda *a: list(zip(*a)), "enumerate": lambda x: list(enumerate(x)),
            }
            if nm in simple and nm not in self.env and not self.repo.resolve_name(self.modname, nm):
                try:
                    return simple[nm](*args)
                except Exception:
                    return Unknown
        return Unknown


def fold(repo, modname, node, env=None, exact_div=False):
    return Folder(repo, modname, env, exact_div).fold(node)


def module_const(repo, modname, name, exact_div=False):
    """Value of a module-level constant; AnalysisError when it vanished, Unknown if unfoldable."""
    from .loader import AnalysisError

    m = repo.module(modname)
    r = repo.resolve_name(m.name, name)
    if not r or r[1] not in repo.modules[r[0]].constants:
        raise AnalysisError("constant %s.%s vanished" % (m.name, name))
    return Folder(repo, r[0], exact_div=exact_div).fold(repo.modules[r[0]].constants[r[1]])
