"""CTOR-FORWARD rule: an alternative constructor passes on what it was told.

`parse(cls, s, network="mainnet")` reads / checks bytes under a network (or version, flag, ...) and ends in `cls(...)`.  When
`__init__` has a parameter of the same name and the call leaves it out, the object silently gets the default: an envelope
parsed from testnet bytes serialises with the mainnet magic.  The rule checks every classmethod that returns `cls(...)`:
each of its own parameters that is also a parameter of `__init__` must reach that call (by keyword or position)."""
import ast

from .dataflow import origins
from .cfg import cfg_of
from .loader import decorators, param_names


def forward_sites(repo, mod):
    """-> (checked calls, [(qualname, call node, parameter)])"""
    hits, n_calls = [], 0
    for qn, fn in mod.functions.items():
        if "." not in qn or "classmethod" not in decorators(fn):
            continue
        clsname = qn.split(".")[0]
        r = repo.resolve_method(mod.name, clsname, "__init__")
        if not r:
            continue
        init_ps = param_names(r[1])[1:]
        cfg = cfg_of(fn)
        from .dataflow import expand
        for n in cfg.returns():
            v = n.ast.value if n.ast is not None else None
            calls = [v] if isinstance(v, ast.Call) else ([e for e in v.elts if isinstance(e, ast.Call)] if isinstance(v, ast.Tuple) else [])
            for v in calls:
                target_ps = None
                if isinstance(v.func, ast.Name) and v.func.id in ("cls", clsname):
                    target_ps = init_ps
                elif isinstance(v.func, ast.Attribute) and isinstance(v.func.value, ast.Name) and v.func.value.id in ("cls", clsname):
                    r2 = repo.resolve_method(mod.name, clsname, v.func.attr)
                    if r2 and "classmethod" in decorators(r2[1]):
                        target_ps = param_names(r2[1])[1:]
                if target_ps is None:
                    continue
                own2 = [p for p in param_names(fn)[1:] if p in target_ps]
                if any(isinstance(a, ast.Starred) for a in v.args):
                    continue
                passed = {}
                opaque = False
                for i, a in enumerate(v.args):
                    if i < len(target_ps):
                        passed[target_ps[i]] = a
                for k in v.keywords:
                    if k.arg is not None:
                        passed[k.arg] = k.value
                        continue
                    d = expand(fn, n.id, k.value, depth=3)  # **options with options = dict(a=.., b=..) / {"a": ..}
                    if isinstance(d, ast.Call) and isinstance(d.func, ast.Name) and d.func.id == "dict" and not d.args and all(x.arg for x in d.keywords):
                        for x in d.keywords:
                            passed[x.arg] = x.value
                    elif isinstance(d, ast.Dict) and all(isinstance(x, ast.Constant) and isinstance(x.value, str) for x in d.keys):
                        for x, y in zip(d.keys, d.values):
                            passed[x.value] = y
                    else:
                        opaque = True
                if opaque:
                    continue
                n_calls += 1
                for p in own2:
                    if p not in passed:
                        # not handed on: fine only if the parameter is consumed to compute something that is handed on under another name
                        used_elsewhere = any(("param:" + p) in origins(fn, n.id, a) for a in passed.values())
                        if not used_elsewhere:
                            hits.append((qn, v, p))
    return n_calls, hits


def forward_obligation(ctx, modnames, what):
    out = []
    total = 0
    for mn in modnames:
        mod = ctx.repo.module(mn)
        c, hits = forward_sites(ctx.repo, mod)
        total += c
        for qn, v, p in hits:
            out.append(ctx.bad("%s:%s" % (mn, qn), "`%s` does not pass on its `%s` argument although __init__ takes one: the object is built with the default (%s)" % (
                ast.unparse(v)[:70], p, what), v, mod, key="ctor-forward:%s:%s" % (qn, p)))
    if not out:
        out.append(ctx.ok("+".join(modnames) + ":*", "every alternative constructor hands its own arguments on to __init__ (%d `cls(...)` calls inspected)" % total, key="ctor-forward"))
    return out
