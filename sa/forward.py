"""CTOR-FORWARD rule: an alternative constructor passes on what it was told.

`parse(cls, s, network="mainnet")` reads / checks bytes under a network (or version, flag, ...) and ends in `cls(...)`.  When
`__init__` has a parameter of the same name and the call leaves it out, the object silently gets the default: an envelope
parsed from testnet bytes serialises with the mainnet magic.  The rule checks every classmethod that returns `cls(...)`:
each of its own parameters that is also a parameter of `__init__` must reach that call (by keyword or position)."""
import ast

from .dataflow import origins
from .cfg import cfg_of
from .loader import decorators, param_names


def forward_sites(repo, mod):
    """-> (checked calls, [(qualname, call node, parameter)])"""
    hits, n_calls = [], 0
    for qn, fn in mod.functions.items():
        if "." not in qn or "classmethod" not in decorators(fn):
            continue
        clsname = qn.split(".")[0]
        r = repo.resolve_method(mod.name, clsname, "__init__")
        if not r:
            continue
        init_ps = param_names(r[1])[1:]
        cfg = cfg_of(fn)
        from .dataflow import expand
        for n in cfg.returns():
            v = n.ast.value if n.ast is not None else None
            calls = [v] if isinstance(v, ast.Call) else ([e for e in v.elts if isinstance(e, ast.Call)] if isinstance(v, ast.Tuple) else [])
            for v in calls:
                target_ps = None
                if isinstance(v.func, ast.Name) and v.func.id in ("cls", clsname):
                    target_ps = init_ps
                elif isinstance(v.func, ast.Attribute) and isinstance(v.func.value, ast.Name) and v.func.value.id in ("cls", clsname):
                    r2 = repo.resolve_method(mod.name, clsname, v.func.attr)
                    if r2 and "classmethod" in decorators(r2[1]):
                        target_ps = param_names(r2[1])[1:]
                if target_ps is None:
                    continue
                own2 = [p for p in param_names(fn)[1:] if p in target_ps]
                if any(isinstance(a, ast.Starred) for a in v.args):
                    continue
                passed = {}
                opaque = False
                for i, a in enumerate(v.args):
                    if i < len(target_ps):
                        passed[target_ps[i]] = a
                for k in v.keywords:
                    if k.arg is not None:
                        passed[k.arg] = k.value
                        continue
                    d = expand(fn, n.id, k.value, depth=3)  # **options with options = dict(a=.., b=..) / {"a": ..}
                    if isinstance(d, ast.Call) and isinstance(d.func, ast.Name) and d.func.id == "dict" and not d.args and all(x.arg for x in d.keywords):
                        for x in d.keywords:
                            passed[x.arg] = x.value
                    elif isinstance(d, ast.Dict) and all(isinstance(x, ast.Constant) and isinstance(x.value, str) for x in d.keys):
                        for x, y in zip(d.keys, d.values):
                            passed[x.value] = y
                    else:
                        opaque = True
                if opaque:
                    continue
                n_calls += 1
                for p in own2:
                    if p not in passed:
                        # not handed on: fine only if the parameter is consumed to compute something that is handed on under another name
                        used_elsewhere = any(("param:" + p) in origins(fn, n.id, a) for a in passed.values())
                        if not used_elsewhere:
                            hits.append((qn, v, p))
    return n_calls, hits


def forward_obligation(ctx, modnames, what):
    out = []
    total = 0
    for mn in modnames:
        mod = ctx.repo.module(mn)
        c, hits = forward_sites(ctx.repo, mod)
        total += c
        for qn, v, p in hits:
            out.append(ctx.bad("%s:%s" % (mn, qn), "`%s` does not pass on its `%s` argument although __init__ takes one: the object is built with the default (%s)" % (
                ast.unparse(v)[:70], p, what), v, mod, key="ctor-forward:%s:%s" % (qn, p)))
    if not out:
        out.append(ctx.ok("+".join(modnames) + ":*", "every alternative constructor hands its own arguments on to __init__ (%d `cls(...)` calls inspected)" % total, key="ctor-forward"))
    return out


# ----------------------------------------------------------------------------------------------------------------------------------
# SAME-NAME FORWARD: a parameter handed on to a callee's parameter of the same name must be handed on as it is.
# `recover(passphrase.strip())`, `decrypt(secret, passphrase.lower())`: the value is normalised on this path only, while the other
# side of the pair (encrypt / serialise / derive) uses it as given -- the two no longer agree for the values the normalisation changes.

def _callee(repo, mod, qn, call):
    """(module, function node, is_bound) for calls whose callee can be named: f(..), self.m(..), cls.m(..), Class.m(..), obj.m(..) when
    exactly one class of the repository's module defines m"""
    f = call.func
    cls = qn.split(".")[0] if "." in qn else None
    if isinstance(f, ast.Name):
        r = repo.resolve_name(mod.name, f.id)
        if r and r[1] in repo.modules[r[0]].functions:
            return repo.modules[r[0]], repo.modules[r[0]].functions[r[1]], False
        if r and r[1] in repo.modules[r[0]].classes:
            r2 = repo.resolve_method(r[0], r[1], "__init__")
            if r2:
                return r2[0], r2[1], True
        return None
    if isinstance(f, ast.Attribute):
        if isinstance(f.value, ast.Name) and f.value.id in ("self", "cls") and cls:
            r = repo.resolve_method(mod.name, cls, f.attr)
            if r:
                return r[0], r[1], "staticmethod" not in decorators(r[1])
            return None
        if isinstance(f.value, ast.Name):
            r = repo.resolve_name(mod.name, f.value.id)
            if r and r[1] in repo.modules[r[0]].classes:
                r2 = repo.resolve_method(r[0], r[1], f.attr)
                if r2:
                    return r2[0], r2[1], "staticmethod" not in decorators(r2[1])
                return None
        owners = [(m2, q2) for m2 in (mod,) for q2 in m2.functions if "." in q2 and q2.split(".", 1)[1] == f.attr]
        if len(owners) == 1:
            fn2 = owners[0][0].functions[owners[0][1]]
            return owners[0][0], fn2, "staticmethod" not in decorators(fn2)
    return None


def same_name_sites(repo, mod):
    """-> (calls with a same-name forward, [(qualname, call, parameter, argument expression)])"""
    hits, n = [], 0
    for qn, fn in mod.functions.items():
        own = set(param_names(fn)) - {"self", "cls"}
        if not own:
            continue
        stored = {x.id for x in ast.walk(fn) if isinstance(x, ast.Name) and isinstance(x.ctx, ast.Store)}
        for c in ast.walk(fn):
            if not isinstance(c, ast.Call) or any(isinstance(a, ast.Starred) for a in c.args):
                continue
            r = _callee(repo, mod, qn, c)
            if r is None:
                continue
            ps = param_names(r[1])
            if r[2] and ps:
                ps = ps[1:]
            passed = {}
            for i, a in enumerate(c.args):
                if i < len(ps):
                    passed[ps[i]] = a
            for k in c.keywords:
                if k.arg is not None:
                    passed[k.arg] = k.value
            for p, a in passed.items():
                if p not in own or p in stored:
                    continue
                names = [x for x in ast.walk(a) if isinstance(x, ast.Name) and x.id == p]
                if not names:
                    continue
                n += 1
                if isinstance(a, ast.Name):
                    continue
                # the parameter itself wrapped in a call / method call that changes some values: strip, lower, upper, replace, normalize, ...
                if isinstance(a, ast.Call) and isinstance(a.func, ast.Attribute) and isinstance(a.func.value, ast.Name) and a.func.value.id == p \
                        and a.func.attr in ("strip", "lstrip", "rstrip", "lower", "upper", "replace", "casefold", "title", "capitalize", "swapcase", "expandtabs", "zfill"):
                    hits.append((qn, c, p, a))
    return n, hits


def same_name_obligation(ctx, modnames, what):
    out = []
    total = 0
    for mn in modnames:
        mod = ctx.repo.module(mn)
        n, hits = same_name_sites(ctx.repo, mod)
        total += n
        for qn, c, p, a in hits:
            out.append(ctx.bad("%s:%s" % (mn, qn), "`%s` hands its parameter `%s` on as `%s`: the value is normalised on this path only, the other side of the pair uses it as given, so the "
                                                   "two disagree for every value the normalisation changes (%s)" % (qn, p, ast.unparse(a), what), c, mod, key="one-sided-normalisation:%s:%s" % (qn, p)))
    if not out:
        out.append(ctx.ok("+".join(modnames) + ":*", "every parameter handed on under its own name is handed on unchanged (%d forwards inspected)" % total, key="same-name-forward"))
    return out
