"""GENERATOR-ONCE: a generator expression can be walked once; the second walk is silently empty.

A generator expression handed straight to something that consumes it on the spot (`b"".join(...)`, `sum`, `any`, `list`, `sorted`,
`xs.extend(...)`) is fine.  One that is *kept* -- passed to a constructor or any other function of the repository, stored in an attribute,
returned, or bound to a name that is read more than once (or inside a loop) -- is right only on first use: a parsed control block whose
Merkle path is a generator serialises to its 33-byte header the second time.  Expected count on the reference tree: zero."""
import ast

_CONSUMERS = {"sum", "any", "all", "list", "tuple", "sorted", "set", "frozenset", "dict", "min", "max", "bytes", "bytearray", "next", "len", "enumerate", "zip", "reversed"}
_CONSUMING_METHODS = {"join", "extend", "update", "writelines", "fromkeys"}


def _consumed_here(parent, node):
    if isinstance(parent, ast.Call) and node in parent.args:
        f = parent.func
        if isinstance(f, ast.Name) and f.id in _CONSUMERS:
            return True
        if isinstance(f, ast.Attribute) and f.attr in _CONSUMING_METHODS:
            return True
    return False


def _is_ctor(repo, mod, qn, call):
    f = call.func
    if isinstance(f, ast.Name):
        if f.id == "cls":
            return True
        r = repo.resolve_name(mod.name, f.id)
        return bool(r and r[1] in repo.modules[r[0]].classes)
    return False


def _kept(repo, mod, qn, parents, node):
    """how the value of `node` (a generator expression, or the single read of the name it is bound to) is kept, or None"""
    p = parents.get(node)
    if isinstance(p, ast.Assign) and any(isinstance(t, (ast.Attribute, ast.Subscript)) for t in p.targets):
        return "stored in `%s`" % ast.unparse(p.targets[0])
    if isinstance(p, ast.keyword):
        p2 = parents.get(p)
        if isinstance(p2, ast.Call) and _is_ctor(repo, mod, qn, p2):
            return "passed to the constructor `%s`" % ast.unparse(p2.func)
    if isinstance(p, ast.Call) and node in p.args and _is_ctor(repo, mod, qn, p):
        return "passed to the constructor `%s`" % ast.unparse(p.func)
    return None


def generator_sites(mod, repo=None):
    """-> (generator expressions inspected, [(qualname, node, description)])"""
    hits, n = [], 0
    for qn, fn in mod.functions.items():
        parents = {}
        for x in ast.walk(fn):
            for c in ast.iter_child_nodes(x):
                parents[c] = x
        for g in ast.walk(fn):
            if not isinstance(g, ast.GeneratorExp):
                continue
            n += 1
            p = parents.get(g)
            if _consumed_here(p, g):
                continue
            k = _kept(repo, mod, qn, parents, g) if repo is not None else None
            if k:
                hits.append((qn, g, "the generator `%s` is %s" % (ast.unparse(g)[:50], k)))
                continue
            if isinstance(p, ast.Assign) and len(p.targets) == 1 and isinstance(p.targets[0], ast.Name):
                name = p.targets[0].id
                uses = [x for x in ast.walk(fn) if isinstance(x, ast.Name) and x.id == name and isinstance(x.ctx, ast.Load)]
                stores = [x for x in ast.walk(fn) if isinstance(x, ast.Name) and x.id == name and isinstance(x.ctx, ast.Store)]
                if len(stores) != 1:
                    continue
                if len(uses) >= 2:
                    hits.append((qn, g, "the generator `%s` is bound to `%s`, which is read %d times" % (ast.unparse(g)[:50], name, len(uses))))
                    continue
                for u in uses:
                    q = parents.get(u)
                    in_loop = False
                    while q is not None and q is not fn:
                        # the iterable expression of a `for` is evaluated once, before the first iteration: a read anywhere inside it
                        # (`for a, b in zip(xs, gen)`) is not a read inside the loop
                        in_header = isinstance(q, ast.For) and any(u is y for y in ast.walk(q.iter))
                        if isinstance(q, (ast.For, ast.While)) and not in_header and not any(p.targets[0] is y for y in ast.walk(q)):
                            in_loop = True
                        q = parents.get(q)
                    k = _kept(repo, mod, qn, parents, u) if repo is not None else None
                    if k:
                        hits.append((qn, g, "the generator `%s` is bound to `%s` and %s" % (ast.unparse(g)[:50], name, k)))
                    elif in_loop:
                        hits.append((qn, g, "the generator `%s` is bound to `%s`, which is read inside a loop" % (ast.unparse(g)[:50], name)))
    return n, hits


def generator_obligation(ctx, modnames, what):
    out, total = [], 0
    for mn in modnames:
        mod = ctx.repo.module(mn)
        n, hits = generator_sites(mod, ctx.repo)
        total += n
        for qn, g, desc in hits:
            out.append(ctx.bad("%s:%s" % (mn, qn), "%s instead of being consumed on the spot: whatever holds it can walk it once, every later walk is empty (%s)" % (desc, what), g, mod,
                               key="generator-kept:" + qn))
    if not out:
        out.append(ctx.ok("+".join(modnames) + ":*", "every generator expression is consumed where it is written (%d inspected)" % total, key="generator-once"))
    return out
