"""GUARD: must-pass-through decision on the CFG (cut-set), with polarity and failure checks."""
import ast

from .cfg import cfg_of, returns_failure, reach_ps
from .dataflow import expand, origins, call_name
from .loader import AnalysisError

# matcher verdicts: which truth value of the atomic test means the *bad* case
BAD_TRUE, BAD_FALSE = "bad-when-true", "bad-when-false"


class Guard:
    def __init__(self, node, bad):
        self.node = node
        self.bad = bad  # BAD_TRUE / BAD_FALSE

    @property
    def bad_label(self):
        return True if self.bad == BAD_TRUE else False

    @property
    def pass_label(self):
        return not self.bad_label


def rel_polarity(test, want="eq"):
    """For an atomic comparison: which truth value is bad if the property wants equality
    (want='eq') -- `a != b` true is bad, `a == b` false is bad."""
    if isinstance(test, ast.Compare) and len(test.ops) == 1:
        op = test.ops[0]
        if isinstance(op, (ast.NotEq, ast.IsNot)):
            return BAD_TRUE if want == "eq" else BAD_FALSE
        if isinstance(op, (ast.Eq, ast.Is)):
            return BAD_FALSE if want == "eq" else BAD_TRUE
    return None


def find_guards(mod, fn, match):
    """match(node, expanded_test, atoms) -> BAD_TRUE / BAD_FALSE / None, over atomic test nodes."""
    cfg = cfg_of(fn)
    out = []
    for n in cfg.tests():
        ex = expand(fn, n.id, n.ast)
        at = origins(fn, n.id, n.ast)
        v = match(n, ex, at)
        if v:
            out.append(Guard(n, v))
    return out


def success_returns(cfg, fail="raise"):
    """Return nodes that count as success under the failure convention."""
    if fail == "raise":
        return [n for n in cfg.returns()]
    if fail == "raise_or_false":
        return [n for n in cfg.returns() if not returns_failure(n)]
    raise ValueError(fail)


def check_guard(mod, fn, guards, targets, fail="raise", sources=None, extra_pass_nodes=(), exempt_edges=()):
    """Decide: every feasible path from `sources` (default: entry) to a target passes the passing edge of a guard,
    and the bad edge of every guard cannot reach a target.  `exempt_edges` {(node, label)} are removed
    from the graph (paths the obligation does not speak about).  Path feasibility: product with pure predicates.

    Returns (ok, message, witness_path_text)."""
    cfg = cfg_of(fn)
    targets = set(targets)
    if not targets:
        raise AnalysisError("no protected target found in %s" % fn.name)
    sources = list(sources) if sources is not None else [cfg.entry]
    exempt = set(exempt_edges)
    # a source given as (test node id, label) means: start at that test taking only that edge
    plain = []
    for s in sources:
        if isinstance(s, tuple):
            nid, lab = s
            for _, l2 in cfg.succ[nid]:
                if l2 != lab:
                    exempt.add((nid, l2))
            plain.append(nid)
        else:
            plain.append(s)
    sources = plain
    removed = set(exempt)
    for g in guards:
        removed.add((g.node.id, g.pass_label))
    blocked = set(extra_pass_nodes)
    # 1. polarity/failure: the bad edge must not reach a target
    for g in guards:
        r, p = reach_ps(cfg, [g.node.id], removed=exempt | {(g.node.id, g.pass_label), (g.node.id, "exc")}, targets=targets)
        if r is None:
            raise AnalysisError("path-sensitive search exceeded its state budget in %s" % fn.name)
        if p:
            return (False, "the failing edge of the check `%s` (line %d, taken when the test is %s) still reaches the protected effect"
                    % (ast.unparse(g.node.ast), g.node.lineno, g.bad_label), cfg.fmt_path(p))
    # 2. cut
    r, p = reach_ps(cfg, sources, removed=removed, blocked=blocked, targets=targets)
    if r is None:
        raise AnalysisError("path-sensitive search exceeded its state budget in %s" % fn.name)
    if p:
        if guards:
            msg = "a path reaches the protected effect without passing the check (%d matching check(s) elsewhere)" % len(guards)
        else:
            msg = "no check of the required form exists on any path to the protected effect"
        return False, msg, cfg.fmt_path(p)
    return True, "%d check(s) cut every path from entry to %d protected node(s)" % (len(guards), len(targets)), ""


def nodes_where(fn, pred, kinds=("stmt", "return", "raise", "for", "with")):
    cfg = cfg_of(fn)
    return [n for n in cfg.nodes if n.kind in kinds and n.ast is not None and pred(n)]


def has_atoms(atoms, *need):
    """each need is a string or a tuple of alternatives"""
    for nd in need:
        alts = (nd,) if isinstance(nd, str) else nd
        if not any(a in atoms for a in alts):
            return False
    return True


def side_atoms(fn, nid, test):
    """For a binary comparison: (atoms(left), atoms(right), op type)."""
    if isinstance(test, ast.Compare) and len(test.ops) == 1:
        return origins(fn, nid, test.left), origins(fn, nid, test.comparators[0]), type(test.ops[0])
    return None


def loop_iteration_guard(fn, loop, guards, also_targets=()):
    """Per-iteration form: no path from the loop body entry back to the loop head (next iteration)
    or to a loop exit avoids the passing edge of a guard.  Returns (ok, witness)."""
    cfg = cfg_of(fn)
    removed = {(g.node.id, g.pass_label) for g in guards}
    body_starts = []
    for a, label in loop.body_entry:
        body_starts += [b for b, l in cfg.succ[a] if l == label]
    within = set(loop.body) | {loop.head}
    r = cfg.reach(body_starts, removed=removed, within=within | set(also_targets))
    bad = set()
    if loop.head in r:
        bad.add(loop.head)
    bad |= r & set(also_targets)
    if bad:
        p = cfg.path(body_starts, bad, removed=removed)
        return False, cfg.fmt_path(p or [])
    return True, ""
