"""IDENTITY rule shared by several properties: value objects compared with `is` / `is not`.

The library's value classes (TapLeaf, TapBranch, Script, S256Point, ...) define __eq__; two objects built from the same
data are equal but not identical.  A lookup or membership decision written with `is` / `is not` answers "different" for a
rebuilt equal object, so the operation the property describes (find the leaf of this k-subset, match the signing key)
silently fails for callers that do not hold the original object.  The rule flags every identity comparison whose operands
are not None / True / False, not `type(x)`, not a class name, and of which at least one is handed in by the caller
(a parameter, `self`, or a part of one): on the reference tree there is none."""
import ast


def identity_sites(mod, repo=None):
    """[(function qualname, Compare node)] for value identity comparisons in a module whose outcome IS an observable decision: the
    comparison is returned / stored / used as a filter, or one of the two branches it selects is a refusal or a skip (return of a constant,
    raise, continue, break, pass).  An identity test that only chooses between two computations -- `if self is G: <table path> else:
    <generic path>` -- is not reported: whether the two paths agree is not something this rule can see, and a fast path for a well-known
    singleton is a legitimate idiom"""
    out = []
    for qn, fn in mod.functions.items():
        params = {a.arg for a in fn.args.posonlyargs + fn.args.args + fn.args.kwonlyargs}
        parent = {}
        for p_ in ast.walk(fn):
            for ch in ast.iter_child_nodes(p_):
                parent[ch] = p_
        for n in ast.walk(fn):
            if not isinstance(n, ast.Compare):
                continue
            left = n.left
            for op, c in zip(n.ops, n.comparators):
                if isinstance(op, (ast.Is, ast.IsNot)) and not any(_exempt(s, mod) for s in (left, c)) and any(_from_outside(s, params) for s in (left, c)):
                    if _decides_outcome(n, parent):
                        out.append((qn, n))
                left = c
    return out


def _negative_block(stmts):
    """a block that refuses or skips: its first statement is a raise / continue / break / pass or the return of a constant (False, None, an
    empty literal)"""
    if not stmts:
        return False   # no else: what follows the `if` is the other branch, and it is a computation unless the body itself refuses
    s = stmts[0]
    if isinstance(s, (ast.Raise, ast.Continue, ast.Break, ast.Pass)):
        return True
    if isinstance(s, ast.Return):
        v = s.value
        return v is None or isinstance(v, ast.Constant) or (isinstance(v, (ast.List, ast.Tuple, ast.Dict, ast.Set)) and not (getattr(v, "elts", None) or getattr(v, "keys", None)))
    return False


def _decides_outcome(cmp_node, parent):
    n = cmp_node
    p_ = parent.get(n)
    while isinstance(p_, (ast.BoolOp, ast.UnaryOp)):
        n, p_ = p_, parent.get(p_)
    if isinstance(p_, ast.If) and p_.test is n:
        return _negative_block(p_.body) or _negative_block(p_.orelse)
    if isinstance(p_, ast.IfExp) and p_.test is n:
        return isinstance(p_.body, ast.Constant) or isinstance(p_.orelse, ast.Constant)
    if isinstance(p_, ast.While) and p_.test is n:
        return True
    return True   # returned, stored, asserted, a comprehension filter, an argument: the comparison's value is the observable


def _from_outside(e, params):
    """the operand is a parameter (or self) or an attribute / element of one: a value handed in by the caller.  Two locals
    compared by identity (`cur is first_list`) are an aliasing test inside one function, which is a legitimate idiom"""
    while isinstance(e, (ast.Attribute, ast.Subscript)):
        e = e.value
    return isinstance(e, ast.Name) and e.id in params


def _exempt(e, mod):
    if isinstance(e, ast.Constant) and (e.value is None or isinstance(e.value, bool) or e.value is Ellipsis):
        return True
    if isinstance(e, ast.Call) and isinstance(e.func, ast.Name) and e.func.id == "type":
        return True
    if isinstance(e, ast.Name) and (e.id in mod.classes or e.id in ("int", "str", "bytes", "bool", "list", "dict", "tuple", "NotImplemented")):
        return True
    return False


def identity_obligation(ctx, modnames, what):
    out = []
    looked = 0
    for mn in modnames:
        mod = ctx.repo.module(mn)
        looked += len(mod.functions)
        for qn, n in identity_sites(mod):
            out.append(ctx.bad("%s:%s" % (mn, qn), "`%s` compares values by identity: an equal object that was rebuilt (parsed again, constructed from the same "
                                                  "keys) is treated as different (%s)" % (ast.unparse(n), what), n, mod, key="identity:" + qn))
    if not out:
        out.append(ctx.ok("+".join(modnames) + ":*", "no value is compared by identity (%d functions inspected; `is` only against None / bool / type objects)" % looked,
                          key="identity"))
    return out
