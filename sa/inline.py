"""Inlining of helper functions that do not exist in the reference tree.

"Extract helper" is the most common behaviour-preserving refactoring; the rules are intraprocedural and anchored at the
public functions of the reference tree.  A function of the analysed module whose qualified name is not in
spec/functions_ref.json is therefore treated as an extracted helper and its calls are inlined back into the callers
before the normal form and the rules see them.  Inlining is only done when it is obviously semantics-preserving:

  callee   same module; plain function, or method of the caller's class called as self.h(...) / cls.h(...) /
           ClassName.h(...); no *args/**kwargs, no nested defs, no yield/await, not recursive; every `return` is in tail
           position of an if/else tree (no return inside a loop, try or with)
  call     the whole right-hand side of `x = h(...)`, `x += h(...)`, `return h(...)`, the expression statement `h(...)`,
           the whole test of an `if` (`if h(...)`, `if not h(...)`), or the single argument / first operand hoisted when
           everything evaluated before it is call-free
  binding  arguments are bound to fresh locals `p = arg` (or substituted when the argument is a name, attribute or
           constant and the parameter is never assigned in the callee); callee locals get a suffix when they clash

Anything else is left as a call (the rules then see an unknown call and answer "not recognised", never a verdict)."""
import ast
import copy


def _has(node, types):
    return any(isinstance(x, types) for x in ast.walk(node))


def _tail_returns_only(stmts):
    """every Return is in tail position of the if/else tree of `stmts`"""
    for i, s in enumerate(stmts):
        last = i == len(stmts) - 1
        if isinstance(s, ast.Return):
            if not last:
                return False  # dead code after return: do not bother
        elif isinstance(s, ast.If):
            if _has(s, ast.Return):
                # returns inside an if that is not last are early returns: fine, handled by nesting the rest
                if not _tail_returns_only(s.body) or not _tail_returns_only(s.orelse):
                    return False
        elif isinstance(s, (ast.For, ast.While, ast.Try, ast.With, ast.AsyncFor, ast.AsyncWith)):
            if _has(s, ast.Return):
                return False
        elif isinstance(s, (ast.FunctionDef, ast.AsyncFunctionDef, ast.ClassDef)):
            return False
    return True


def _always_leaves(stmts):
    if not stmts:
        return False
    s = stmts[-1]
    if isinstance(s, (ast.Return, ast.Raise)):
        return True
    if isinstance(s, ast.If):
        return bool(s.orelse) and _always_leaves(s.body) and _always_leaves(s.orelse)
    return False


def _to_single_exit(stmts, res, budget):
    """rewrite a body whose returns are in tail position so that `return E` becomes `res = E` and nothing follows it"""
    out = []
    for i, s in enumerate(stmts):
        rest = stmts[i + 1:]
        if isinstance(s, ast.Return):
            if isinstance(res, (list, tuple)):
                # `a, b = h(...)` with `return x, y` in the callee: element-wise (through temporaries: x, y are evaluated before any store)
                if not (isinstance(s.value, ast.Tuple) and len(s.value.elts) == len(res)):
                    raise ValueError("tuple shape")
                tmps = ["%s__v" % r for r in res]
                for t, e in zip(tmps, s.value.elts):
                    out.append(ast.copy_location(ast.Assign(targets=[ast.Name(id=t, ctx=ast.Store())], value=e, lineno=s.lineno), s))
                for r, t in zip(res, tmps):
                    out.append(ast.copy_location(ast.Assign(targets=[ast.Name(id=r, ctx=ast.Store())], value=ast.Name(id=t, ctx=ast.Load()), lineno=s.lineno), s))
            elif res is not None:
                out.append(ast.copy_location(ast.Assign(targets=[ast.Name(id=res, ctx=ast.Store())], value=s.value or ast.Constant(value=None), lineno=s.lineno), s))
            elif s.value is not None and not isinstance(s.value, ast.Constant):
                out.append(ast.copy_location(ast.Expr(value=s.value), s))
            return out
        if isinstance(s, ast.If) and _has(s, ast.Return):
            budget[0] -= 1
            if budget[0] < 0:
                raise ValueError("too large")
            b_leaves, o_leaves = _always_leaves(s.body), _always_leaves(s.orelse)
            body = _to_single_exit(list(s.body) + ([] if b_leaves else copy.deepcopy(rest)), res, budget)
            orelse = _to_single_exit(list(s.orelse) + ([] if o_leaves else copy.deepcopy(rest)), res, budget)
            out.append(ast.copy_location(ast.If(test=s.test, body=body or [ast.Pass()], orelse=orelse), s))
            return out
        out.append(s)
    return out


def _direct_tuple_stores(stmts):
    """[t1 = E1, t2 = E2, a = t1, b = t2] -> [a = E1, b = E2] when no later Ej reads an earlier target (recursively in ifs)"""
    out = list(stmts)
    for s in out:
        if isinstance(s, ast.If):
            s.body = _direct_tuple_stores(s.body)
            s.orelse = _direct_tuple_stores(s.orelse)
    i = 0
    while i < len(out):
        k = 0
        while i + k < len(out) and isinstance(out[i + k], ast.Assign) and isinstance(out[i + k].targets[0], ast.Name) and out[i + k].targets[0].id.endswith(tuple("0123456789")) \
                and "__v__i" in out[i + k].targets[0].id:
            k += 1
        if k >= 2 and i + 2 * k <= len(out):
            tmps = [out[i + j].targets[0].id for j in range(k)]
            stores = out[i + k:i + 2 * k]
            if all(isinstance(st, ast.Assign) and isinstance(st.value, ast.Name) and st.value.id == tmps[j] and isinstance(st.targets[0], ast.Name) for j, st in enumerate(stores)):
                tg = [st.targets[0].id for st in stores]
                exprs = [out[i + j].value for j in range(k)]
                clash = any(tg[a] in {x.id for x in ast.walk(exprs[b]) if isinstance(x, ast.Name)} for a in range(k) for b in range(a + 1, k))
                if not clash:
                    new = [ast.copy_location(ast.Assign(targets=[ast.Name(id=tg[j], ctx=ast.Store())], value=exprs[j], lineno=stores[j].lineno), stores[j]) for j in range(k)]
                    out[i:i + 2 * k] = new
                    i += k
                    continue
        i += 1
    return out


def _drop_self_stores(stmts):
    out = []
    for s in stmts:
        if isinstance(s, ast.If):
            s.body = _drop_self_stores(s.body) or [ast.Pass()]
            s.orelse = _drop_self_stores(s.orelse)
        if isinstance(s, ast.Assign) and len(s.targets) == 1 and isinstance(s.targets[0], ast.Name) and isinstance(s.value, ast.Name) and s.value.id == s.targets[0].id:
            continue
        out.append(s)
    return out


class _Rename(ast.NodeTransformer):
    def __init__(self, mp, subst):
        self.mp, self.subst = mp, subst

    def visit_Name(self, n):
        if n.id in self.subst and isinstance(n.ctx, ast.Load):
            return ast.copy_location(copy.deepcopy(self.subst[n.id]), n)
        if n.id in self.mp:
            return ast.copy_location(ast.Name(id=self.mp[n.id], ctx=n.ctx), n)
        return n


def _params(fn):
    a = fn.args
    if a.vararg or a.kwarg or a.posonlyargs:
        return None
    ps = [x.arg for x in a.args]
    defaults = dict(zip(ps[len(ps) - len(a.defaults):], a.defaults))
    for x, d in zip(a.kwonlyargs, a.kw_defaults):
        ps.append(x.arg)
        if d is not None:
            defaults[x.arg] = d
    return ps, defaults


def _decorators(fn):
    out = set()
    for d in fn.decorator_list:
        core = d.func if isinstance(d, ast.Call) else d
        name = core.id if isinstance(core, ast.Name) else (core.attr if isinstance(core, ast.Attribute) else "?")
        if name in ("lru_cache", "cache") and not (isinstance(d, ast.Call) and d.args and not isinstance(d.args[0], ast.Constant)):
            # functools memoisation of a function on *all* its arguments: the call returns what the body returns (the caches the MEMO rules
            # look for are the hand-written ones; objects shared through such a memo are the business of shared_cached_objects)
            continue
        out.add(name if not isinstance(d, ast.Call) else name + "()")
    return out


def _simple(e):
    return isinstance(e, (ast.Name, ast.Constant)) or (isinstance(e, ast.Attribute) and _simple(e.value))


def _strip_validated_memo(fn):
    """`e = T.get(k)` / `if e is not None and e[0] == x: return e[1]` / `v = f(x)` / `T[k] = (x, v)` / `return v`  ->  `v = f(x)` / `return v`.
    The entry is reused only when the remembered copy of x equals the current x, and every entry is written as (x, f(x)): given that (the
    MEMO rule checks the key on the definition), the function returns f(x).  None when the body is not exactly this shape."""
    import copy
    body = [s for s in fn.body if not (isinstance(s, ast.Expr) and isinstance(s.value, ast.Constant) and isinstance(s.value.value, str))]
    if len(body) != 5:
        return None
    s1, s2, s3, s4, s5 = body
    params = {a.arg for a in fn.args.args}
    if not (isinstance(s1, ast.Assign) and len(s1.targets) == 1 and isinstance(s1.targets[0], ast.Name)):
        return None
    e = s1.targets[0].id
    v1 = s1.value
    if isinstance(v1, ast.Call) and isinstance(v1.func, ast.Attribute) and v1.func.attr == "get" and len(v1.args) == 1:
        table, key = ast.unparse(v1.func.value), ast.unparse(v1.args[0])
    else:
        return None
    if not (isinstance(s2, ast.If) and not s2.orelse and len(s2.body) == 1 and isinstance(s2.body[0], ast.Return) and isinstance(s2.body[0].value, ast.Subscript)
            and isinstance(s2.body[0].value.value, ast.Name) and s2.body[0].value.value.id == e):
        return None
    compared = set()
    for x in ast.walk(s2.test):
        if isinstance(x, ast.Compare) and len(x.ops) == 1 and isinstance(x.ops[0], ast.Eq):
            for a_, b_ in ((x.left, x.comparators[0]), (x.comparators[0], x.left)):
                if isinstance(a_, ast.Subscript) and isinstance(a_.value, ast.Name) and a_.value.id == e and isinstance(b_, ast.Name) and b_.id in params:
                    compared.add(b_.id)
    if not compared:
        return None
    if not (isinstance(s3, ast.Assign) and len(s3.targets) == 1 and isinstance(s3.targets[0], ast.Name) and not any(isinstance(x, ast.Name) and x.id == e for x in ast.walk(s3.value))):
        return None
    v = s3.targets[0].id
    if not (isinstance(s4, ast.Assign) and len(s4.targets) == 1 and isinstance(s4.targets[0], ast.Subscript) and ast.unparse(s4.targets[0].value) == table
            and ast.unparse(s4.targets[0].slice) == key and isinstance(s4.value, ast.Tuple)
            and {x.id for x in s4.value.elts if isinstance(x, ast.Name)} >= compared | {v}):
        return None
    if not (isinstance(s5, ast.Return) and isinstance(s5.value, ast.Name) and s5.value.id == v):
        return None
    out = copy.deepcopy(fn)
    out.body = [copy.deepcopy(s3), copy.deepcopy(s5)]
    return out


class Inliner:
    def __init__(self, module_tree, modname, ref_names):
        self.tree, self.modname, self.ref = module_tree, modname, ref_names
        self.funcs = {}  # qualname -> (FunctionDef, class name or None)
        for st in module_tree.body:
            if isinstance(st, (ast.FunctionDef,)):
                self.funcs[st.name] = (st, None)
            elif isinstance(st, ast.ClassDef):
                for b in st.body:
                    if isinstance(b, ast.FunctionDef):
                        self.funcs[st.name + "." + b.name] = (b, st.name)
        self.new = {q for q in self.funcs if q not in ref_names}
        # a new helper that is a validated read-through memo is inlined as the computation it memoises; the definition itself stays in the
        # module as written, where the MEMO rule decides whether the memo is keyed on everything it depends on
        for q in list(self.new):
            pure = _strip_validated_memo(self.funcs[q][0])
            if pure is not None:
                self.funcs[q] = (pure, self.funcs[q][1])
        self.counter = 0
        self.inlined = []  # (caller qualname, callee qualname)

    # -- which callee does this call denote? ------------------------------------------------
    def _callee(self, call, caller_cls, bases):
        f = call.func
        if isinstance(f, ast.Name):
            q = f.id
            if q in self.new and self.funcs[q][1] is None:
                return q, None
            return None
        if isinstance(f, ast.Attribute) and isinstance(f.value, ast.Name):
            recv = f.value.id
            classes = [caller_cls] + list(bases.get(caller_cls, [])) if caller_cls else []
            if recv in ("self", "cls") and caller_cls:
                for c in classes:
                    q = "%s.%s" % (c, f.attr)
                    if q in self.funcs:
                        return (q, recv) if q in self.new else None
                return None
            q = "%s.%s" % (recv, f.attr)
            if q in self.new:
                return q, recv
        return None

    def _inlinable(self, q, stack):
        fn, _ = self.funcs[q]
        if q in stack or _params(fn) is None:
            return False
        if _has(fn, (ast.Yield, ast.YieldFrom, ast.Await, ast.Global, ast.Nonlocal)):
            return False
        if any(isinstance(x, (ast.FunctionDef, ast.AsyncFunctionDef, ast.ClassDef)) and x is not fn for x in ast.walk(fn)):
            return False
        if _decorators(fn) - {"staticmethod", "classmethod"}:
            return False
        body = [s for s in fn.body if not (isinstance(s, ast.Expr) and isinstance(s.value, ast.Constant) and isinstance(s.value.value, str))]
        return _tail_returns_only(body)

    def _expand_call(self, call, q, recv, res, caller_locals, at):
        """statements that perform the call and leave its value in local `res` (None: value unused)"""
        fn, cls = self.funcs[q]
        ps, defaults = _params(fn)
        decs = _decorators(fn)
        args = list(call.args)
        bind = {}
        if cls is not None and "staticmethod" not in decs:
            first = ps[0]
            ps = ps[1:]
            if "classmethod" in decs:
                bind[first] = ast.Name(id="cls" if recv == "cls" else (recv if recv not in ("self",) else cls), ctx=ast.Load())
            else:
                if recv in ("self",):
                    bind[first] = ast.Name(id="self", ctx=ast.Load())
                elif recv == "cls":
                    return None
                else:
                    # ClassName.method(obj, ...) : explicit receiver is the first argument
                    if not args:
                        return None
                    bind[first] = args.pop(0)
        if len(args) > len(ps) or any(isinstance(a, ast.Starred) for a in args) or any(k.arg is None for k in call.keywords):
            return None
        for p, a in zip(ps, args):
            bind[p] = a
        for k in call.keywords:
            if k.arg not in ps or k.arg in bind:
                return None
            bind[k.arg] = k.value
        for p in ps:
            if p not in bind:
                if p not in defaults:
                    return None
                bind[p] = defaults[p]
        self.counter += 1
        suffix = "__i%d" % self.counter
        assigned = {n.id for n in ast.walk(fn) if isinstance(n, ast.Name) and isinstance(n.ctx, (ast.Store, ast.Del))}
        all_params = set(bind)
        subst, pre, mp = {}, [], {}
        for p, a in bind.items():
            if p not in assigned and _simple(a):
                subst[p] = a
            else:
                new = p if (p not in caller_locals and p not in ("self", "cls")) else p + suffix
                mp[p] = new
                caller_locals.add(new)
                pre.append(ast.copy_location(ast.Assign(targets=[ast.Name(id=new, ctx=ast.Store())], value=a, lineno=at.lineno), at))
        # a callee local that is exactly what is returned becomes the caller's target itself (`ins, outs = h()` with
        # `return inputs, outputs`: `inputs` is spelled `ins` in the inlined body and no copy is needed)
        direct = {}
        if isinstance(res, (str, list, tuple)):
            tg = [res] if isinstance(res, str) else list(res)
            rets = [x for x in ast.walk(fn) if isinstance(x, ast.Return)]
            cols = []
            for rt in rets:
                v = rt.value
                elts = [v] if isinstance(res, str) else (list(v.elts) if isinstance(v, ast.Tuple) and len(v.elts) == len(tg) else None)
                cols.append(elts)
            if rets and all(c is not None for c in cols):
                for i, t in enumerate(tg):
                    names = {c[i].id if isinstance(c[i], ast.Name) else None for c in cols}
                    if len(names) == 1 and None not in names:
                        n0 = names.pop()
                        subst_reads_t = any(isinstance(x, ast.Name) and x.id == t for a in bind.values() for x in ast.walk(a))
                        if n0 in assigned and n0 not in all_params and n0 not in direct and t not in direct.values() and not subst_reads_t \
                                and (t == n0 or t not in assigned):
                            direct[n0] = t
        for v in sorted(assigned - all_params):
            if v in direct:
                mp[v] = direct[v]
                continue
            new = v if v not in caller_locals else v + suffix
            mp[v] = new
            caller_locals.add(new)
        body = [s for s in copy.deepcopy(fn.body) if not (isinstance(s, ast.Expr) and isinstance(s.value, ast.Constant) and isinstance(s.value.value, str))]
        # result targets are written through placeholders so that the renaming of the callee's locals cannot touch them
        if isinstance(res, (list, tuple)):
            ph = ["__res%d__" % i for i in range(len(res))]
            back = dict(zip(ph, res))
            back.update({"%s__v" % p: "%s__v%s" % (r, suffix) for p, r in zip(ph, res)})
            res_ph = ph
        elif isinstance(res, str):
            back = {"__res__": res}
            res_ph = "__res__"
        else:
            back, res_ph = {}, None
        try:
            body = _to_single_exit(body, res_ph, [12])
        except ValueError:
            return None
        res = res_ph
        if isinstance(res, str) and not _always_leaves(fn.body):
            # falling off the end returns None
            body = [ast.copy_location(ast.Assign(targets=[ast.Name(id=res, ctx=ast.Store())], value=ast.Constant(value=None), lineno=at.lineno), at)] + body
        r = _Rename(mp, subst)
        body = [r.visit(s) for s in body]
        if back:
            r2 = _Rename(back, {})
            body = [r2.visit(s) for s in body]
            body = _drop_self_stores(_direct_tuple_stores(body))
        for s in body:
            for x in ast.walk(s):
                if hasattr(x, "lineno"):
                    x.lineno = at.lineno
                    x.end_lineno = getattr(at, "end_lineno", at.lineno)
        return pre + body

    # -- rewriting the statements of one caller -----------------------------------------------
    def _rewrite_block(self, stmts, ctx):
        out = []
        for s in stmts:
            out.extend(self._rewrite_stmt(s, ctx))
        return out

    def _rewrite_stmt(self, s, ctx):
        caller_q, caller_cls, locals_, bases, stack = ctx
        # nested blocks first
        for f in ("body", "orelse", "finalbody"):
            v = getattr(s, f, None)
            if isinstance(v, list) and v and isinstance(v[0], ast.stmt):
                setattr(s, f, self._rewrite_block(v, ctx))
        if isinstance(s, ast.Try):
            for h in s.handlers:
                h.body = self._rewrite_block(h.body, ctx)

        def try_call(call, res):
            if not isinstance(call, ast.Call):
                return None
            c = self._callee(call, caller_cls, bases)
            if c is None:
                return None
            q, recv = c
            if not self._inlinable(q, stack):
                return None
            # arguments may themselves contain helper calls: leave those (they are evaluated first, as before)
            r = self._expand_call(call, q, recv, res, locals_, s)
            if r is None:
                return None
            self.inlined.append((caller_q, q))
            # the inlined body may call further helpers
            return self._rewrite_block(r, (caller_q, caller_cls, locals_, bases, stack + (q,)))

        def fresh(base="_ret"):
            self.counter += 1
            n = "%s%d" % (base, self.counter)
            locals_.add(n)
            return n

        if isinstance(s, ast.Assign) and len(s.targets) == 1 and isinstance(s.targets[0], ast.Name):
            r = try_call(s.value, s.targets[0].id)
            if r is not None:
                return r
        if isinstance(s, ast.Assign) and len(s.targets) == 1 and isinstance(s.targets[0], ast.Tuple) and all(isinstance(e, ast.Name) for e in s.targets[0].elts):
            r = try_call(s.value, [e.id for e in s.targets[0].elts])
            if r is not None:
                return r
        if isinstance(s, ast.Assign) and not (len(s.targets) == 1 and isinstance(s.targets[0], (ast.Name, ast.Tuple))) and isinstance(s.value, ast.Call):
            # `self.x = helper(...)`, `d[k] = helper(...)`, `a = b = helper(...)`: through a temporary
            t = fresh()
            r = try_call(s.value, t)
            if r is not None:
                return r + [ast.copy_location(ast.Assign(targets=s.targets, value=ast.Name(id=t, ctx=ast.Load()), lineno=s.lineno), s)]
        if isinstance(s, ast.Expr):
            r = try_call(s.value, None)
            if r is not None:
                return r
        if isinstance(s, ast.Return) and s.value is not None:
            t = fresh()
            r = try_call(s.value, t)
            if r is not None:
                return r + [ast.copy_location(ast.Return(value=ast.Name(id=t, ctx=ast.Load())), s)]
        if isinstance(s, ast.AugAssign):
            t = fresh()
            r = try_call(s.value, t)
            if r is not None:
                return r + [ast.copy_location(ast.AugAssign(target=s.target, op=s.op, value=ast.Name(id=t, ctx=ast.Load())), s)]
        if isinstance(s, ast.If):
            neg = isinstance(s.test, ast.UnaryOp) and isinstance(s.test.op, ast.Not)
            call = s.test.operand if neg else s.test
            t = fresh("_cond")
            r = try_call(call, t)
            if r is not None:
                tn = ast.Name(id=t, ctx=ast.Load())
                test = ast.copy_location(ast.UnaryOp(op=ast.Not(), operand=tn), s.test) if neg else tn
                return r + [ast.copy_location(ast.If(test=test, body=s.body, orelse=s.orelse), s)]
        if isinstance(s, ast.If):
            spot = self._first_evaluated_helper_call(s.test, caller_cls, bases, stack)
            if spot is not None:
                parent, field, idx, call = spot
                t = fresh()
                r = try_call(call, t)
                if r is not None:
                    tn = ast.Name(id=t, ctx=ast.Load())
                    if idx is None:
                        setattr(parent, field, tn)
                    else:
                        getattr(parent, field)[idx] = tn
                    return r + self._rewrite_stmt(s, ctx)
        if isinstance(s, ast.For):
            t = fresh("_iter")
            r = try_call(s.iter, t)
            if r is not None:
                s.iter = ast.copy_location(ast.Name(id=t, ctx=ast.Load()), s.iter)
                return r + [s]
        # a helper call nested one level inside the value: hoist it when it is evaluated first
        val = None
        if isinstance(s, (ast.Assign, ast.AugAssign, ast.Return, ast.Expr)) and getattr(s, "value", None) is not None:
            val = s.value
        if val is not None:
            spot = self._first_evaluated_helper_call(val, caller_cls, bases, stack)
            if spot is not None:
                parent, field, idx, call = spot
                t = fresh()
                r = try_call(call, t)
                if r is not None:
                    tn = ast.Name(id=t, ctx=ast.Load())
                    if idx is None:
                        setattr(parent, field, tn)
                    else:
                        getattr(parent, field)[idx] = tn
                    return r + self._rewrite_stmt(s, ctx)
        return [s]

    def _first_evaluated_helper_call(self, val, caller_cls, bases, stack):
        """(parent, field, index, call) of a helper call inside `val` such that everything evaluated before it is call-free"""
        order = []  # evaluation order, approximately left-to-right depth-first over operands / arguments

        def walk(node, parent, field, idx):
            if isinstance(node, (ast.Lambda, ast.ListComp, ast.SetComp, ast.DictComp, ast.GeneratorExp, ast.IfExp, ast.BoolOp)):
                order.append(("opaque", node, parent, field, idx))
                return
            for f, v in ast.iter_fields(node):
                if isinstance(v, list):
                    for i, x in enumerate(v):
                        if isinstance(x, ast.AST):
                            walk(x, node, f, i)
                elif isinstance(v, ast.AST):
                    walk(v, node, f, None)
            if isinstance(node, ast.Call):
                order.append(("call", node, parent, field, idx))
        walk(val, None, None, None)
        for kind, node, parent, field, idx in order:
            if kind == "opaque":
                return None
            c = self._callee(node, caller_cls, bases)
            if c is not None and parent is not None and self._inlinable(c[0], stack):
                return parent, field, idx, node
            if isinstance(node.func, ast.Name) and node.func.id in ("super", "len", "isinstance") and not node.keywords \
                    and all(not any(isinstance(x, ast.Call) for x in ast.walk(a)) or a in [o[1] for o in order] for a in node.args):
                continue  # super() / len(x) / isinstance(x, T): no effect, nothing to reorder against
            return None  # another call is evaluated first: moving the helper call before it could reorder effects
        return None

    def run(self):
        if not self.new:
            return []
        bases = {}
        for st in self.tree.body:
            if isinstance(st, ast.ClassDef):
                bases[st.name] = [b.id for b in st.bases if isinstance(b, ast.Name)]
        for q, (fn, cls) in list(self.funcs.items()):
            if q in self.new:
                continue  # helpers themselves are inlined into their callers, not rewritten
            locals_ = {n.id for n in ast.walk(fn) if isinstance(n, ast.Name)} | {a.arg for a in fn.args.args + fn.args.kwonlyargs}
            fn.body = self._rewrite_block(fn.body, (q, cls, locals_, bases, (q,)))
        ast.fix_missing_locations(self.tree)
        return self.inlined
