"""Finite unions of integer intervals with arbitrary-precision bounds (None = infinite)."""
import math
from fractions import Fraction

NEG, POS = "-inf", "+inf"


def _lo_key(x):
    return (-1, 0) if x is None else (0, x)


def _hi_key(x):
    return (1, 0) if x is None else (0, x)


class ISet:
    """Immutable union of closed integer intervals [(lo, hi)], lo/hi None for -inf/+inf."""

    __slots__ = ("iv",)

    def __init__(self, ivs=()):
        self.iv = self._norm(ivs)

    @staticmethod
    def _norm(ivs):
        items = []
        for lo, hi in ivs:
            if lo is not None and hi is not None and lo > hi:
                continue
            items.append((lo, hi))
        items.sort(key=lambda p: _lo_key(p[0]))
        out = []
        for lo, hi in items:
            if out:
                plo, phi = out[-1]
                if phi is None or (lo is not None and lo <= phi + 1) or lo is None:
                    nhi = None if (phi is None or hi is None) else max(phi, hi)
                    out[-1] = (plo, nhi)
                    continue
            out.append((lo, hi))
        return tuple(out)

    # constructors
    @classmethod
    def top(cls):
        return cls([(None, None)])

    @classmethod
    def empty(cls):
        return cls([])

    @classmethod
    def point(cls, v):
        return cls([(v, v)])

    @classmethod
    def range(cls, lo, hi):
        return cls([(lo, hi)])

    @classmethod
    def of(cls, values):
        return cls([(v, v) for v in values])

    # predicates
    def is_empty(self):
        return not self.iv

    def is_top(self):
        return self.iv == ((None, None),)

    def __eq__(self, o):
        return isinstance(o, ISet) and self.iv == o.iv

    def __hash__(self):
        return hash(self.iv)

    def contains(self, v):
        return any((lo is None or lo <= v) and (hi is None or v <= hi) for lo, hi in self.iv)

    def issubset(self, o):
        return self.minus(o).is_empty()

    def enumerate(self, limit):
        """the members as a list when the set is finite, integral and has at most `limit` members, else None"""
        out = []
        for lo, hi in self.iv:
            if lo is None or hi is None or not isinstance(lo, int) or not isinstance(hi, int) or hi - lo + 1 > limit:
                return None
            out.extend(range(lo, hi + 1))
            if len(out) > limit:
                return None
        return out

    # set algebra
    def union(self, o):
        return ISet(self.iv + o.iv)

    def complement(self):
        out = []
        gap_start = None  # -inf
        for lo, hi in self.iv:
            if lo is not None:
                out.append((gap_start, lo - 1))
            if hi is None:
                return ISet(out)
            gap_start = hi + 1
        out.append((gap_start, None))
        return ISet(out)

    def intersect(self, o):
        out = []
        for a, b in self.iv:
            for c, d in o.iv:
                lo = c if a is None else (a if c is None else max(a, c))
                hi = d if b is None else (b if d is None else min(b, d))
                if lo is None or hi is None or lo <= hi:
                    out.append((lo, hi))
        return ISet(out)

    def minus(self, o):
        return self.intersect(o.complement())

    # arithmetic
    def add(self, c):
        return ISet([(None if lo is None else lo + c, None if hi is None else hi + c) for lo, hi in self.iv])

    def neg(self):
        return ISet([(None if hi is None else -hi, None if lo is None else -lo) for lo, hi in self.iv])

    def mod(self, c):
        if not isinstance(c, int) or c <= 0:
            return ISet.top()
        # exact when every interval is bounded and short; otherwise [0, c-1]
        out = []
        for lo, hi in self.iv:
            if lo is None or hi is None or hi - lo >= c - 1:
                return ISet.range(0, c - 1)
            a, b = lo % c, hi % c
            if a <= b:
                out.append((a, b))
            else:
                out.append((a, c - 1))
                out.append((0, b))
        return ISet(out)

    def min(self):
        return self.iv[0][0] if self.iv else None

    def max(self):
        return self.iv[-1][1] if self.iv else None

    def witness(self, prefer=()):
        """Some concrete member (preferring small magnitude / listed candidates)."""
        for p in prefer:
            if self.contains(p):
                return p
        for lo, hi in self.iv:
            if lo is not None:
                return lo
            if hi is not None:
                return hi
            return 0
        return None

    def __repr__(self):
        if not self.iv:
            return "∅"

        def f(x, inf):
            if x is None:
                return inf
            if abs(x) >= 1 << 40:
                return hex(x) if x >= 0 else "-" + hex(-x)
            return str(x)

        return " ∪ ".join("[%s, %s]" % (f(lo, "-∞"), f(hi, "+∞")) for lo, hi in self.iv)

    def describe(self, names=None):
        """repr with bounds rendered relative to named constants when close."""
        names = names or {}

        def f(x, inf):
            if x is None:
                return inf
            for nm, v in names.items():
                if isinstance(v, int) and abs(x - v) <= 2 and abs(v) > 255:
                    d = x - v
                    return nm if d == 0 else "%s%+d" % (nm, d)
            if abs(x) >= 1 << 40:
                return "0x%x…(%d bits)" % (x >> max(0, x.bit_length() - 32), x.bit_length()) if x > 0 else str(x)
            return str(x)

        if not self.iv:
            return "∅"
        return " ∪ ".join("[%s, %s]" % (f(lo, "-∞"), f(hi, "+∞")) for lo, hi in self.iv)


def cmp_set(op, c):
    """Set of integers v with `v <op> c`, c an int / Fraction / float (floats taken exactly)."""
    if isinstance(c, bool):
        c = int(c)
    if isinstance(c, float):
        if math.isinf(c) or math.isnan(c):
            return None
        c = Fraction(c)
    if isinstance(c, Fraction):
        fl = math.floor(c)
        exact = fl == c
    elif isinstance(c, int):
        fl, exact = c, True
    else:
        return None
    if op == "<":
        return ISet.range(None, fl - 1 if exact else fl)
    if op == "<=":
        return ISet.range(None, fl)
    if op == ">":
        return ISet.range(fl + 1, None)
    if op == ">=":
        return ISet.range(fl if exact else fl + 1, None)
    if op == "==":
        return ISet.point(fl) if exact else ISet.empty()
    if op == "!=":
        return ISet.point(fl).complement() if exact else ISet.top()
    return None
