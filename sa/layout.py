"""LAYOUT: symbolic byte-string execution of serializers and stream parsers.

Writer side (`WriterExec`): a small symbolic executor over the *structured* statements of a function that
builds bytes by concatenation.  Values of byte-valued locals are lists of layout terms; other locals are
kept as (substituted) expressions.  Branch conditions are decided by constant folding under a supplied
constant environment, then by a table of assumed symbolic booleans, else both arms are kept (`alt`).

Reader side (`ReaderExec`): the ordered sequence of reads from a stream variable, with the local each
read is bound to, loops (`repeat`) and the constructor call that receives them.

Terms (tuples; `src` is canonical source text after alias substitution):
  ("const", bytes) ("int", width, "LE"|"BE", src) ("varint", src) ("varstr", [terms]) ("bytes", src, mod)
  ("nested", method, src) ("hash", fname, [terms]) ("call", fname, [[terms]...]) ("repeat", iter_src, vars, [terms])
  ("alt", cond_src, [terms], [terms]) ("pad", bytes, count_src) ("kv", [terms], [terms]) ("break",) ("expr", src)
"""
import ast
import copy

from .fold import Folder, Unknown
from .loader import AnalysisError, param_names

INT_ENC = {"int_to_little_endian": "LE", "int_to_big_endian": "BE"}
INT_DEC = {"little_endian_to_int": "LE", "big_endian_to_int": "BE"}
HASHES = {"hash256", "sha256", "hash160", "hash_tapsighash", "hash_tapleaf", "hash_tapbranch", "hash_taptweak",
          "hash_challenge", "hash_nonce", "hash_aux", "hash_keyagglist", "hash_keyaggcoef", "hash_musignonce", "tagged_hash",
          "hmac_sha512"}
SER_METHODS = {"serialize", "raw_serialize", "sec", "xonly", "hash", "der", "serialize_legacy", "serialize_segwit", "serialize_witness",
               "raw_serialize_witness", "hash160", "sha256", "encode", "digest"}


class _Ret(Exception):
    pass


class Env:
    def __init__(self, b=None, e=None):
        self.b = dict(b or {})  # name -> [terms]
        self.e = dict(e or {})  # name -> ast expr (already substituted)

    def copy(self):
        return Env({k: list(v) for k, v in self.b.items()}, self.e)


class _Subst(ast.NodeTransformer):
    def __init__(self, env):
        self.env = env

    def visit_Name(self, n):
        if isinstance(n.ctx, ast.Load) and n.id in self.env.e:
            return copy.deepcopy(self.env.e[n.id])
        return n


def canon(expr, env=None):
    if env is not None:
        expr = _Subst(env).visit(copy.deepcopy(expr))
        ast.fix_missing_locations(expr)
    return ast.unparse(expr)


class WriterExec:
    def __init__(self, repo, mod, fn, consts=None, assume=None, inline=None, max_inline=2):
        self.repo, self.mod, self.fn = repo, mod, fn
        self.consts = dict(consts or {})
        self.assume = dict(assume or {})  # canonical condition text -> bool
        self.folder = Folder(repo, mod.name, self.consts)
        self.unknown_conds = []  # conditions left symbolic
        self.stores = {}  # attribute stores seen: "self._x" -> terms
        self.notes = []
        self.inline = inline or {}
        self.max_inline = max_inline

    # -- conditions ---------------------------------------------------------------------------
    def cond(self, test, env):
        """True / False / None(unknown) and canonical text."""
        sub = _Subst(env).visit(copy.deepcopy(test))
        ast.fix_missing_locations(sub)
        txt = ast.unparse(sub)
        v = self.folder.fold(sub)
        if v is not Unknown and not isinstance(v, (list, dict)):
            return bool(v), txt
        if isinstance(sub, ast.BoolOp):
            vals = [self.cond(x, Env())[0] for x in sub.values]
            if isinstance(sub.op, ast.And):
                if any(x is False for x in vals):
                    return False, txt
                if all(x is True for x in vals):
                    return True, txt
            else:
                if any(x is True for x in vals):
                    return True, txt
                if all(x is False for x in vals):
                    return False, txt
        if isinstance(sub, ast.UnaryOp) and isinstance(sub.op, ast.Not):
            v2, _ = self.cond(sub.operand, Env())
            if v2 is not None:
                return (not v2), txt
        if txt in self.assume:
            return self.assume[txt], txt
        # an assumption stated for any spelling of the same comparison (operands swapped and / or negated) applies
        if isinstance(sub, ast.Compare) and len(sub.ops) == 1:
            sym = {ast.Lt: "<", ast.LtE: "<=", ast.Gt: ">", ast.GtE: ">=", ast.Eq: "==", ast.NotEq: "!=", ast.Is: "is", ast.IsNot: "is not",
                   ast.In: "in", ast.NotIn: "not in"}.get(type(sub.ops[0]))
            flip = {"<": ">", "<=": ">=", ">": "<", ">=": "<=", "==": "==", "!=": "!="}
            neg = {"<": ">=", ">=": "<", ">": "<=", "<=": ">", "==": "!=", "!=": "==", "is": "is not", "is not": "is", "in": "not in", "not in": "in"}
            if sym:
                l, r = ast.unparse(sub.left), ast.unparse(sub.comparators[0])
                # a named constant and its value are the same operand
                fl, fr = self.folder.fold(sub.left), self.folder.fold(sub.comparators[0])
                if isinstance(fl, int) and not isinstance(fl, bool):
                    l = str(fl)
                if isinstance(fr, int) and not isinstance(fr, bool):
                    r = str(fr)
                forms = [("%s %s %s" % (l, sym, r), True), ("%s %s %s" % (l, neg[sym], r), False)]
                if sym in flip:
                    forms += [("%s %s %s" % (r, flip[sym], l), True), ("%s %s %s" % (r, flip[neg[sym]], l), False)]
                for ftxt, same in forms:
                    if ftxt in self.assume:
                        return (self.assume[ftxt] if same else not self.assume[ftxt]), txt
        if isinstance(sub, ast.Compare) and len(sub.ops) == 1:
            l, r = ast.unparse(sub.left), ast.unparse(sub.comparators[0])
            for a, b in ((l, r), (r, l)):
                if "%s == %s" % (a, b) in self.assume:
                    v = self.assume["%s == %s" % (a, b)]
                    if isinstance(sub.ops[0], ast.Eq):
                        return v, txt
                    if isinstance(sub.ops[0], ast.NotEq):
                        return (not v), txt
        return None, txt

    # -- expressions --------------------------------------------------------------------------
    def is_bytes(self, e, env):
        if isinstance(e, ast.Constant):
            return isinstance(e.value, bytes)
        if isinstance(e, ast.Name):
            return e.id in env.b
        if isinstance(e, ast.BinOp) and isinstance(e.op, ast.Add):
            return self.is_bytes(e.left, env) or self.is_bytes(e.right, env)
        if isinstance(e, ast.BinOp) and isinstance(e.op, ast.Mult):
            return self.is_bytes(e.left, env) or self.is_bytes(e.right, env)
        if isinstance(e, ast.Call):
            nm = _cname(e)
            if nm in INT_ENC or nm in ("int_to_byte", "encode_varint", "encode_varstr", "serialize_key_value", "bytes", "encode_num") or nm in HASHES:
                return True
            if isinstance(e.func, ast.Attribute) and (nm in SER_METHODS or nm == "to_bytes"):
                return True
            if nm in ("encode_base58_checksum",):
                return False
        if isinstance(e, ast.Subscript):
            return self.is_bytes(e.value, env) or (isinstance(e.slice, ast.Slice) and isinstance(e.value, ast.Attribute))
        if isinstance(e, ast.IfExp):
            return self.is_bytes(e.body, env) or self.is_bytes(e.orelse, env)
        return False

    def sym(self, e, env):
        """terms of an expression required to be bytes"""
        if isinstance(e, ast.Constant):
            if isinstance(e.value, bytes):
                return [("const", e.value)] if e.value else []
            return [("expr", repr(e.value))]
        if isinstance(e, ast.Name):
            if e.id in env.b:
                return list(env.b[e.id])
            if e.id in env.e:
                return self.sym(env.e[e.id], Env(env.b, {}))
            v = self.folder.fold(e)
            if isinstance(v, bytes) and not (getattr(self, "keep_const_names", False) and e.id.isupper()):
                return [("const", v)] if v else []
            return [("bytes", e.id, "")]
        if isinstance(e, ast.BinOp) and isinstance(e.op, ast.Add):
            return self.sym(e.left, env) + self.sym(e.right, env)
        if isinstance(e, ast.BinOp) and isinstance(e.op, ast.Mult):
            for a, b in ((e.left, e.right), (e.right, e.left)):
                av = self.folder.fold(a)
                if isinstance(av, bytes):
                    n = self.folder.fold(_Subst(env).visit(copy.deepcopy(b)))
                    if isinstance(n, int):
                        return [("const", av * n)] if av * n else []
                    return [("pad", av, canon(b, env))]
        if isinstance(e, ast.IfExp):
            c, txt = self.cond(e.test, env)
            if c is True:
                return self.sym(e.body, env)
            if c is False:
                return self.sym(e.orelse, env)
            self.unknown_conds.append(txt)
            return [("alt", txt, self.sym(e.body, env), self.sym(e.orelse, env))]
        if isinstance(e, ast.Subscript):
            base = self.sym(e.value, env)
            sl = ast.unparse(e.slice)
            if len(base) == 1 and base[0][0] == "bytes":
                return [("bytes", base[0][1], (base[0][2] + " " if base[0][2] else "") + "[" + sl + "]")]
            if len(base) == 1 and base[0][0] in ("hash", "nested", "call"):
                return [("slice", sl, base)]
            if len(base) == 1 and base[0][0] == "const" and isinstance(e.slice, ast.Slice):
                try:
                    v = eval("b[%s]" % sl, {"b": base[0][1]})
                    return [("const", v)] if v else []
                except Exception:
                    pass
            return [("slice", sl, base)]
        if isinstance(e, ast.Attribute):
            return [("bytes", canon(e, env), "")]
        if isinstance(e, ast.Call):
            return self.sym_call(e, env)
        if isinstance(e, ast.JoinedStr):
            return [("expr", canon(e, env))]
        return [("expr", canon(e, env))]

    def sym_call(self, e, env):
        nm = _cname(e)
        args = e.args
        if nm in INT_ENC and len(args) == 2:
            w = self.folder.fold(_Subst(env).visit(copy.deepcopy(args[1])))
            return [("int", w if isinstance(w, int) else canon(args[1], env), INT_ENC[nm], canon(args[0], env))]
        if nm == "int_to_byte" and len(args) == 1:
            return [("int", 1, "LE", canon(args[0], env))]
        if nm == "bytes" and len(args) == 1 and isinstance(args[0], ast.List):
            return [("int", 1, "LE", canon(x, env)) for x in args[0].elts]
        if nm == "encode_varint" and len(args) == 1:
            return [("varint", canon(args[0], env))]
        if nm == "encode_varstr" and len(args) == 1:
            return [("varstr", self.sym(args[0], env))]
        if nm == "serialize_key_value" and len(args) == 2:
            return [("kv", self.sym(args[0], env), self.sym(args[1], env))]
        if nm == "to_bytes" and isinstance(e.func, ast.Attribute) and len(args) == 2:
            w = self.folder.fold(_Subst(env).visit(copy.deepcopy(args[0])))
            order = self.folder.fold(args[1])
            return [("int", w if isinstance(w, int) else canon(args[0], env), "BE" if order == "big" else "LE", canon(e.func.value, env))]
        if nm in HASHES:
            return [("hash", nm, [self.sym(a, env) for a in args][0] if len(args) == 1 else sum([self.sym(a, env) for a in args], []))]
        if isinstance(e.func, ast.Attribute) and isinstance(e.func.value, ast.Name) and e.func.value.id == "self" and not e.args and not e.keywords \
                and self.max_inline > 0 and (nm.startswith(("serialize", "raw_serialize", "_serialize")) or nm in self.inline):
            # self-call of a sibling serializer: inline its layout
            cls = None
            for qn, f in self.mod.functions.items():
                if f is self.fn and "." in qn:
                    cls = qn.split(".")[0]
            r = self.repo.resolve_method(self.mod.name, cls, nm) if cls else None
            if r is not None:
                sub = WriterExec(self.repo, r[0], r[1], self.consts, self.assume, max_inline=self.max_inline - 1)
                t = sub.run()
                if t is not None and not any(x[0] in ("expr",) for x in t):
                    self.unknown_conds += sub.unknown_conds
                    return t
        if isinstance(e.func, ast.Attribute) and nm in SER_METHODS:
            obj = e.func.value
            extra = ""
            if e.args or e.keywords:
                extra = "(" + ", ".join([canon(a, env) for a in e.args] + ["%s=%s" % (k.arg, canon(k.value, env)) for k in e.keywords]) + ")"
            return [("nested", nm + extra, canon(obj, env))]
        if isinstance(e.func, ast.Attribute):
            return [("call", canon(e.func, env), [self.sym(a, env) for a in args])]
        return [("call", nm or canon(e.func, env), [self.sym(a, env) for a in args])]

    # -- statements ---------------------------------------------------------------------------
    def run(self):
        env = Env()
        r = self.block(self.fn.body, env)
        if r[1] is None:
            return None
        return r[1]

    def block(self, stmts, env):
        """returns (env, returned_terms_or_None, flow) flow in {None,'break','continue'}"""
        for i, st in enumerate(stmts):
            if isinstance(st, ast.Return):
                self.last_env = env
                return env, (self.sym(st.value, env) if st.value is not None else []), None
            if isinstance(st, ast.Raise):
                return env, [("raise",)], None
            if isinstance(st, ast.Break):
                for k in env.b:
                    env.b[k] = env.b[k] + [("break",)]
                return env, None, "break"
            if isinstance(st, ast.Continue):
                return env, None, "continue"
            if isinstance(st, (ast.Expr, ast.Pass, ast.Import, ast.ImportFrom, ast.Assert, ast.Delete)):
                continue
            if isinstance(st, ast.Assign) and len(st.targets) == 1:
                self.assign(st.targets[0], st.value, env)
                continue
            if isinstance(st, ast.AugAssign) and isinstance(st.target, ast.Name):
                nm = st.target.id
                if nm in env.b and isinstance(st.op, ast.Add):
                    env.b[nm] = env.b[nm] + self.sym(st.value, env)
                elif self.is_bytes(st.value, env) and isinstance(st.op, ast.Add):
                    env.b[nm] = self.sym(ast.Name(id=nm, ctx=ast.Load()), env) + self.sym(st.value, env)
                else:
                    cur = env.e.get(nm, ast.Name(id=nm, ctx=ast.Load()))
                    env.e = dict(env.e)
                    env.e[nm] = ast.BinOp(left=copy.deepcopy(cur), op=st.op, right=_Subst(env).visit(copy.deepcopy(st.value)))
                continue
            if isinstance(st, ast.AugAssign):
                continue
            if isinstance(st, ast.If):
                c, txt = self.cond(st.test, env)
                if c is True:
                    env, ret, flow = self.block(st.body, env)
                    if ret is not None or flow:
                        return env, ret, flow
                    continue
                if c is False:
                    env, ret, flow = self.block(st.orelse, env)
                    if ret is not None or flow:
                        return env, ret, flow
                    continue
                self.unknown_conds.append(txt)
                ea, ra, fa = self.block(st.body, env.copy())
                eb, rb, fb = self.block(st.orelse, env.copy())
                rest = stmts[i + 1:]
                if ra is not None or rb is not None or fa or fb:
                    # at least one arm leaves: continue each surviving arm separately, merge results as alt
                    if ra is None and not fa:
                        ea, ra, fa = self.block(rest, ea)
                    if rb is None and not fb:
                        eb, rb, fb = self.block(rest, eb)
                    if ra is not None and rb is not None:
                        return env, _merge_terms(txt, ra, rb), None
                    if ra is not None and fb:
                        return self._merge_env(txt, ea, eb), None, fb  # approximate
                    if (fa or fb) and ra is None and rb is None:
                        return self._merge_env(txt, ea, eb), None, (fa if fa == fb else (fa or fb))
                    if ra is not None:
                        # true arm returns, false arm falls off the end without return
                        return eb, _merge_terms(txt, ra, [("falloff",)]), None
                    return ea, _merge_terms(txt, [("falloff",)], rb), None
                env = self._merge_env(txt, ea, eb)
                continue
            if isinstance(st, ast.For):
                env = self.loop(st, env)
                continue
            if isinstance(st, ast.While):
                # generic while: body executed once symbolically as a repeat over the condition
                before = env.copy()
                eb, rb, fb = self.block(st.body, env.copy())
                for k in eb.b:
                    old = before.b.get(k, [])
                    new = eb.b[k]
                    if new != old:
                        delta = new[len(old):] if new[:len(old)] == old else [("unknown", "loop rewrites " + k)]
                        env.b[k] = old + [("repeat", "while " + canon(st.test, before), (), delta)]
                continue
            if isinstance(st, (ast.With,)):
                env, ret, flow = self.block(st.body, env)
                if ret is not None or flow:
                    return env, ret, flow
                continue
            if isinstance(st, ast.Try):
                env, ret, flow = self.block(st.body, env)
                if ret is not None or flow:
                    return env, ret, flow
                continue
            if isinstance(st, (ast.FunctionDef, ast.ClassDef, ast.AnnAssign, ast.Global)):
                continue
            raise AnalysisError("layout executor: statement %s not modelled (line %d)" % (type(st).__name__, st.lineno))
        return env, None, None

    def assign(self, target, value, env):
        if isinstance(target, ast.Name):
            nm = target.id
            if self.is_bytes(value, env):
                env.b[nm] = self.sym(value, env)
                if nm in env.e:
                    env.e = {k: v for k, v in env.e.items() if k != nm}
            else:
                env.b.pop(nm, None)
                env.e = dict(env.e)
                env.e[nm] = _Subst(env).visit(copy.deepcopy(value))
        elif isinstance(target, (ast.Tuple, ast.List)) and isinstance(value, (ast.Tuple, ast.List)) and len(target.elts) == len(value.elts):
            for t, v in zip(target.elts, value.elts):
                self.assign(t, v, env)
        elif isinstance(target, ast.Attribute):
            # attribute stores are recorded (memo fields): "self._x" -> terms
            key = ast.unparse(target)
            if self.is_bytes(value, env):
                self.stores[key] = self.sym(value, env)
            else:
                self.stores[key] = [("expr", canon(value, env))]

    def _merge_env(self, txt, ea, eb):
        out = Env()
        for k in set(ea.b) | set(eb.b):
            a, b = ea.b.get(k), eb.b.get(k)
            if a is None or b is None:
                out.b[k] = [("alt", txt, a or [], b or [])]
            elif a == b:
                out.b[k] = a
            else:
                out.b[k] = _merge_terms(txt, a, b)
        e = {}
        for k in set(ea.e) | set(eb.e):
            a, b = ea.e.get(k), eb.e.get(k)
            if a is not None and b is not None and ast.dump(a) == ast.dump(b):
                e[k] = a
            elif a is not None and b is not None:
                e[k] = ast.IfExp(test=ast.parse(txt, mode="eval").body, body=a, orelse=b)
            else:
                e[k] = ast.IfExp(test=ast.parse(txt, mode="eval").body, body=a or ast.Name(id=k, ctx=ast.Load()), orelse=b or ast.Name(id=k, ctx=ast.Load()))
        out.e = e
        return out

    def loop(self, st, env):
        it = st.iter
        vars_ = tuple(n.id for n in ast.walk(st.target) if isinstance(n, ast.Name))
        if isinstance(it, ast.Call) and _cname(it) == "enumerate" and it.args:
            iter_src = canon(it.args[0], env)
        elif isinstance(it, ast.Call) and _cname(it) == "sorted" and it.args:
            iter_src = "sorted(" + canon(it.args[0], env) + ")"
        else:
            iter_src = canon(it, env)
        before = env.copy()
        body_env = env.copy()
        body_env.e = {k: v for k, v in body_env.e.items() if k not in vars_}
        eb, rb, fb = self.block(st.body, body_env)
        for k in set(eb.b) | set(before.b):
            old = before.b.get(k, [])
            new = eb.b.get(k, old)
            if new != old:
                if new[:len(old)] == old:
                    delta = new[len(old):]
                else:
                    delta = [("unknown", "loop rewrites " + k)]
                env.b[k] = old + [("repeat", iter_src, vars_, delta)]
        # scalar state changed in the loop becomes opaque
        for k in set(eb.e):
            if k not in before.e or ast.dump(eb.e[k]) != ast.dump(before.e[k]):
                if k not in vars_:
                    env.e = {kk: vv for kk, vv in env.e.items() if kk != k}
        if st.orelse:
            env, _, _ = self.block(st.orelse, env)
        return env


def _merge_terms(txt, a, b):
    i = 0
    while i < len(a) and i < len(b) and a[i] == b[i]:
        i += 1
    j = 0
    while j < len(a) - i and j < len(b) - i and a[len(a) - 1 - j] == b[len(b) - 1 - j]:
        j += 1
    mid_a, mid_b = a[i:len(a) - j], b[i:len(b) - j]
    return a[:i] + [("alt", txt, mid_a, mid_b)] + (a[len(a) - j:] if j else [])


def _cname(call):
    f = call.func
    if isinstance(f, ast.Name):
        return f.id
    if isinstance(f, ast.Attribute):
        return f.attr
    return None


def alpha_terms(terms):
    """Rename the bound variables of every `repeat` term to positional placeholders (`<elem>` for a single loop
    variable, `<v0>`, `<v1>` for tuple targets) so that comparisons do not depend on how a loop variable is spelled."""
    import re

    def sub(x, pats):
        if isinstance(x, str):
            for rx, new in pats:
                x = rx.sub(new, x)
            return x
        if isinstance(x, tuple):
            if x and x[0] == "repeat" and len(x) == 4:
                vs = tuple(x[2])
                names = ["<elem>"] if len(vs) == 1 else ["<v%d>" % i for i in range(len(vs))]
                inner = pats + [(re.compile(r"(?<![\w.])%s\b" % re.escape(v)), n) for v, n in zip(vs, names)]
                return ("repeat", sub(x[1], pats), tuple(names), sub(x[3], inner))
            return tuple([x[0]] + [sub(y, pats) for y in x[1:]]) if x and isinstance(x[0], str) else tuple(sub(y, pats) for y in x)
        if isinstance(x, list):
            return [sub(y, pats) for y in x]
        return x

    return sub(list(terms), [])


def fmt_terms(terms, depth=0):
    out = []
    for t in terms:
        k = t[0]
        if k == "const":
            out.append("const(%s)" % t[1].hex())
        elif k == "int":
            out.append("int%s%s(%s)" % (t[1], t[2], t[3]))
        elif k == "varint":
            out.append("varint(%s)" % t[1])
        elif k == "varstr":
            out.append("varstr[%s]" % fmt_terms(t[1]))
        elif k == "bytes":
            out.append("bytes(%s%s)" % (t[1], t[2]))
        elif k == "nested":
            out.append("%s.%s" % (t[2], t[1]))
        elif k == "hash":
            out.append("%s[%s]" % (t[1], fmt_terms(t[2])))
        elif k == "call":
            out.append("%s(%s)" % (t[1], "; ".join(fmt_terms(a) for a in t[2])))
        elif k == "repeat":
            out.append("repeat<%s>[%s]" % (t[1], fmt_terms(t[3])))
        elif k == "alt":
            out.append("alt<%s>{%s | %s}" % (t[1], fmt_terms(t[2]), fmt_terms(t[3])))
        elif k == "pad":
            out.append("pad(%s x %s)" % (t[1].hex(), t[2]))
        elif k == "kv":
            out.append("kv{%s => %s}" % (fmt_terms(t[1]), fmt_terms(t[2])))
        elif k == "slice":
            out.append("(%s)[%s]" % (fmt_terms(t[2]), t[1]))
        else:
            out.append("%s" % (t,))
    return " ‖ ".join(out)


# ---------------------------------------------------------------------------------------------------
# Reader side


class ReaderExec:
    """Ordered reads from a stream parameter.  Result: list of read terms, each
    ("read", kind, detail, bound_name) in program order with loops as ("repeat", count_src, [reads], bound_list),
    conditionals as ("alt", cond_src, [reads], [reads]), plus the constructor call(s) returned."""

    def __init__(self, repo, mod, fn, stream=None, consts=None):
        self.repo, self.mod, self.fn = repo, mod, fn
        ps = param_names(fn)
        self.stream = stream or (ps[1] if len(ps) > 1 else ps[0])
        self.folder = Folder(repo, mod.name, consts or {})
        self.returns = []  # (ast Return, cond trail)
        self.aliases = {self.stream}

    def run(self):
        return self.block(self.fn.body)

    def _is_stream(self, e):
        return isinstance(e, ast.Name) and e.id in self.aliases

    def reads_in(self, e, bound=None):
        """reads performed by evaluating expression e, innermost-first / left-to-right."""
        out = []
        self._expr(e, out, bound)
        return out

    def _expr(self, e, out, bound, wrap=None):
        if isinstance(e, ast.Call):
            nm = _cname(e)
            # stream method
            if isinstance(e.func, ast.Attribute) and self._is_stream(e.func.value):
                if nm == "read":
                    w = self.folder.fold(e.args[0]) if e.args else None
                    out.append(["read", "bytes", w if isinstance(w, int) else (ast.unparse(e.args[0]) if e.args else None), wrap or "", bound])
                    return
                if nm in ("seek", "tell", "getvalue"):
                    out.append(["read", nm, ast.unparse(e), "", bound])
                    return
            # wrappers around a direct read
            if nm in INT_DEC and len(e.args) == 1:
                inner = []
                self._expr(e.args[0], inner, bound, wrap=(wrap or ""))
                if len(inner) == 1 and inner[0][1] == "bytes":
                    inner[0][1] = "int"
                    inner[0][3] = INT_DEC[nm] + (inner[0][3] or "")
                out.extend(inner)
                return
            if nm == "from_bytes" and isinstance(e.func, ast.Attribute) and ast.unparse(e.func.value) == "int" and len(e.args) >= 1:
                # int.from_bytes(<read>, order, signed=True): the helpers' spelling is unsigned, so this form only survives
                # normalisation when it is signed -- a different codec from the unsigned writer
                order = e.args[1] if len(e.args) > 1 else next((k.value for k in e.keywords if k.arg == "byteorder"), None)
                o = {"little": "LE", "big": "BE"}.get(order.value if isinstance(order, ast.Constant) else None)
                signed = any(k.arg == "signed" and not (isinstance(k.value, ast.Constant) and k.value.value is False) for k in e.keywords)
                inner = []
                self._expr(e.args[0], inner, bound, wrap=(wrap or ""))
                if o and len(inner) == 1 and inner[0][1] == "bytes":
                    inner[0][1] = "int"
                    inner[0][3] = o + ("-signed" if signed else "") + (inner[0][3] or "")
                out.extend(inner)
                return
            if nm == "read_varint" and e.args and self._is_stream(e.args[0]):
                out.append(["read", "varint", None, "", bound])
                return
            if nm == "read_varstr" and e.args and self._is_stream(e.args[0]):
                out.append(["read", "varstr", None, "", bound])
                return
            # X.parse(s) style
            if any(self._is_stream(a) for a in e.args) or any(self._is_stream(k.value) for k in e.keywords):
                out.append(["read", "nested", ast.unparse(e.func), "", bound])
                return
            # other calls: visit args in order
            if isinstance(e.func, ast.Attribute):
                self._expr(e.func.value, out, bound, wrap)
            for a in e.args:
                self._expr(a, out, bound, wrap)
            for k in e.keywords:
                self._expr(k.value, out, bound, wrap)
            return
        if isinstance(e, ast.Subscript):
            inner = []
            self._expr(e.value, inner, bound, wrap)
            sl = ast.unparse(e.slice)
            if len(inner) == 1 and inner[0][1] == "bytes":
                inner[0][3] = (inner[0][3] or "") + "[" + sl + "]"
            out.extend(inner)
            return
        for ch in ast.iter_child_nodes(e):
            if isinstance(ch, ast.expr):
                self._expr(ch, out, bound, wrap)

    def block(self, stmts):
        out = []
        for st in stmts:
            if isinstance(st, ast.Assign):
                tgt = st.targets[0]
                bound = ast.unparse(tgt)
                # stream aliasing: s2 = BytesIO(...) is a new stream, ignore; x = s
                if isinstance(st.value, ast.Name) and st.value.id in self.aliases and isinstance(tgt, ast.Name):
                    self.aliases.add(tgt.id)
                out += self.reads_in(st.value, bound)
            elif isinstance(st, ast.AugAssign):
                out += self.reads_in(st.value, ast.unparse(st.target))
            elif isinstance(st, ast.Expr):
                v = st.value
                bound = None
                if isinstance(v, ast.Call) and isinstance(v.func, ast.Attribute) and v.func.attr in ("append", "add", "extend") :
                    bound = ast.unparse(v.func.value) + "[]"
                out += self.reads_in(v, bound)
            elif isinstance(st, ast.Return):
                if st.value is not None:
                    out += self.reads_in(st.value, "<return>")
                out.append(["return", st])
            elif isinstance(st, ast.Raise):
                out.append(["raise", st])
            elif isinstance(st, ast.If):
                c = self.reads_in(st.test, "<cond>")
                out += c
                a = self.block(st.body)
                b = self.block(st.orelse)
                if a or b:
                    fv = self.folder.fold(st.test)
                    out.append(["alt", ast.unparse(st.test), a, b])
            elif isinstance(st, ast.For):
                it = st.iter
                # reads performed by the loop header itself: `for _ in range(read_varint(s))`
                hdr_bound = "_count_L%d" % getattr(st, "lineno", 0)
                hdr = self.reads_in(it, hdr_bound)
                out += hdr
                body = self.block(st.body)
                if body:
                    if len(hdr) == 1 and hdr[0][1] == "varint" and isinstance(it, ast.Call) and _cname(it) == "range" and len(it.args) == 1:
                        cnt = hdr_bound
                    else:
                        cnt = ast.unparse(it.args[0]) if isinstance(it, ast.Call) and _cname(it) == "range" and len(it.args) == 1 else ast.unparse(it)
                    out.append(["repeat", cnt, body])
            elif isinstance(st, ast.While):
                c = self.reads_in(st.test, "<cond>")
                body = self.block(st.body)
                if body or c:
                    out.append(["repeat", "while " + ast.unparse(st.test), c + body])
            elif isinstance(st, (ast.With, ast.Try)):
                out += self.block(st.body)
                if isinstance(st, ast.Try):
                    for h in st.handlers:
                        hb = self.block(h.body)
                        if hb and any(x[0] != "raise" for x in hb):
                            out.append(["alt", "except", hb, []])
            elif isinstance(st, ast.Assert):
                out += self.reads_in(st.test, "<cond>")
        return out


def fmt_reads(reads):
    out = []
    for r in reads:
        if r[0] == "read":
            k = r[1]
            if k == "bytes":
                out.append("%s=bytes%s%s" % (r[4], r[2], r[3] or ""))
            elif k == "int":
                out.append("%s=int%s%s" % (r[4], r[2], r[3] or ""))
            elif k == "nested":
                out.append("%s=%s(s)" % (r[4], r[2]))
            else:
                out.append("%s=%s" % (r[4], k))
        elif r[0] == "repeat":
            out.append("repeat<%s>[%s]" % (r[1], fmt_reads(r[2])))
        elif r[0] == "alt":
            out.append("alt<%s>{%s | %s}" % (r[1], fmt_reads(r[2]), fmt_reads(r[3])))
        elif r[0] == "return":
            out.append("return")
        elif r[0] == "raise":
            out.append("raise")
    return " ; ".join(out)
