"""Normalise writer terms and reader reads to a common shape and compare them.

Shape elements:
  ("int", width, endian, field) ("bytes", width|None, mod, field) ("count", field) ("repeat", field, [shape])
  ("nested", field, what) ("const", bytes) ("varstr", field) ("pad",) ("hash", name, n) ("other", text)
`field` is an attribute name of the object being (de)serialised, or None when the value is not a plain field.
"""
import ast
import re

from .layout import ReaderExec, WriterExec, fmt_reads, fmt_terms
from .loader import AnalysisError, param_names

_SELF_ATTR = re.compile(r"^self\.([A-Za-z_][A-Za-z0-9_]*)$")


def _field(src, loopvars=()):
    if src is None:
        return None
    m = _SELF_ATTR.match(src)
    if m:
        return m.group(1)
    if src == "self":
        return "<self>"
    if src in loopvars:
        return "<elem>"
    for v in loopvars:
        if src.startswith(v + "."):
            return "<elem>." + src[len(v) + 1:]
    m = re.match(r"^self\.([A-Za-z_][A-Za-z0-9_]*)\.(.*)$", src)
    if m:
        return m.group(1) + "." + m.group(2)
    return None


def _len_field(repo, mod, fn, src):
    """len(self.x) -> x ; len(self) -> via __len__"""
    m = re.match(r"^len\((.*)\)$", src)
    if not m:
        return None
    inner = m.group(1)
    if inner == "self":
        cls = _class_of(mod, fn)
        if cls:
            r = repo.resolve_method(mod.name, cls, "__len__")
            if r:
                for st in ast.walk(r[1]):
                    if isinstance(st, ast.Return) and st.value is not None:
                        return _len_field(repo, mod, fn, ast.unparse(st.value))
        return None
    return _field(inner)


def _class_of(mod, fn):
    for qn, f in mod.functions.items():
        if f is fn and "." in qn:
            return qn.split(".")[0]
    return None


def writer_shape(repo, mod, fn, terms, loopvars=()):
    out = []
    for t in terms:
        k = t[0]
        if k == "const":
            out.append(("const", t[1]))
        elif k == "int":
            out.append(("int", t[1], t[2], _field(t[3], loopvars) or _len_expr(repo, mod, fn, t[3])))
        elif k == "varint":
            lf = _len_field(repo, mod, fn, t[1])
            out.append(("count", lf) if lf else ("varint", _field(t[1], loopvars)))
        elif k == "varstr":
            inner = t[1]
            f = None
            if len(inner) == 1 and inner[0][0] in ("bytes", "nested"):
                f = _field(inner[0][1] if inner[0][0] == "bytes" else inner[0][2], loopvars)
                if inner[0][0] == "nested":
                    out.append(("varstr", f, "nested:" + inner[0][1]))
                    continue
            out.append(("varstr", f, "") if f or len(inner) <= 1 else ("varstr", None, fmt_terms(inner)))
        elif k == "bytes":
            mod_ = "rev" if "[::-1]" in t[2] else ""
            out.append(("bytes", None, mod_, _field(t[1], loopvars)))
        elif k == "nested":
            out.append(("nested", _field(t[2], loopvars), t[1]))
        elif k == "repeat":
            f = _field(t[1]) or t[1]
            out.append(("repeat", f, writer_shape(repo, mod, fn, t[3], tuple(t[2]))))
        elif k == "alt":
            out.append(("alt", t[1], writer_shape(repo, mod, fn, t[2], loopvars), writer_shape(repo, mod, fn, t[3], loopvars)))
        elif k == "pad":
            out.append(("pad",))
        elif k == "hash":
            out.append(("hash", t[1]))
        elif k == "slice":
            inner = t[2]
            if len(inner) == 1 and inner[0][0] == "hash":
                m = re.match(r"^:(\d+)$", t[1])
                out.append(("hash", inner[0][1], int(m.group(1)) if m else None))
            else:
                out.append(("other", fmt_terms([t])))
        elif k == "kv":
            out.append(("kv", writer_shape(repo, mod, fn, t[1], loopvars), writer_shape(repo, mod, fn, t[2], loopvars)))
        else:
            out.append(("other", fmt_terms([t])))
    return out


def _len_expr(repo, mod, fn, src):
    lf = _len_field(repo, mod, fn, src)
    return ("len:" + lf) if lf else None


def ctor_fields(repo, mod, fn, call):
    """Map of local-name -> attribute for a `cls(...)`/`Class(...)` constructor call inside parser fn."""
    cls = None
    if isinstance(call.func, ast.Name):
        if call.func.id in ("cls",):
            cls = (mod.name, _class_of(mod, fn))
        else:
            r = repo.resolve_name(mod.name, call.func.id)
            if r and r[1] in repo.modules[r[0]].classes:
                cls = r
    if not cls or not cls[1]:
        return {}
    r = repo.resolve_method(cls[0], cls[1], "__init__")
    if not r:
        return {}
    imod, init = r
    ps = param_names(init)[1:]
    # param -> attribute through `self.X = param` / `self.X = F(param)`
    p2a = {}
    for st in ast.walk(init):
        if isinstance(st, ast.Assign) and isinstance(st.targets[0], ast.Attribute) and isinstance(st.targets[0].value, ast.Name) and st.targets[0].value.id == "self":
            names = [n.id for n in ast.walk(st.value) if isinstance(n, ast.Name) and n.id in ps]
            if len(set(names)) == 1:
                p2a.setdefault(names[0], st.targets[0].attr)
    out = {}
    for i, a in enumerate(call.args):
        if i < len(ps):
            for n in ast.walk(a):
                if isinstance(n, ast.Name):
                    out.setdefault(n.id, p2a.get(ps[i], ps[i]))
    for k in call.keywords:
        if k.arg:
            for n in ast.walk(k.value):
                if isinstance(n, ast.Name):
                    out.setdefault(n.id, p2a.get(k.arg, k.arg))
    return out


def reader_shape(repo, mod, fn, reads, fields=None):
    """reads: output of ReaderExec.run()"""
    if fields is None:
        fields = {}
        for r in _walk_reads(reads):
            if r[0] == "return" and r[1].value is not None:
                v = r[1].value
                if isinstance(v, ast.Call):
                    fields.update(ctor_fields(repo, mod, fn, v))
    out = []
    i = 0
    reads = list(reads)
    while i < len(reads):
        r = reads[i]
        if r[0] == "read":
            kind, detail, wrap, bound = r[1], r[2], r[3] or "", r[4]
            bname = (bound or "").replace("[]", "")
            if "." in bname:
                f = "<elem>." + bname.split(".", 1)[1] if not bname.startswith("self.") else bname.split(".", 1)[1]
            else:
                f = fields.get(bname)
            if (bound or "").endswith("[]"):
                f = "<elem>"
            if kind == "int":
                end = "LE" if wrap.startswith("LE") else "BE"
                if wrap[2:].startswith("-signed"):
                    end += "-signed"  # two's complement reading: not the unsigned codec of the writers / the protocol tables
                out.append(("int", detail, end, f))
            elif kind == "bytes":
                # a constant check right after?  `marker = s.read(2); if marker != b"..": raise`
                const = None
                if i + 1 < len(reads) and reads[i + 1][0] == "alt":
                    const = _const_check(reads[i + 1], bname)
                if const is not None and len(const) == detail:
                    out.append(("const", const))
                    i += 2
                    continue
                if bound == "<cond>" and i + 1 < len(reads) and reads[i + 1][0] == "alt" and re.search(r"!= 0\b|!= b'\\x00'", reads[i + 1][1]) \
                        and reads[i + 1][2] and reads[i + 1][2][0][0] == "raise" and isinstance(detail, int):
                    out.append(("const", b"\x00" * detail))
                    i += 2
                    continue
                out.append(("bytes", detail if isinstance(detail, int) else None, "rev" if "[::-1]" in wrap else "", f,) + ((detail,) if not isinstance(detail, int) else ()))
            elif kind == "varint":
                # count of a following repeat?
                if i + 1 < len(reads) and reads[i + 1][0] == "repeat" and reads[i + 1][1] == bname:
                    rep = reads[i + 1]
                    lst = None
                    for x in rep[2]:
                        if x[0] == "read" and x[4] and x[4].endswith("[]"):
                            lst = x[4][:-2]
                    out.append(("count", fields.get(lst, lst)))
                else:
                    out.append(("varint", f))
            elif kind == "varstr":
                out.append(("varstr", f if not (bound or "").endswith("[]") else "<elem>", ""))
            elif kind == "nested":
                out.append(("nested", f if not (bound or "").endswith("[]") else "<elem>", detail))
            else:
                out.append(("other", "%s %s" % (kind, detail)))
        elif r[0] == "repeat":
            lst = None
            for x in r[2]:
                if x[0] == "read" and x[4] and x[4].endswith("[]"):
                    lst = x[4][:-2]
            f = fields.get(lst, lst) if lst else fields.get(r[1], r[1])
            out.append(("repeat", f, reader_shape(repo, mod, fn, r[2], fields)))
        elif r[0] == "alt":
            a, b = reader_shape(repo, mod, fn, r[2], fields), reader_shape(repo, mod, fn, r[3], fields)
            a = [x for x in a if x[0] not in ("raise",)]
            b = [x for x in b if x[0] not in ("raise",)]
            if a or b:
                out.append(("alt", r[1], a, b))
        elif r[0] == "raise":
            out.append(("raise",))
        i += 1
    return out


def _walk_reads(reads):
    for r in reads:
        yield r
        if r[0] == "repeat":
            yield from _walk_reads(r[2])
        elif r[0] == "alt":
            yield from _walk_reads(r[2])
            yield from _walk_reads(r[3])


def _const_check(alt, bname):
    """alt<name != b'..'>{raise | } -> the constant"""
    try:
        t = ast.parse(alt[1], mode="eval").body
    except SyntaxError:
        return None
    if isinstance(t, ast.Compare) and len(t.ops) == 1 and isinstance(t.ops[0], ast.NotEq) and isinstance(t.left, ast.Name) and t.left.id == bname \
            and isinstance(t.comparators[0], ast.Constant) and isinstance(t.comparators[0].value, bytes):
        if alt[2] and alt[2][0][0] == "raise" and not [x for x in alt[3] if x[0] != "raise"]:
            return t.comparators[0].value
    return None


def fmt_shape(sh):
    out = []
    for e in sh:
        k = e[0]
        if k == "int":
            out.append("%s:int%s%s" % (e[3], e[1], e[2]))
        elif k == "bytes":
            out.append("%s:bytes%s%s" % (e[3], e[1] if e[1] is not None else "", "↔" if e[2] == "rev" else ""))
        elif k == "count":
            out.append("#%s" % e[1])
        elif k == "repeat":
            out.append("%s×[%s]" % (e[1], fmt_shape(e[2])))
        elif k == "nested":
            out.append("%s:nested" % e[1])
        elif k == "const":
            out.append(e[1].hex())
        elif k == "varstr":
            out.append("%s:varstr" % e[1])
        elif k == "varint":
            out.append("%s:varint" % e[1])
        elif k == "alt":
            out.append("alt<%s>{%s|%s}" % (e[1], fmt_shape(e[2]), fmt_shape(e[3])))
        elif k == "hash":
            out.append("%s%s" % (e[1], "[:%s]" % e[2] if len(e) > 2 and e[2] else ""))
        else:
            out.append(str(e[0]))
    return " ‖ ".join(out)


def _drop(sh, kinds=("raise", "pad")):
    out = [e for e in sh if e[0] not in kinds]
    # a compact-size length followed by that many plain bytes is a var-string, however it is written or read
    # (`n = read_varint(s); s.read(n)` / `read_varstr(s)`; `encode_varint(len(x)) + x` / `encode_varstr(x)`)
    res = []
    i = 0
    while i < len(out):
        e = out[i]
        nxt = out[i + 1] if i + 1 < len(out) else None
        if e[0] in ("varint", "count") and nxt is not None and nxt[0] == "bytes" and nxt[1] is None and nxt[2] == "" \
                and (e[0] == "varint" or _same_field(e[1], nxt[3])):
            res.append(("varstr", nxt[3], ""))
            i += 2
            continue
        res.append(e)
        i += 1
    return res


def _same_field(a, b):
    if a is None or b is None:
        return True
    a2, b2 = str(a).replace("len:", ""), str(b).replace("len:", "")
    return a2 == b2 or a2.split(".")[-1] == b2.split(".")[-1] or a2.split(".")[0] == b2.split(".")[0] or a2.endswith("_" + b2) or b2.endswith("_" + a2)


def diff(w, r, path=""):
    """First mismatch between a writer shape and a reader/spec shape, or None."""
    w, r = _drop(w), _drop(r)
    i = -1
    while i + 1 < max(len(w), len(r)):
        i += 1
        where = "%sitem %d" % (path, i + 1)
        if i >= len(w):
            return "%s: writer ends, other side continues with %s" % (where, fmt_shape(r[i:i + 1]))
        if i >= len(r):
            return "%s: writer emits %s, other side has nothing" % (where, fmt_shape(w[i:i + 1]))
        a, b = w[i], r[i]
        ka, kb = a[0], b[0]
        if ka == "int" and a[2] == "BE" and kb == "const" and set(b[1]) == {0} and i + 1 < len(r) and r[i + 1][0] == "int" \
                and r[i + 1][2] == "BE" and isinstance(a[1], int) and r[i + 1][1] == a[1] - len(b[1]):
            # intN BE written, k zero bytes checked then int(N-k) BE read: same bytes
            if not _same_field(a[3], r[i + 1][3]):
                return "%s: writer emits field `%s`, other side binds `%s`" % (where, a[3], r[i + 1][3])
            r = r[:i] + [("int", a[1], "BE", r[i + 1][3])] + r[i + 2:]
            continue
        if ka == "const" and kb == "const":
            if a[1] != b[1]:
                return "%s: constant %s vs %s" % (where, a[1].hex(), b[1].hex())
            continue
        if ka == "int" and kb == "int":
            if a[1] != b[1] or a[2] != b[2]:
                return "%s: %s written as int%s%s but read/specified as int%s%s" % (where, a[3] or b[3], a[1], a[2], b[1], b[2])
            if not _same_field(a[3], b[3]):
                return "%s: writer emits field `%s`, other side binds `%s`" % (where, a[3], b[3])
            continue
        if ka == "bytes" and kb == "bytes":
            if a[1] is not None and b[1] is not None and a[1] != b[1]:
                return "%s: %s width %s vs %s" % (where, a[3] or b[3], a[1], b[1])
            if a[2] != b[2]:
                return "%s: %s byte order (reversed on one side only)" % (where, a[3] or b[3])
            if not _same_field(a[3], b[3]):
                return "%s: writer emits field `%s`, other side binds `%s`" % (where, a[3], b[3])
            continue
        if ka == "bytes" and kb == "const" or ka == "const" and kb == "bytes":
            continue  # a named constant on one side (e.g. network magic)
        if ka in ("count", "varint") and kb in ("count", "varint"):
            if not _same_field(a[1], b[1]):
                return "%s: count prefix of `%s` vs `%s`" % (where, a[1], b[1])
            continue
        if ka == "repeat" and kb == "repeat":
            if not _same_field(a[1], b[1]):
                return "%s: repeats over `%s` vs `%s`" % (where, a[1], b[1])
            d = diff(a[2], b[2], where + " / ")
            if d:
                return d
            continue
        if ka == "nested" and kb == "nested":
            if not _same_field(a[1], b[1]):
                return "%s: nested object `%s` vs `%s`" % (where, a[1], b[1])
            continue
        if ka == "varstr" and kb == "varstr":
            if not _same_field(a[1], b[1]):
                return "%s: varstr of `%s` vs `%s`" % (where, a[1], b[1])
            continue
        if ka == "varstr" and kb == "nested" or ka == "nested" and kb == "varstr":
            # Script.serialize is a varstr; a reader may call X.parse(s) for it
            if not _same_field(a[1], b[1]):
                return "%s: `%s` vs `%s`" % (where, a[1], b[1])
            continue
        if ka == "nested" and kb == "bytes" or ka == "bytes" and kb == "nested":
            if not _same_field(a[1] if ka == "nested" else a[3], b[3] if kb == "bytes" else b[1]):
                return "%s: `%s` vs `%s`" % (where, a[1] if ka == "nested" else a[3], b[3] if kb == "bytes" else b[1])
            continue
        if ka == "hash" and kb == "bytes":
            if len(a) > 2 and a[2] and b[1] and a[2] != b[1]:
                return "%s: checksum width %s vs %s" % (where, a[2], b[1])
            continue
        if ka == "alt" and kb == "alt":
            d = diff(a[2], b[2], where + " /T ") or diff(a[3], b[3], where + " /F ")
            if d:
                return d
            continue
        if ka == "int" and kb == "bytes" and b[1] is not None and a[1] == b[1]:
            continue  # integer written, raw bytes kept by the reader (e.g. bits/nonce)
        if ka == "bytes" and kb == "int":
            if a[1] is not None and a[1] != b[1]:
                return "%s: width %s vs %s" % (where, a[1], b[1])
            continue
        return "%s: writer has %s, other side has %s" % (where, fmt_shape([a]), fmt_shape([b]))
    return None


def pair(repo, wspec, rspec, consts=None, stream=None):
    """(writer shape, reader shape, mismatch or None, writer terms text, reader text)"""
    wm, wf = repo.func(wspec)
    rm, rf = repo.func(rspec)
    wx = WriterExec(repo, wm, wf, consts)
    terms = wx.run()
    if terms is None:
        raise AnalysisError("%s: no returned byte string found" % wspec)
    ws = writer_shape(repo, wm, wf, terms)
    rx = ReaderExec(repo, rm, rf, stream)
    reads = rx.run()
    rs = reader_shape(repo, rm, rf, reads)
    if any(e[0] == "other" for e in ws):
        raise AnalysisError("%s: writer construct not classified: %s" % (wspec, fmt_terms(terms)))
    return ws, rs, diff(ws, rs), fmt_terms(terms), fmt_reads(reads)
