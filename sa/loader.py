"""Front end: parse the working tree of the repository into per-module symbol tables.

Nothing here imports or executes buidl.  Everything is derived from source text.
"""
import ast
import hashlib
import os

REPO_ROOT = os.environ.get("VERIF_REPO", "/repo")
PKG = "buidl"


class AnalysisError(Exception):
    """The analysis cannot decide (vanished anchor, unknown idiom). Exit code 2, never a violation."""


_FLIP_OP = {ast.Lt: ast.Gt, ast.Gt: ast.Lt, ast.LtE: ast.GtE, ast.GtE: ast.LtE, ast.Eq: ast.Eq, ast.NotEq: ast.NotEq}


def _const_like(e):
    """Literal, ALL-CAPS module constant, or arithmetic over those (`2 ** 32`, `N - 1`, `33 + 128 * 32`)."""
    if isinstance(e, ast.Constant):
        return True
    if isinstance(e, ast.Name):
        return e.id.isupper() and len(e.id) > 0
    if isinstance(e, ast.UnaryOp) and isinstance(e.op, (ast.USub, ast.UAdd, ast.Invert)):
        return _const_like(e.operand)
    if isinstance(e, ast.BinOp):
        return _const_like(e.left) and _const_like(e.right)
    return False


class _Normalise(ast.NodeTransformer):
    """Behaviour-preserving normal form every rule sees (so that the rules need to know one spelling only):
      * `CONST op x`  ->  `x op' CONST` for a single comparison whose left side is constant-like and right side is not;
        two non-constant operands are ordered by their text (`b > a` -> `a < b`);
      * `x = x <op> e`  ->  `x <op>= e`;
      * `t = E; return t` (adjacent, t a plain local)  ->  `return E`.
    Positions of the original nodes are kept for reporting."""

    def visit_Compare(self, n):
        self.generic_visit(n)
        if len(n.ops) == 1 and type(n.ops[0]) in _FLIP_OP:
            l, r = n.left, n.comparators[0]
            cl, cr = _const_like(l), _const_like(r)
            # constants go right; two non-constant operands are put in the order of their text
            if (cl and not cr) or (not cl and not cr and ast.unparse(l) > ast.unparse(r)):
                return ast.copy_location(ast.Compare(left=r, ops=[_FLIP_OP[type(n.ops[0])]()], comparators=[l]), n)
        return n

    def visit_If(self, n):
        n = self.generic_visit(n)
        # `if not c: A else: B` -> `if c: B else: A`; `if a != b: A else: B` -> `if a == b: B else: A` (two-armed ifs only)
        if n.orelse:
            t = n.test
            swapped = None
            if isinstance(t, ast.UnaryOp) and isinstance(t.op, ast.Not):
                swapped = t.operand
            elif isinstance(t, ast.Compare) and len(t.ops) == 1 and isinstance(t.ops[0], (ast.NotEq, ast.IsNot, ast.NotIn)):
                pos = {ast.NotEq: ast.Eq, ast.IsNot: ast.Is, ast.NotIn: ast.In}[type(t.ops[0])]()
                swapped = ast.copy_location(ast.Compare(left=t.left, ops=[pos], comparators=t.comparators), t)
            if swapped is not None:
                return ast.copy_location(ast.If(test=swapped, body=n.orelse, orelse=n.body), n)
        return n

    def visit_Assign(self, n):
        self.generic_visit(n)
        # `x = x <op> e`  ->  `x <op>= e`  (one spelling of an accumulator update)
        if len(n.targets) == 1 and isinstance(n.targets[0], ast.Name) and isinstance(n.value, ast.BinOp) and isinstance(n.value.left, ast.Name) \
                and n.value.left.id == n.targets[0].id:
            return ast.copy_location(ast.AugAssign(target=ast.Name(id=n.targets[0].id, ctx=ast.Store()), op=n.value.op, value=n.value.right), n)
        return n

    def _block(self, stmts):
        out = []
        for s in stmts:
            if (isinstance(s, ast.Return) and isinstance(s.value, ast.Name) and out and isinstance(out[-1], ast.Assign) and len(out[-1].targets) == 1
                    and isinstance(out[-1].targets[0], ast.Name) and out[-1].targets[0].id == s.value.id):
                prev = out.pop()
                out.append(ast.copy_location(ast.Return(value=prev.value), s))
            else:
                out.append(s)
        return out

    def generic_visit(self, node):
        super().generic_visit(node)
        for f in ("body", "orelse", "finalbody"):
            v = getattr(node, f, None)
            if isinstance(v, list) and v and isinstance(v[0], ast.stmt):
                setattr(node, f, self._block(v))
        return node


_REF = None


def _local_names_ref():
    """spec/local_names.json: reference spellings of locals (see sa/roles.py)"""
    global _REF
    if _REF is None:
        import json

        p = os.path.join(os.path.dirname(os.path.dirname(os.path.abspath(__file__))), "spec", "local_names.json")
        try:
            with open(p, encoding="utf-8") as f:
                _REF = json.load(f)
        except OSError:
            _REF = {}
    return _REF


_FREF = None


def _functions_ref():
    """spec/functions_ref.json: {module: [qualified function names of the reference tree]}"""
    global _FREF
    if _FREF is None:
        import json

        p = os.path.join(os.path.dirname(os.path.dirname(os.path.abspath(__file__))), "spec", "functions_ref.json")
        try:
            with open(p, encoding="utf-8") as f:
                _FREF = json.load(f)
        except OSError:
            _FREF = {}
    return _FREF


class Module:
    def __init__(self, name, path, text, raw=None, new_consts=None):
        self.name = name  # e.g. "pecc"
        self.path = path  # e.g. "buidl/pecc.py"
        self.text = text
        self.sha256 = hashlib.sha256(text.encode()).hexdigest()
        from .constprop import substitute
        from .inline import Inliner
        from .normal import normalise

        raw = raw if raw is not None else ast.parse(text, filename=path)
        from .desugar import expand_table_functions
        raw = expand_table_functions(raw)   # functions generated from a name -> value table by a globals() loop
        # named constants that do not exist in the reference tree are written out (sa/constprop.py)
        self.new_consts = new_consts or ({}, {}, {})
        if any(self.new_consts):
            raw = substitute(raw, self.new_consts[0], self.new_consts[1], self.new_consts[2])
        # helpers that do not exist in the reference tree are inlined back into their callers (sa/inline.py)
        ref_funcs = _functions_ref().get(name)
        self.inlined = Inliner(raw, name, set(ref_funcs)).run() if ref_funcs is not None else []
        self.tree = normalise(raw)
        if ref_funcs is not None:
            # helper calls that sat inside a comprehension / conditional expression become reachable for the inliner once those are
            # desugared: one more round (only when something is inlined is the normal form recomputed)
            again = Inliner(self.tree, name, set(ref_funcs)).run()
            if again:
                self.inlined = list(self.inlined) + list(again)
                self.tree = normalise(self.tree)
        self.functions = {}  # qualname -> FunctionDef
        self.classes = {}  # name -> ClassDef
        self.constants = {}  # name -> ast expr (module-level single-target assigns; last one wins)
        self.const_multi = {}  # name -> [exprs] when assigned more than once
        self.imports = {}  # local name -> (module, original name)
        self.star_imports = []  # module names
        self.ext_imports = {}  # local name -> (module outside the repository, original name or None for the module itself)
        self.parents = {}
        for node in ast.walk(self.tree):
            for ch in ast.iter_child_nodes(node):
                self.parents[ch] = node
        self._index()

    def _index(self):
        for st in self.tree.body:
            self._index_stmt(st)
        # canonical names for the locals some rules talk about (sa/roles.py, table in spec/roles.py)
        from spec.roles import ROLES
        from .roles import apply_reference, apply_roles

        self.roles_applied = {}
        self.renamed = {}
        ref = _local_names_ref()
        for qn, fn in self.functions.items():
            for variant in ref.get("%s:%s" % (self.name, qn), []):
                mp = apply_reference(fn, variant)
                if mp:
                    self.renamed[qn] = mp
                    break
            rs = ROLES.get("%s:%s" % (self.name, qn))
            if rs:
                self.roles_applied[qn] = apply_roles(fn, rs)

    def _index_stmt(self, st, prefix=""):
        if isinstance(st, (ast.FunctionDef, ast.AsyncFunctionDef)):
            self.functions[prefix + st.name] = st
        elif isinstance(st, ast.ClassDef):
            self.classes[st.name] = st
            for b in st.body:
                if isinstance(b, (ast.FunctionDef, ast.AsyncFunctionDef)):
                    self.functions[st.name + "." + b.name] = b
                elif isinstance(b, ast.Assign) and len(b.targets) == 1 and isinstance(b.targets[0], ast.Name):
                    self.constants[st.name + "." + b.targets[0].id] = b.value
        elif isinstance(st, ast.Assign):
            for t in st.targets:
                if isinstance(t, ast.Name):
                    self.const_multi.setdefault(t.id, []).append(st.value)
                    self.constants[t.id] = st.value
                elif isinstance(t, ast.Tuple) and isinstance(st.value, ast.Tuple) and len(t.elts) == len(st.value.elts):
                    for a, b in zip(t.elts, st.value.elts):
                        if isinstance(a, ast.Name):
                            self.constants[a.id] = b
        elif isinstance(st, ast.ImportFrom):
            mod = st.module or ""
            short = mod.split(".")[-1] if mod.startswith(PKG) else None
            for al in st.names:
                if al.name == "*":
                    if short:
                        self.star_imports.append(short)
                elif short:
                    self.imports[al.asname or al.name] = (short, al.name)
                elif not st.level:
                    self.ext_imports[al.asname or al.name] = (mod, al.name)   # a name of a module outside the repository
        elif isinstance(st, ast.Import):
            for al in st.names:
                if not al.name.startswith(PKG):
                    self.ext_imports[al.asname or al.name.split(".")[0]] = (al.name if al.asname else al.name.split(".")[0], None)
        elif isinstance(st, ast.If) and isinstance(st.test, ast.Compare) and len(st.test.ops) == 1 and isinstance(st.test.ops[0], (ast.Eq, ast.NotEq)) \
                and ast.unparse(st.test.left) == "sys.byteorder" and isinstance(st.test.comparators[0], ast.Constant):
            # a module-level definition that depends on the host's byte order: the analysis reads the branch taken on a little-endian host (every
            # platform the library's wheels are built for), and says so here rather than mixing the two definitions
            taken = ("little" == st.test.comparators[0].value) == isinstance(st.test.ops[0], ast.Eq)
            for sub in (st.body if taken else st.orelse):
                self._index_stmt(sub, prefix)
        elif isinstance(st, (ast.Try, ast.If)):
            # e.g. try: from buidl.cecc import * except: from buidl.pecc import *
            for sub in ast.iter_child_nodes(st):
                if isinstance(sub, ast.stmt):
                    self._index_stmt(sub, prefix)
                elif isinstance(sub, ast.ExceptHandler):
                    for s2 in sub.body:
                        self._index_stmt(s2, prefix)

    def line(self, node):
        return getattr(node, "lineno", 0)

    def src(self, node):
        try:
            return ast.get_source_segment(self.text, node) or ast.unparse(node)
        except Exception:
            return ast.unparse(node)


class Repo:
    """All non-test modules of the package, parsed from `root` (working tree), with optional
    in-memory overrides {relative path: text} used by the mutator self-test."""

    def __init__(self, root=None, overrides=None, variant="p"):
        self.root = root or REPO_ROOT
        self.variant = variant  # "p": ecc->pecc, hash->phash ; "c": ecc->cecc, hash->chash
        self.modules = {}
        self.files = {}
        overrides = overrides or {}
        pkgdir = os.path.join(self.root, PKG)
        if not os.path.isdir(pkgdir):
            raise AnalysisError("package directory %s missing" % pkgdir)
        from .constprop import new_constants

        texts, raws, consts = {}, {}, {}
        fref = _functions_ref()
        for fn in sorted(os.listdir(pkgdir)):
            if not fn.endswith(".py"):
                continue
            rel = PKG + "/" + fn
            if rel in overrides:
                text = overrides[rel]
            else:
                with open(os.path.join(pkgdir, fn), encoding="utf-8") as f:
                    text = f.read()
            name = fn[:-3]
            try:
                raws[name] = ast.parse(text, filename=rel)
            except SyntaxError as e:
                raise AnalysisError("cannot parse %s: %s" % (rel, e))
            texts[name] = (rel, text)
            ref_c = fref.get(name + "#constants")
            consts[name] = new_constants(raws[name], set(ref_c)) if ref_c is not None else ({}, {})
        for name, (rel, text) in texts.items():
            # constants introduced in another module and imported here
            imported = {}
            for st in ast.walk(raws[name]):
                if isinstance(st, ast.ImportFrom) and (st.module or "").startswith(PKG + "."):
                    src = self.alias((st.module or "").split(".")[-1])
                    mc = consts.get(src, ({}, {}))[0]
                    for al in st.names:
                        if al.name == "*":
                            imported.update(mc)
                        elif al.name in mc:
                            imported[al.asname or al.name] = mc[al.name]
            m = Module(name, rel, text, raw=raws[name], new_consts=(consts[name][0], consts[name][1], imported))
            self.modules[m.name] = m
            self.files[rel] = m.sha256
        self.data_files = {}
        for fn in ("bip39_words.txt", "slip39_words.txt"):
            p = os.path.join(pkgdir, fn)
            rel = PKG + "/" + fn
            if rel in overrides:
                self.data_files[fn] = overrides[rel]
            elif os.path.exists(p):
                with open(p, encoding="utf-8") as f:
                    self.data_files[fn] = f.read()

    # -- lookup ---------------------------------------------------------------------------
    def alias(self, modname):
        if modname == "ecc":
            return "pecc" if self.variant == "p" else "cecc"
        if modname == "hash":
            return "phash" if self.variant == "p" else "chash"
        return modname

    def module(self, name):
        name = self.alias(name)
        if name not in self.modules:
            raise AnalysisError("module buidl/%s.py vanished" % name)
        return self.modules[name]

    def func(self, spec):
        """spec = 'module:Qual.name' -> (Module, FunctionDef).  Vanished anchor -> AnalysisError."""
        modname, qn = spec.split(":")
        m = self.module(modname)
        if qn not in m.functions:
            # inherited method?
            if "." in qn:
                cls, meth = qn.split(".", 1)
                r = self.resolve_method(m.name, cls, meth)
                if r:
                    return r
            raise AnalysisError("anchor %s vanished (no such function in %s)" % (spec, m.path))
        return m, m.functions[qn]

    def has_func(self, spec):
        try:
            self.func(spec)
            return True
        except AnalysisError:
            return False

    def cls(self, spec):
        modname, cn = spec.split(":")
        m = self.module(modname)
        if cn not in m.classes:
            raise AnalysisError("anchor class %s vanished" % spec)
        return m, m.classes[cn]

    def resolve_name(self, modname, name, _depth=0):
        """Resolve a global name used in module `modname` to (module, name) of its definition."""
        m = self.module(modname)
        if name in m.functions or name in m.classes or name in m.constants:
            return m.name, name
        if _depth > 6:
            return None
        if name in m.imports:
            mod2, orig = m.imports[name]
            mod2 = self.alias(mod2)
            if mod2 in self.modules:
                return self.resolve_name(mod2, orig, _depth + 1) or (mod2, orig)
            return None
        for sm in m.star_imports:
            sm = self.alias(sm)
            if sm in self.modules:
                r = self.resolve_name(sm, name, _depth + 1)
                if r:
                    return r
        return None

    def bases(self, modname, clsname):
        m = self.module(modname)
        c = m.classes.get(clsname)
        out = []
        if c is None:
            return out
        for b in c.bases:
            if isinstance(b, ast.Name):
                r = self.resolve_name(m.name, b.id)
                if r and r[1] in self.modules[r[0]].classes:
                    out.append(r)
        return out

    def mro(self, modname, clsname):
        seen, order, todo = set(), [], [(self.alias(modname), clsname)]
        while todo:
            cur = todo.pop(0)
            if cur in seen:
                continue
            seen.add(cur)
            order.append(cur)
            todo.extend(self.bases(*cur))
        return order

    def resolve_method(self, modname, clsname, meth):
        for mod2, c2 in self.mro(modname, clsname):
            m2 = self.modules[mod2]
            if c2 + "." + meth in m2.functions:
                return m2, m2.functions[c2 + "." + meth]
        return None

    def subclasses(self, modname, clsname):
        out = []
        target = (self.alias(modname), clsname)
        for m in self.modules.values():
            for cn in m.classes:
                if target in self.mro(m.name, cn)[1:]:
                    out.append((m.name, cn))
        return out

    def all_functions(self):
        for m in self.modules.values():
            for qn, fn in m.functions.items():
                yield m, qn, fn


def decorators(fn):
    out = []
    for d in fn.decorator_list:
        if isinstance(d, ast.Name):
            out.append(d.id)
        elif isinstance(d, ast.Attribute):
            out.append(d.attr)
        elif isinstance(d, ast.Call) and isinstance(d.func, ast.Name):
            out.append(d.func.id)
    return out


def param_names(fn):
    a = fn.args
    return [x.arg for x in a.posonlyargs + a.args] + ([a.vararg.arg] if a.vararg else []) + [x.arg for x in a.kwonlyargs]
