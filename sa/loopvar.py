"""LOOP-LEFTOVER: a table that is filled from the loop's per-iteration values *after* the loop has ended.

`for item in items: ...; key = f(item)` followed, outside the loop, by `table[key(item-derived)] = item-derived` stores only the last
iteration's entry: every earlier item is missing from the table (a dedented line).  The rule looks for a subscript store / `.append` /
`.add` at the nesting level of a `for` loop, after it, whose operands are names assigned *only inside that loop's body* (per-iteration
values), into a container that was created before the loop.  Accumulators (names also assigned before the loop) are not per-iteration
values.  Expected count on the reference tree: zero."""
import ast


def _assigned(stmts):
    out = set()
    for s in stmts:
        for x in ast.walk(s):
            if isinstance(x, ast.Name) and isinstance(x.ctx, ast.Store):
                out.add(x.id)
    return out


def leftover_sites(mod):
    hits, n = [], 0
    for qn, fn in mod.functions.items():
        for holder in ast.walk(fn):
            for field in ("body", "orelse", "finalbody"):
                stmts = getattr(holder, field, None)
                if not isinstance(stmts, list) or not stmts or not isinstance(stmts[0], ast.stmt):
                    continue
                for i, st in enumerate(stmts):
                    if not isinstance(st, ast.For):
                        continue
                    n += 1
                    before = _assigned(stmts[:i]) | {a.arg for a in fn.args.args + fn.args.kwonlyargs + fn.args.posonlyargs}
                    inside = _assigned(st.body) | _assigned([ast.Expr(value=st.target)] if False else []) | {x.id for x in ast.walk(st.target) if isinstance(x, ast.Name)}
                    per_iter = inside - before
                    if not per_iter:
                        continue
                    for later in stmts[i + 1:]:
                        tgt = None
                        if isinstance(later, ast.Assign) and len(later.targets) == 1 and isinstance(later.targets[0], ast.Subscript) and isinstance(later.targets[0].value, ast.Name):
                            tgt, operands = later.targets[0].value.id, [later.targets[0].slice, later.value]
                        elif isinstance(later, ast.Expr) and isinstance(later.value, ast.Call) and isinstance(later.value.func, ast.Attribute) \
                                and later.value.func.attr in ("append", "add") and isinstance(later.value.func.value, ast.Name):
                            tgt, operands = later.value.func.value.id, list(later.value.args)
                        if tgt is None or tgt not in before:
                            # re-assignment of a per-iteration name after the loop ends its per-iteration life
                            per_iter = per_iter - _assigned([later])
                            continue
                        used = {x.id for o in operands for x in ast.walk(o) if isinstance(x, ast.Name) and isinstance(x.ctx, ast.Load)}
                        # the same container is filled inside the loop as well, or every operand is a per-iteration value: the entry belongs to the loop
                        filled_inside = any(isinstance(x, ast.Subscript) and isinstance(x.ctx, ast.Store) and isinstance(x.value, ast.Name) and x.value.id == tgt for b in st.body for x in ast.walk(b)) or \
                            any(isinstance(x, ast.Call) and isinstance(x.func, ast.Attribute) and x.func.attr in ("append", "add") and isinstance(x.func.value, ast.Name) and x.func.value.id == tgt
                                for b in st.body for x in ast.walk(b))
                        names_used = used - {tgt}
                        if names_used and names_used <= per_iter and not filled_inside:
                            hits.append((qn, later, st, sorted(names_used), tgt))
    return n, hits


def leftover_obligation(ctx, modnames, what):
    out, total = [], 0
    for mn in modnames:
        mod = ctx.repo.module(mn)
        n, hits = leftover_sites(mod)
        total += n
        for qn, later, loop, names, tgt in hits:
            out.append(ctx.bad("%s:%s" % (mn, qn), "`%s` runs once, after the loop over `%s` has ended, with the last iteration's %s: `%s` gets one entry instead of one per item (%s)" % (
                ast.unparse(later)[:70], ast.unparse(loop.iter)[:40], ", ".join("`%s`" % x for x in names), tgt, what), later, mod, key="loop-leftover:%s:%s" % (qn, tgt)))
    if not out:
        out.append(ctx.ok("+".join(modnames) + ":*", "no table is filled from per-iteration values after their loop has ended (%d loops inspected)" % total, key="loop-leftover"))
    return out
