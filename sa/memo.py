"""MEMO rules shared by several properties: caches whose key ignores something the cached value depends on.

param_blind_caches   a method stores its result in `self.<attr>` and returns that attribute early on later calls although
                     the stored value was computed from one of the method's parameters
global_table_caches  a function consults a module-level dict / set (`K in TABLE`, `TABLE.get(K)`, `TABLE[K]`) and fills it
                     (`TABLE[K] = v`, `TABLE.add(K)`), and the key K does not cover every parameter the function uses

Both are necessary conditions for "the answer depends only on the arguments": a hit answers for an argument tuple that
was never computed.
"""
import ast

from .cfg import cfg_of
from .dataflow import dotted, expand, origins
from .loader import param_names


def param_blind_caches(ctx, modname, only_prefix=None):
    """-> (number of methods inspected, [(module, function, attribute, parameter, store node)])"""
    mod = ctx.repo.module(modname)
    hits = []
    looked = 0
    for qn, fn in mod.functions.items():
        if "." not in qn or (only_prefix and not qn.startswith(only_prefix)):
            continue
        ps = param_names(fn)
        if len(ps) < 2 or ps[0] != "self":
            continue
        looked += 1
        cfg = cfg_of(fn)
        feeds = set()  # attributes of self that the returned value is computed from
        for n in cfg.returns():
            if n.ast is not None and n.ast.value is not None and not (isinstance(n.ast.value, ast.Constant)):
                for o in origins(fn, n.id, n.ast.value):
                    if o.startswith("attr:self."):
                        feeds.add(o[len("attr:self."):].split(".")[0])
        # `if self.A is None: self.A = f(param)` (any spelling of "not set yet": is None, not self.A, hasattr/getattr): the value
        # computed from the first call's argument stands in for every later argument, whether it is returned or used further on
        for st in ast.walk(fn):
            if not isinstance(st, ast.If):
                continue
            attrs = {x.attr for x in ast.walk(st.test) if isinstance(x, ast.Attribute) and dotted(x.value) == "self"}
            attrs |= {x.args[1].value for x in ast.walk(st.test) if isinstance(x, ast.Call) and isinstance(x.func, ast.Name) and x.func.id in ("getattr", "hasattr")
                      and len(x.args) >= 2 and isinstance(x.args[1], ast.Constant) and isinstance(x.args[1].value, str) and dotted(x.args[0]) == "self"}
            if not attrs:
                continue
            for arm in (st.body, st.orelse):
                for n in cfg.stmts(("stmt",)):
                    a = n.ast
                    if not (isinstance(a, ast.Assign) and any(a is y for b in arm for y in ast.walk(b))):
                        continue
                    for tg in a.targets:
                        if isinstance(tg, ast.Attribute) and dotted(tg.value) == "self" and tg.attr in attrs and tg.attr in feeds:
                            at = origins(fn, n.id, a.value)
                            dep = [p for p in ps[1:] if ("param:" + p) in at]
                            # the test must be about this attribute being unset, not about a parameter as well (`if x and self.a is None` keyed on x is still blind)
                            if dep and not any(h[2] == tg.attr and h[1] is fn for h in hits):
                                hits.append((mod, fn, tg.attr, dep[0], n))
        # early-return form: `if self.A is not None: return self.A` ... `self.A = f(param)` anywhere later
        returned = set()
        for n in cfg.returns():
            v = n.ast.value if n.ast is not None else None
            if isinstance(v, ast.Attribute) and dotted(v.value) == "self":
                returned.add(v.attr)
        for n in cfg.stmts(("stmt",)):
            a = n.ast
            if isinstance(a, ast.Assign) and returned:
                for tg in a.targets:
                    if isinstance(tg, ast.Attribute) and dotted(tg.value) == "self" and tg.attr in returned:
                        at = origins(fn, n.id, a.value)
                        dep = [p for p in ps[1:] if ("param:" + p) in at]
                        tested = any(any((isinstance(x, ast.Attribute) and x.attr == tg.attr and dotted(x.value) == "self")
                                         or (isinstance(x, ast.Call) and isinstance(x.func, ast.Name) and x.func.id in ("getattr", "hasattr") and len(x.args) >= 2
                                             and isinstance(x.args[1], ast.Constant) and x.args[1].value == tg.attr)
                                         for x in ast.walk(t.ast)) for t in cfg.tests())
                        if dep and tested and not any(h[2] == tg.attr and h[1] is fn for h in hits):
                            hits.append((mod, fn, tg.attr, dep[0], n))
    return looked, hits


def copied_memos(ctx, modname):
    """objects made by copy(self) / copy.copy(self) in a class that memoises something in an attribute: the copy carries the
    memo of the original although its fields are about to be changed.  -> (copies inspected, [(module, function, memo attribute, node)])"""
    mod = ctx.repo.module(modname)
    # memo attributes per class: set to None in __init__, assigned elsewhere under a test of themselves
    memo = {}
    for qn, fn in mod.functions.items():
        if "." not in qn or qn.endswith(".__init__"):
            continue
        c = qn.split(".")[0]
        for st in ast.walk(fn):
            if isinstance(st, ast.If):
                tested = {x.attr for x in ast.walk(st.test) if isinstance(x, ast.Attribute) and dotted(x.value) == "self"}
                for b in st.body + st.orelse:
                    for a in ast.walk(b):
                        if isinstance(a, ast.Assign):
                            for t in a.targets:
                                if isinstance(t, ast.Attribute) and dotted(t.value) == "self" and t.attr in tested:
                                    memo.setdefault(c, set()).add(t.attr)
    hits, looked = [], 0
    for qn, fn in mod.functions.items():
        if "." not in qn:
            continue
        c = qn.split(".")[0]
        attrs = set()
        for m2, c2 in ctx.repo.mro(mod.name, c):
            if m2 == mod.name:
                attrs |= memo.get(c2, set())
        if not attrs:
            continue
        for st in ast.walk(fn):
            if isinstance(st, ast.Assign) and len(st.targets) == 1 and isinstance(st.targets[0], ast.Name) and isinstance(st.value, ast.Call) \
                    and ast.unparse(st.value.func) in ("copy", "copy.copy", "copy.deepcopy", "deepcopy") and st.value.args and dotted(st.value.args[0]) == "self":
                looked += 1
                local = st.targets[0].id
                reset = {t.attr for a in ast.walk(fn) if isinstance(a, ast.Assign) for t in a.targets
                         if isinstance(t, ast.Attribute) and isinstance(t.value, ast.Name) and t.value.id == local}
                for a_ in sorted(attrs - reset):
                    hits.append((mod, fn, a_, st))
    return looked, hits


def shared_cached_objects(ctx):
    """`@lru_cache` / `@cache` on a function that builds an object: every caller gets the *same* object.  That is only safe for
    immutable results; here callers go on to change what they got (`point.__class__ = cls`, `point.add_raw_path_data(...)`), so
    the second record parsed for a key rewrites the first.  -> (decorated functions, [(module, function, decorated name, node)])"""
    repo = ctx.repo
    cached = {}  # function name -> (module, qualname)
    for mn, mod in repo.modules.items():
        for qn, fn in mod.functions.items():
            for d in fn.decorator_list:
                t = ast.unparse(d.func if isinstance(d, ast.Call) else d)
                if t.split(".")[-1] in ("lru_cache", "cache", "cached_property", "memoize"):
                    cached[fn.name] = (mn, qn)
    if not cached:
        return 0, []
    # wrappers: functions that just return a call of a cached function
    for _ in range(3):
        for mn, mod in repo.modules.items():
            for qn, fn in mod.functions.items():
                if fn.name in cached:
                    continue
                rets = [r for r in ast.walk(fn) if isinstance(r, ast.Return) and r.value is not None]
                if rets and all(isinstance(r.value, ast.Call) and isinstance(r.value.func, ast.Attribute) and r.value.func.attr in cached
                                or (isinstance(r.value, ast.Call) and isinstance(r.value.func, ast.Name) and r.value.func.id in cached) for r in rets[-1:]):
                    if any(isinstance(r.value, ast.Call) and (getattr(r.value.func, "attr", None) in cached or getattr(r.value.func, "id", None) in cached) for r in rets):
                        cached[fn.name] = cached[(rets[-1].value.func.attr if isinstance(rets[-1].value.func, ast.Attribute) else rets[-1].value.func.id)]
    hits = []
    for mn, mod in repo.modules.items():
        for qn, fn in mod.functions.items():
            got = {}
            for st in ast.walk(fn):
                if isinstance(st, ast.Assign) and len(st.targets) == 1 and isinstance(st.targets[0], ast.Name) and isinstance(st.value, ast.Call):
                    f = st.value.func
                    nm = f.attr if isinstance(f, ast.Attribute) else (f.id if isinstance(f, ast.Name) else None)
                    if nm in cached:
                        got[st.targets[0].id] = nm
            if not got:
                continue
            for st in ast.walk(fn):
                if isinstance(st, ast.Assign):
                    for t in st.targets:
                        if isinstance(t, ast.Attribute) and isinstance(t.value, ast.Name) and t.value.id in got:
                            hits.append((mod, fn, cached[got[t.value.id]], st))
    # a memoised function whose value HOLDS mutable containers (a list display, a comprehension, `[x] * n`, list() / dict() / set() / bytearray()
    # anywhere in what it returns), stored by a caller into an attribute directly or through a shallow copy (list(v), tuple(v), v[:], v.copy()):
    # the inner containers are one object for every caller, so filling in one object's structure fills in every other's
    def holds_mutable(e):
        for x in ast.walk(e):
            if isinstance(x, (ast.List, ast.ListComp, ast.Dict, ast.DictComp, ast.Set, ast.SetComp)):
                return True
            if isinstance(x, ast.Call) and isinstance(x.func, ast.Name) and x.func.id in ("list", "dict", "set", "bytearray", "defaultdict"):
                return True
        return False
    mutable_cached = set()
    for name, (mn, qn) in cached.items():
        f = repo.modules[mn].functions.get(qn)
        if f is None or f.name != name:
            continue
        local = {st.targets[0].id: st.value for st in ast.walk(f) if isinstance(st, ast.Assign) and len(st.targets) == 1 and isinstance(st.targets[0], ast.Name)}
        for r in ast.walk(f):
            if isinstance(r, ast.Return) and r.value is not None:
                v = local.get(r.value.id, r.value) if isinstance(r.value, ast.Name) else r.value
                if holds_mutable(v) and not (isinstance(v, ast.Call) and isinstance(v.func, ast.Name) and v.func.id in ("bytes", "str", "int", "sum", "len", "frozenset")
                                              or isinstance(v, ast.Call) and isinstance(v.func, ast.Attribute) and v.func.attr in ("join", "digest", "hex")):
                    mutable_cached.add(name)
    for mn, mod in repo.modules.items():
        if not mutable_cached:
            break
        for fn in raw_fns_all(mod):     # as written: the front end inlines small helpers into their callers
            for st in ast.walk(fn):
                if not (isinstance(st, ast.Assign) and any(isinstance(t, ast.Attribute) for t in st.targets)):
                    continue
                v = st.value
                if isinstance(v, ast.Call) and isinstance(v.func, ast.Name) and v.func.id in ("list", "tuple") and len(v.args) == 1:
                    v = v.args[0]
                elif isinstance(v, ast.Call) and isinstance(v.func, ast.Attribute) and v.func.attr == "copy" and not v.args:
                    v = v.func.value
                elif isinstance(v, ast.Subscript) and isinstance(v.slice, ast.Slice) and v.slice.lower is None and v.slice.upper is None:
                    v = v.value
                if isinstance(v, ast.Call):
                    nm = v.func.attr if isinstance(v.func, ast.Attribute) else (v.func.id if isinstance(v.func, ast.Name) else None)
                    if nm in mutable_cached:
                        hits.append((mod, fn, cached[nm], st))
    return len(cached), hits


def state_blind_caches(ctx, modname, only_prefix):
    """methods (of the classes named by only_prefix) that compute a value from the object's *current* fields, keep it in
    `self.<A>` the first time (`if self.A is None: self.A = f(self.fields)`) and answer from `self.A` afterwards: later changes
    of the fields are not seen.  -> (methods inspected, [(module, function, attribute, field, store node)])"""
    mod = ctx.repo.module(modname)
    hits, looked = [], 0
    for qn, fn in mod.functions.items():
        if not qn.startswith(only_prefix):
            continue
        ps = param_names(fn)
        if not ps or ps[0] != "self":
            continue
        looked += 1
        cfg = cfg_of(fn)
        feeds = set()
        for n in cfg.returns():
            if n.ast is not None and n.ast.value is not None and not isinstance(n.ast.value, ast.Constant):
                for o in origins(fn, n.id, n.ast.value):
                    if o.startswith("attr:self."):
                        feeds.add(o[len("attr:self."):].split(".")[0])
        for st in ast.walk(fn):
            if not isinstance(st, ast.If):
                continue
            attrs = {x.attr for x in ast.walk(st.test) if isinstance(x, ast.Attribute) and dotted(x.value) == "self"}
            attrs |= {x.args[1].value for x in ast.walk(st.test) if isinstance(x, ast.Call) and isinstance(x.func, ast.Name) and x.func.id in ("getattr", "hasattr")
                      and len(x.args) >= 2 and isinstance(x.args[1], ast.Constant) and isinstance(x.args[1].value, str) and dotted(x.args[0]) == "self"}
            for n in cfg.stmts(("stmt",)):
                a = n.ast
                if not (isinstance(a, ast.Assign) and any(a is y for b in st.body + st.orelse for y in ast.walk(b))):
                    continue
                for tg in a.targets:
                    if isinstance(tg, ast.Attribute) and dotted(tg.value) == "self" and tg.attr in attrs and tg.attr in feeds:
                        src = sorted(o[len("attr:self."):].split(".")[0] for o in origins(fn, n.id, a.value) if o.startswith("attr:self.") and not o.startswith("attr:self." + tg.attr))
                        src = [x for x in src if x != tg.attr and not (x in mod.functions or ("%s.%s" % (qn.split(".")[0], x)) in mod.functions)] or \
                              [x for x in src if x != tg.attr]
                        if src and not any(h[2] == tg.attr and h[1] is fn for h in hits):
                            hits.append((mod, fn, tg.attr, src[0], n))
        # early-return form: `if self.A is not None: return self.A` ... `self.A = f(self.fields)` later in the method
        returned = set()
        for st in ast.walk(fn):
            if isinstance(st, ast.If):
                attrs = {x.attr for x in ast.walk(st.test) if isinstance(x, ast.Attribute) and dotted(x.value) == "self"}
                attrs |= {x.args[1].value for x in ast.walk(st.test) if isinstance(x, ast.Call) and isinstance(x.func, ast.Name) and x.func.id in ("getattr", "hasattr")
                          and len(x.args) >= 2 and isinstance(x.args[1], ast.Constant) and isinstance(x.args[1].value, str) and dotted(x.args[0]) == "self"}
                for b in st.body + st.orelse:
                    if isinstance(b, ast.Return) and b.value is not None:
                        for x in ast.walk(b.value):
                            if isinstance(x, ast.Attribute) and dotted(x.value) == "self" and x.attr in attrs:
                                returned.add(x.attr)
        if returned:
            for n in cfg.stmts(("stmt",)):
                a = n.ast
                if not isinstance(a, ast.Assign):
                    continue
                for tg in a.targets:
                    if isinstance(tg, ast.Attribute) and dotted(tg.value) == "self" and tg.attr in returned:
                        src = sorted(o[len("attr:self."):].split(".")[0] for o in origins(fn, n.id, a.value) if o.startswith("attr:self.") and not o.startswith("attr:self." + tg.attr))
                        src = [x for x in src if x != tg.attr and not (x in mod.functions or ("%s.%s" % (qn.split(".")[0], x)) in mod.functions)] or \
                              [x for x in src if x != tg.attr]
                        if src and not any(h[2] == tg.attr and h[1] is fn for h in hits):
                            hits.append((mod, fn, tg.attr, src[0], n))
    return looked, hits


# Caches of the reference tree, confirmed by reading (module, method, attribute) -> why answering from them is right
CONFIRMED_CACHES = {
    ("hd", "raw_serialize", "_raw"): "an HD public key is never edited after construction (no method assigns network / depth / chain code / point); the "
                                      "serialisation is built once",
    ("tx", "value", "_value"): "the previous output an input spends is fixed by (prev_tx, prev_index); `network` only selects where it is fetched from",
    ("tx", "script_pubkey", "_script_pubkey"): "as for value(): the previous output is fixed by (prev_tx, prev_index)",
    ("tx", "fetch", "cls.cache"): "transactions are identified by their id, which is their hash: the network only selects the service asked",
}


def cache_obligation(ctx, modnames, what):
    """MEMO over every module a property is anchored in: parameter-blind, table, copied and shared caches (memo_obligation) and
    state-blind caches (a value computed from the object's fields, kept on first use and returned afterwards), minus the caches
    of the reference tree that were confirmed by reading"""
    out = []
    for r in memo_obligation(ctx, modnames, what):
        if r.status == "violation":
            k = (r.key or "").split(":", 1)[-1]
            m, f = r.anchor.split(":")[0], r.anchor.split(":")[1]
            if (m, f, k) in CONFIRMED_CACHES:
                continue
        out.append(r)
    looked = 0
    for mn in modnames:
        a, hits = state_blind_caches(ctx, mn, "")
        looked += a
        for mod, fn, attr, field, n in hits:
            if (mn, fn.name, attr) in CONFIRMED_CACHES:
                continue
            out.append(ctx.bad("%s:%s" % (mn, fn.name), "`self.%s` keeps the value computed from `self.%s` on the first call and is returned afterwards without looking at "
                                                        "the object again (%s)" % (attr, field, what), n.ast, mod, key="state-blind-cache:" + attr))
    if not any(r.status != "ok" for r in out):
        out = [r for r in out if r.status == "ok"][:1]
        out.append(ctx.ok("+".join(modnames) + ":*", "no method answers from a value remembered from an earlier state of the object (%d methods inspected; %d confirmed caches of "
                                                    "the reference tree exempt)" % (looked, len(CONFIRMED_CACHES)), key="state-memo"))
    return out


def state_memo_obligation(ctx, modname, only_prefix, what):
    looked, hits = state_blind_caches(ctx, modname, only_prefix)
    out = []
    for mod, fn, attr, field, n in hits:
        out.append(ctx.bad("%s:%s" % (modname, fn.name), "`self.%s` keeps the value computed from `self.%s` on the first call and is returned afterwards without looking at "
                                                       "the object again (%s)" % (attr, field, what), n.ast, mod, key="state-blind-cache:" + attr))
    if not out:
        out.append(ctx.ok("%s:%s*" % (modname, only_prefix), "no method answers from a value remembered from an earlier state of the object (%d methods inspected)" % looked,
                          key="state-memo"))
    return out


def memo_obligation(ctx, modnames, what):
    """results for one MEMO obligation over the given modules"""
    out = []
    looked = users = 0
    for mn in modnames:
        a, hits = param_blind_caches(ctx, mn)
        looked += a
        for mod, fn, attr, p, n in hits:
            out.append(ctx.bad("%s:%s" % (mn, fn.name), "`self.%s` caches a value computed from the argument `%s` and is returned on later calls whatever the argument is "
                                                        "(%s)" % (attr, p, what), n.ast, mod, key="param-blind-cache:" + attr))
        if mn == modnames[0]:
            nd, shits = shared_cached_objects(ctx)
            seen_sh = set()
            for mod2, fn2, (cm, cq), n2 in shits:
                if (cm, cq, fn2.name) in seen_sh:
                    continue
                seen_sh.add((cm, cq, fn2.name))
                out.append(ctx.bad("%s:%s" % (cm, cq), "the result of the memoised %s.%s is one shared object, and %s goes on to change it (`%s`): two records that name the same "
                                                       "key alias each other, the later one overwrites the earlier one's data (%s)" % (cm, cq, fn2.name, ast.unparse(n2)[:50], what),
                                   n2, mod2, key="shared-cached-object:" + cq))
        c_, chits = copied_memos(ctx, mn)
        looked += c_
        for mod, fn, attr, n in chits:
            out.append(ctx.bad("%s:%s" % (mn, fn.name), "`%s` copies the object together with its memoised `%s`: the copy answers from the original's cached value after its "
                                                        "fields are changed (%s)" % (ast.unparse(n), attr, what), n, mod, key="copied-memo:" + attr))
        b, ghits = global_table_caches(ctx, mn)
        users += b
        for mod, fn, table, missing, n in ghits:
            out.append(ctx.bad("%s:%s" % (mn, fn.name), "the module-level table `%s` remembers a result under a key that ignores the argument(s) %s: a later call with other "
                                                        "values of them is answered from the table (%s)" % (table, ", ".join(missing), what), n.ast, mod, key="table-cache:" + table))
    if not out:
        out.append(ctx.ok("+".join(modnames) + ":*", "no result is cached under a key that ignores one of its inputs (%d methods with arguments, %d table-backed functions inspected)" % (
            looked, users), key="memo-keys"))
    return out


def _module_tables(mod):
    """module-level dict / set names, and class-level ones (spelled `self.NAME` / `cls.NAME` / `Class.NAME` where they are used)"""
    out = set()
    is_table = lambda v: isinstance(v, (ast.Dict, ast.Set)) or (isinstance(v, ast.Call) and isinstance(v.func, ast.Name) and v.func.id in ("dict", "set", "OrderedDict", "defaultdict"))
    for name, v in mod.constants.items():
        if "." in name:
            continue
        if is_table(v):
            out.add(name)
    for cname, c in mod.classes.items():
        for st in c.body:
            if isinstance(st, ast.Assign) and len(st.targets) == 1 and isinstance(st.targets[0], ast.Name) and is_table(st.value):
                for recv in ("self", "cls", cname):
                    out.add("%s.%s" % (recv, st.targets[0].id))
        # per-instance tables: `self.NAME = {}` in __init__
        init = mod.functions.get(cname + ".__init__")
        if init is not None:
            for st in ast.walk(init):
                if isinstance(st, ast.Assign) and len(st.targets) == 1 and isinstance(st.targets[0], ast.Attribute) and dotted(st.targets[0].value) == "self" and is_table(st.value) \
                        and isinstance(st.value, (ast.Dict, ast.Call)) and not (isinstance(st.value, ast.Dict) and st.value.keys):
                    out.add("self.%s" % st.targets[0].attr)
    return out


def raw_fns_all(mod):
    """function definitions of the module as written (the front end may have inlined a helper into its callers)"""
    try:
        return [x for x in ast.walk(ast.parse(mod.text)) if isinstance(x, ast.FunctionDef)]
    except SyntaxError:
        return list(mod.functions.values())


def global_table_caches(ctx, modname):
    """-> (number of functions that use a module-level table as a cache, [(module, function, table, missing params, node)])"""
    mod = ctx.repo.module(modname)
    tables = _module_tables(mod)
    hits = []
    users = 0
    if not tables:
        return 0, hits
    for qn, fn in mod.functions.items():
        ps = [p for p in param_names(fn) if p not in ("self", "cls")]
        if not ps:
            continue
        cfg = cfg_of(fn)
        for tname in tables:
            reads, writes = [], []
            for n in cfg.nodes:
                if n.ast is None:
                    continue
                for x in ast.walk(n.ast):
                    if isinstance(x, ast.Compare) and len(x.ops) == 1 and isinstance(x.ops[0], (ast.In, ast.NotIn)) and dotted(x.comparators[0]) == tname:
                        reads.append((n, x.left))
                    elif isinstance(x, ast.Call) and isinstance(x.func, ast.Attribute) and dotted(x.func.value) == tname and x.func.attr == "get" and x.args:
                        reads.append((n, x.args[0]))
                    elif isinstance(x, ast.Call) and isinstance(x.func, ast.Attribute) and dotted(x.func.value) == tname and x.func.attr in ("add", "setdefault") and x.args:
                        writes.append((n, x.args[0]))
                    elif isinstance(x, ast.Subscript) and dotted(x.value) == tname:
                        (writes if isinstance(x.ctx, ast.Store) else reads).append((n, x.slice))
            if not reads or not writes:
                continue
            users += 1
            covered = set()
            for n, k in reads + writes:
                at = origins(fn, n.id, k)
                covered |= {p for p in ps if ("param:" + p) in at}
                # `self`-derived parts of the key cover nothing but the receiver
            # what the cached fact depends on: for `TABLE[K] = V` the parameters V is computed from; for a set
            # (`TABLE.add(K)` records "the computation succeeded for these inputs") every parameter the function reads
            used = set()
            dict_stores = [(n, x) for n in cfg.nodes if n.ast is not None and isinstance(n.ast, ast.Assign)
                           for x in n.ast.targets if isinstance(x, ast.Subscript) and dotted(x.value) == tname]
            if dict_stores:
                for n, x in dict_stores:
                    at = origins(fn, n.id, n.ast.value)
                    used |= {p for p in ps if ("param:" + p) in at}
            else:
                key_nodes = {id(y) for _, k in reads + writes for y in ast.walk(k)}
                for x in ast.walk(fn):
                    if isinstance(x, ast.Name) and isinstance(x.ctx, ast.Load) and x.id in ps and id(x) not in key_nodes:
                        used.add(x.id)
            # (a) a validated entry: `entry = TABLE.get(k)` ... `entry[0] == p` -- the entry is reused only when the remembered copy of p equals
            #     the current one, so p is part of the key in effect
            entry_vars = set()
            for n in cfg.nodes:
                a_ = n.ast
                if isinstance(a_, ast.Assign) and len(a_.targets) == 1 and isinstance(a_.targets[0], ast.Name):
                    v_ = a_.value
                    if (isinstance(v_, ast.Call) and isinstance(v_.func, ast.Attribute) and dotted(v_.func.value) == tname and v_.func.attr == "get") or \
                            (isinstance(v_, ast.Subscript) and dotted(v_.value) == tname):
                        entry_vars.add(a_.targets[0].id)
            if entry_vars:
                for x in ast.walk(fn):
                    if isinstance(x, ast.Compare) and len(x.ops) == 1 and isinstance(x.ops[0], (ast.Eq, ast.NotEq)):
                        for a_, b_ in ((x.left, x.comparators[0]), (x.comparators[0], x.left)):
                            root = a_
                            while isinstance(root, (ast.Subscript, ast.Attribute)):
                                root = root.value
                            if isinstance(root, ast.Name) and root.id in entry_vars and isinstance(b_, ast.Name) and b_.id in ps:
                                covered.add(b_.id)
            # (b) a parameter that is a function of the key at every call site: all callers in the module pass constants for the key parameters,
            #     and one and the same module-level name for this parameter whenever the key constants are the same
            for p_ in sorted(used - covered):
                all_ps_ = param_names(fn)
                off = 1 if all_ps_ and all_ps_[0] in ("self", "cls") else 0
                keyps = [q for q in ps if q in covered]
                calls_ = []
                for fn2 in raw_fns_all(mod):
                    locals2 = set(param_names(fn2)) | {t.id for t in ast.walk(fn2) if isinstance(t, ast.Name) and isinstance(t.ctx, ast.Store)}
                    for c in ast.walk(fn2):
                        if not (isinstance(c, ast.Call) and ((isinstance(c.func, ast.Attribute) and c.func.attr == fn.name) or (isinstance(c.func, ast.Name) and c.func.id == fn.name))):
                            continue
                        argmap = {}
                        for i_, a_ in enumerate(c.args):
                            if i_ + off < len(all_ps_):
                                argmap[all_ps_[i_ + off]] = a_
                        for k_ in c.keywords:
                            if k_.arg:
                                argmap[k_.arg] = k_.value
                        calls_.append((argmap, locals2))
                constkeys = [q for q in keyps if calls_ and all(q in am and isinstance(am[q], ast.Constant) for am, _ in calls_)]
                seen_calls, okb = {}, bool(constkeys) and bool(calls_)
                for argmap, locals2 in calls_:
                    if p_ not in argmap or not (isinstance(argmap[p_], ast.Name) and argmap[p_].id not in locals2):
                        okb = False
                        continue
                    kc = tuple(repr(argmap[q].value) for q in constkeys)
                    if seen_calls.setdefault(kc, argmap[p_].id) != argmap[p_].id:
                        okb = False
                if okb and seen_calls:
                    covered.add(p_)
            missing = sorted(used - covered)
            # fields of a record: a value computed from record["a"] under a key built from record["b"] is not determined by its key
            if dict_stores:
                vidx, kidx = set(), set()
                for n, x in dict_stores:
                    vidx |= {o for o in origins(fn, n.id, n.ast.value) if o.startswith("index:'")}
                for n, k in reads + writes:
                    kidx |= {o for o in origins(fn, n.id, k) if o.startswith("index:'")}
                if kidx and vidx - kidx:
                    missing = missing + ["record field %s (the key is built from %s)" % (", ".join(sorted(o[6:] for o in vidx - kidx)), ", ".join(sorted(o[6:] for o in kidx)))]
            # the receiver: a method whose cached value is computed from `self` must key the table by the whole receiver.
            # `self`, `self.sec()`, `id(self)`, or both coordinates identify it; `self.xonly()` / `self.x` alone identify a point
            # only up to its sign (P and -P share an x), `self.hash160()` etc. are fine (injective encodings of the whole object)
            all_ps = param_names(fn)
            if all_ps and all_ps[0] == "self":
                val_from_self = False
                if dict_stores:
                    for n, x in dict_stores:
                        if "param:self" in origins(fn, n.id, n.ast.value) or any(
                                isinstance(c, ast.Call) and isinstance(c.func, ast.Name) and c.func.id == "super" for c in ast.walk(n.ast.value)):
                            val_from_self = True  # `super().m(...)` works on the receiver too
                else:
                    val_from_self = any(isinstance(x, ast.Name) and x.id == "self" for x in ast.walk(fn))
                if not val_from_self:
                    # values assembled by mutation (appends in a loop) do not show in the origins of the stored name: a method that
                    # reads other attributes of its receiver computes something that depends on the receiver
                    tattr = tname.split(".")[-1]
                    val_from_self = any(isinstance(x, ast.Attribute) and isinstance(x.ctx, ast.Load) and dotted(x.value) == "self" and x.attr != tattr
                                        and ("%s.%s" % (qn.split(".")[0], x.attr)) not in mod.functions for x in ast.walk(fn))
                if val_from_self:
                    kat = set()
                    bare_self = False
                    for n, k in reads + writes:
                        kk = expand(fn, n.id, k, depth=4)
                        kat |= origins(fn, n.id, k)
                        for el in (kk.elts if isinstance(kk, ast.Tuple) else [kk]):
                            if isinstance(el, ast.Name) and el.id == "self":
                                bare_self = True
                    whole = bare_self or "call:sec" in kat or "call:id" in kat or ("attrname:x" in kat and "attrname:y" in kat) or "call:serialize" in kat or "call:raw_serialize" in kat
                    lossy = ("call:xonly" in kat or "attrname:x" in kat) and not whole
                    if lossy:
                        missing = missing + ["self (keyed by its x coordinate only: P and -P share the entry)"]
                    elif not whole and "param:self" not in kat and "name:self" not in kat:
                        missing = missing + ["self"]
            if missing:
                hits.append((mod, fn, tname, missing, writes[0][0]))
    return users, hits
