"""MUTABLE-DEFAULT rule shared by several properties: a default argument that is one object for all calls.

`def __init__(self, items=[])` evaluates `[]` once.  As long as the function only reads the parameter that is harmless;
when it *keeps* the object (`self.items = items`, returns it) or *changes* it (`items.append(..)`), every call that relies
on the default shares one list / dict: the witness of one input shows up in another, a message repeats the previous
message's entries.  The rule flags a parameter whose default is a list / dict / set display (or `list()`, `dict()`, `set()`)
and that is stored into an attribute, returned, or mutated without being copied first.  On the reference tree there is none
(`key_records=[]` in the descriptor constructor is only iterated)."""
import ast

_MUT = ("append", "extend", "insert", "remove", "pop", "clear", "sort", "reverse", "add", "discard", "update", "setdefault", "popitem")


def _mutable_default(e):
    if isinstance(e, (ast.List, ast.Dict, ast.Set)):
        return True
    return isinstance(e, ast.Call) and isinstance(e.func, ast.Name) and e.func.id in ("list", "dict", "set", "bytearray", "OrderedDict", "defaultdict") and not e.args


def mutable_default_sites(mod):
    """[(qualname, node, parameter, how)]"""
    out = []
    for qn, fn in mod.functions.items():
        a = fn.args
        pos = a.posonlyargs + a.args
        pairs = list(zip(pos[len(pos) - len(a.defaults):], a.defaults)) + [(k, d) for k, d in zip(a.kwonlyargs, a.kw_defaults) if d is not None]
        for arg, d in pairs:
            if not _mutable_default(d):
                continue
            p = arg.arg
            rebound = any(isinstance(n, ast.Name) and n.id == p and isinstance(n.ctx, ast.Store) for n in ast.walk(fn))
            if rebound:
                continue  # `x = x or []`, `x = list(x)`: the shared object is replaced before use (judged by other rules)
            # statements that only run when the argument is non-empty never see the (empty) default object
            guarded = set()
            for st in ast.walk(fn):
                if isinstance(st, ast.If) and isinstance(st.test, ast.Name) and st.test.id == p:
                    for b in st.body:
                        guarded |= {id(x) for x in ast.walk(b)}
            for n in ast.walk(fn):
                if id(n) in guarded:
                    continue
                if isinstance(n, ast.Assign) and isinstance(n.value, ast.Name) and n.value.id == p and any(isinstance(t, ast.Attribute) for t in n.targets):
                    out.append((qn, n, p, "stored as `%s`" % ast.unparse(n.targets[0])))
                elif isinstance(n, ast.Return) and isinstance(n.value, ast.Name) and n.value.id == p:
                    out.append((qn, n, p, "returned"))
                elif isinstance(n, ast.Call) and isinstance(n.func, ast.Attribute) and n.func.attr in _MUT and isinstance(n.func.value, ast.Name) and n.func.value.id == p:
                    out.append((qn, n, p, "changed by `.%s()`" % n.func.attr))
                elif isinstance(n, ast.Subscript) and isinstance(n.ctx, (ast.Store, ast.Del)) and isinstance(n.value, ast.Name) and n.value.id == p:
                    out.append((qn, n, p, "changed by item assignment"))
    return out


def mutable_default_obligation(ctx, modnames, what):
    out = []
    looked = 0
    for mn in modnames:
        mod = ctx.repo.module(mn)
        looked += len(mod.functions)
        seen = set()
        for qn, n, p, how in mutable_default_sites(mod):
            if (qn, p) in seen:
                continue
            seen.add((qn, p))
            out.append(ctx.bad("%s:%s" % (mn, qn), "the default of `%s` is one object shared by every call and it is %s: objects built with the default share their "
                                                  "contents (%s)" % (p, how, what), n, mod, key="mutable-default:%s:%s" % (qn, p)))
    if not out:
        out.append(ctx.ok("+".join(modnames) + ":*", "no mutable default argument is kept or changed (%d functions inspected)" % looked, key="mutable-default"))
    return out
