"""Behaviour-preserving normal form that every rule sees, so that the rules need to know one spelling of a construct.

Applied to each module right after parsing (positions of the original nodes are kept for reports):

  comparisons   `CONST op x` -> `x op' CONST`; two non-constant operands are ordered by their text (`b > a` -> `a < b`);
                `not (a < b)` -> `a >= b`, `not (a == b)` -> `a != b`, `not (a in b)` -> `a not in b` ...
                (ordering comparisons in this library are between ints, bytes or str: total orders)
  accumulators  `x = x <op> e` -> `x <op>= e`
  two-armed if  an arm that always leaves (raise / return / continue / break) comes first and the other arm is hoisted
                behind the if:  `if c: raise E else: REST` -> `if c: raise E` ; REST
                                `if c: BODY else: raise E` -> `if not c: raise E` ; BODY
                otherwise a negated test is removed by swapping the arms (`if not c: A else: B` -> `if c: B else: A`,
                `if a != b: A else: B` -> `if a == b: B else: A`)
  temporaries   `t = E` immediately followed by `return t` / `if t:` / `if not t:` (t used nowhere else) -> E inlined
"""
import ast
import copy

_FLIP_OP = {ast.Lt: ast.Gt, ast.Gt: ast.Lt, ast.LtE: ast.GtE, ast.GtE: ast.LtE, ast.Eq: ast.Eq, ast.NotEq: ast.NotEq}
_NEG_OP = {ast.Lt: ast.GtE, ast.GtE: ast.Lt, ast.Gt: ast.LtE, ast.LtE: ast.Gt, ast.Eq: ast.NotEq, ast.NotEq: ast.Eq, ast.Is: ast.IsNot, ast.IsNot: ast.Is,
           ast.In: ast.NotIn, ast.NotIn: ast.In}


def const_like(e):
    """Literal, ALL-CAPS module constant, or arithmetic over those (`2 ** 32`, `N - 1`, `33 + 128 * 32`)."""
    if isinstance(e, ast.Constant):
        return True
    if isinstance(e, ast.Name):
        return e.id.isupper() and len(e.id) > 0
    if isinstance(e, ast.UnaryOp) and isinstance(e.op, (ast.USub, ast.UAdd, ast.Invert)):
        return const_like(e.operand)
    if isinstance(e, ast.BinOp):
        return const_like(e.left) and const_like(e.right)
    return False


def _terminates(body):
    return bool(body) and isinstance(body[-1], (ast.Return, ast.Raise, ast.Continue, ast.Break))


def _negate(t):
    if isinstance(t, ast.UnaryOp) and isinstance(t.op, ast.Not):
        return t.operand
    if isinstance(t, ast.Compare) and len(t.ops) == 1 and type(t.ops[0]) in _NEG_OP:
        return ast.copy_location(ast.Compare(left=t.left, ops=[_NEG_OP[type(t.ops[0])]()], comparators=t.comparators), t)
    return ast.copy_location(ast.UnaryOp(op=ast.Not(), operand=t), t)


def _is_negated(t):
    return (isinstance(t, ast.UnaryOp) and isinstance(t.op, ast.Not)) or \
        (isinstance(t, ast.Compare) and len(t.ops) == 1 and isinstance(t.ops[0], (ast.NotEq, ast.IsNot, ast.NotIn, ast.Gt, ast.GtE)))


def _has_call(e):
    return any(isinstance(n, (ast.Call, ast.Await, ast.Yield, ast.YieldFrom, ast.NamedExpr)) for n in ast.walk(e))


def _const_str(e):
    """the text of a string expression made of literals only: "a", "a" + "b", f"{'a'}_b" (what a name parameter becomes once the helper that
    took it has been inlined); None otherwise"""
    if isinstance(e, ast.Constant) and isinstance(e.value, str):
        return e.value
    if isinstance(e, ast.BinOp) and isinstance(e.op, ast.Add):
        a, b = _const_str(e.left), _const_str(e.right)
        return a + b if a is not None and b is not None else None
    if isinstance(e, ast.JoinedStr):
        parts = []
        for v in e.values:
            if isinstance(v, ast.Constant) and isinstance(v.value, str):
                parts.append(v.value)
            elif isinstance(v, ast.FormattedValue) and v.conversion == -1 and v.format_spec is None and isinstance(v.value, ast.Constant) and isinstance(v.value.value, str):
                parts.append(v.value.value)
            else:
                return None
        return "".join(parts)
    return None


class _FoldLookup(ast.NodeTransformer):
    """{k1: v1, ...}[k] with constant keys and constant k -> the selected value"""

    def visit_Subscript(self, n):
        self.generic_visit(n)
        if isinstance(n.value, ast.Dict) and isinstance(n.slice, ast.Constant) and all(isinstance(k, ast.Constant) for k in n.value.keys):
            for k, val in zip(n.value.keys, n.value.values):
                if k.value == n.slice.value and type(k.value) is type(n.slice.value):
                    return ast.copy_location(copy.deepcopy(val), n)
        return n


class _Subst(ast.NodeTransformer):
    def __init__(self, name, expr):
        self.name, self.expr, self.n = name, expr, 0

    def visit_Name(self, n):
        if n.id == self.name and isinstance(n.ctx, ast.Load):
            self.n += 1
            return ast.copy_location(copy.deepcopy(self.expr), n)
        return n

    def visit_Lambda(self, n):
        return n

    def visit_ListComp(self, n):
        return n

    visit_SetComp = visit_DictComp = visit_GeneratorExp = visit_ListComp


class Normalise(ast.NodeTransformer):
    def __init__(self):
        self.uses = set()  # temporaries of the current function that may be inlined
        self.in_helper = False

    # -- expressions ----------------------------------------------------------------------
    def visit_UnaryOp(self, n):
        self.generic_visit(n)
        if isinstance(n.op, ast.Not) and not getattr(self, "in_cmp_dunder", False):
            # (inside __eq__ / __ne__ / __lt__ ... `not (self == other)` must stay: rewriting it to `self != other` would define the operator by itself)
            t = n.operand
            if isinstance(t, ast.Compare) and len(t.ops) == 1 and type(t.ops[0]) in _NEG_OP:
                return self._orient(ast.copy_location(ast.Compare(left=t.left, ops=[_NEG_OP[type(t.ops[0])]()], comparators=t.comparators), n))
            if isinstance(t, ast.UnaryOp) and isinstance(t.op, ast.Not) and False:
                return t.operand
        return n

    def _orient(self, n):
        if len(n.ops) == 1 and type(n.ops[0]) in _FLIP_OP:
            l, r = n.left, n.comparators[0]
            cl, cr = const_like(l), const_like(r)
            if (cl and not cr) or (not cl and not cr and ast.unparse(l) > ast.unparse(r)):
                return ast.copy_location(ast.Compare(left=r, ops=[_FLIP_OP[type(n.ops[0])]()], comparators=[l]), n)
        return n

    def visit_Compare(self, n):
        self.generic_visit(n)
        # (a, b) == (c, d) over plain names / constants is a == c and b == d; != is a != c or b != d
        if len(n.ops) == 1 and isinstance(n.ops[0], (ast.Eq, ast.NotEq)) and isinstance(n.left, ast.Tuple) and isinstance(n.comparators[0], ast.Tuple) \
                and len(n.left.elts) == len(n.comparators[0].elts) >= 1 \
                and all(isinstance(e, (ast.Name, ast.Constant)) or (isinstance(e, ast.Attribute) and isinstance(e.value, ast.Name)) for e in n.left.elts + n.comparators[0].elts):
            parts = [self._orient(ast.copy_location(ast.Compare(left=a, ops=[type(n.ops[0])()], comparators=[b]), n)) for a, b in zip(n.left.elts, n.comparators[0].elts)]
            if len(parts) == 1:
                return parts[0]
            return ast.copy_location(ast.BoolOp(op=ast.And() if isinstance(n.ops[0], ast.Eq) else ast.Or(), values=parts), n)
        return self._orient(n)

    def visit_Call(self, n):
        self.generic_visit(n)
        # getattr(x, "name") with a literal identifier is x.name
        if isinstance(n.func, ast.Name) and n.func.id == "getattr" and len(n.args) == 2 and not n.keywords:
            nm = _const_str(n.args[1])
            if nm is not None and nm.isidentifier() and not nm.startswith("__"):
                return ast.copy_location(ast.Attribute(value=n.args[0], attr=nm, ctx=ast.Load()), n)
        if self.in_helper:
            return n
        f = n.func

        def order(args, kws, pos):
            """the byte-order argument ('big' / 'little') or None"""
            v = args[pos] if len(args) > pos else next((k.value for k in kws if k.arg == "byteorder"), None)
            if any(k.arg == "signed" and not (isinstance(k.value, ast.Constant) and k.value.value is False) for k in kws):
                return None
            return v.value if isinstance(v, ast.Constant) and v.value in ("big", "little") else None

        def call(name, args):
            return ast.copy_location(ast.Call(func=ast.Name(id=name, ctx=ast.Load()), args=args, keywords=[]), n)
        # x.to_bytes(n, "big")  ==  int_to_big_endian(x, n)   (helper.py defines the helper as exactly this)
        if isinstance(f, ast.Attribute) and f.attr == "to_bytes" and 1 <= len(n.args) + len([k for k in n.keywords if k.arg in ("length", "byteorder")]) <= 2:
            ln = n.args[0] if n.args else next((k.value for k in n.keywords if k.arg == "length"), None)
            o = order(n.args, n.keywords, 1)
            if ln is not None and o:
                return call("int_to_big_endian" if o == "big" else "int_to_little_endian", [f.value, ln])
        # int.from_bytes(b, "big")  ==  big_endian_to_int(b)
        if isinstance(f, ast.Attribute) and f.attr == "from_bytes" and isinstance(f.value, ast.Name) and f.value.id == "int" and n.args:
            o = order(n.args, n.keywords, 1)
            if o:
                return call("big_endian_to_int" if o == "big" else "little_endian_to_int", [n.args[0]])
        # int(b.hex(), 16)  ==  big_endian_to_int(b)  for non-empty b (the library only uses it on fixed-width reads)
        return n

    # -- statements -----------------------------------------------------------------------
    def visit_Assign(self, n):
        self.generic_visit(n)
        # `a, b = x, y` -> `a = x` ; `b = y` when no target is read on the right-hand side
        if len(n.targets) == 1 and isinstance(n.targets[0], ast.Tuple) and isinstance(n.value, ast.Tuple) and len(n.targets[0].elts) == len(n.value.elts) \
                and all(isinstance(t, ast.Name) for t in n.targets[0].elts) and not any(isinstance(v, ast.Starred) for v in n.value.elts):
            tg = {t.id for t in n.targets[0].elts}
            if len(tg) == len(n.targets[0].elts) and not any(isinstance(x, ast.Name) and x.id in tg for v in n.value.elts for x in ast.walk(v)):
                return [self.visit_Assign(ast.copy_location(ast.Assign(targets=[ast.Name(id=t.id, ctx=ast.Store())], value=v, lineno=n.lineno), n))
                        for t, v in zip(n.targets[0].elts, n.value.elts)]
        if len(n.targets) == 1 and isinstance(n.targets[0], ast.Name) and isinstance(n.value, ast.BinOp) and isinstance(n.value.left, ast.Name) \
                and n.value.left.id == n.targets[0].id:
            return ast.copy_location(ast.AugAssign(target=ast.Name(id=n.targets[0].id, ctx=ast.Store()), op=n.value.op, value=n.value.right), n)
        return n

    def visit_FunctionDef(self, n):
        if n.name in ("int_to_big_endian", "int_to_little_endian", "big_endian_to_int", "little_endian_to_int", "int_to_byte", "byte_to_int"):
            prev, self.in_helper = self.in_helper, True
            try:
                return self._visit_function(n)
            finally:
                self.in_helper = prev
        if n.name in ("__eq__", "__ne__", "__lt__", "__le__", "__gt__", "__ge__"):
            prev, self.in_cmp_dunder = getattr(self, "in_cmp_dunder", False), True
            try:
                return self._visit_function(n)
            finally:
                self.in_cmp_dunder = prev
        return self._visit_function(n)

    @staticmethod
    def _verdict_returns(n):
        """opcode handlers (`op_*`) answer True / False: `return a <= b` there is `if a <= b: return True` / `return False`
        (a comparison of ints / Locktime / Sequence yields a bool), the form the guard rules read"""
        class R(ast.NodeTransformer):
            def visit_FunctionDef(self, f):
                return f if f is not n else self.generic_visit(f)

            def visit_Lambda(self, f):
                return f

            def _fix(self, stmts):
                out = []
                for s in stmts:
                    v = s.value if isinstance(s, ast.Return) else None
                    core = v.operand if isinstance(v, ast.UnaryOp) and isinstance(v.op, ast.Not) else v
                    if isinstance(core, ast.Compare) and len(core.ops) == 1 and not isinstance(core.ops[0], (ast.In, ast.NotIn, ast.Is, ast.IsNot)):
                        out.append(ast.copy_location(ast.If(test=v, body=[ast.copy_location(ast.Return(value=ast.Constant(value=True)), s)], orelse=[]), s))
                        out.append(ast.copy_location(ast.Return(value=ast.Constant(value=False)), s))
                    else:
                        out.append(s)
                return out

            def generic_visit(self, node):
                node = super().generic_visit(node)
                for f in ("body", "orelse", "finalbody"):
                    v = getattr(node, f, None)
                    if isinstance(v, list) and v and isinstance(v[0], ast.stmt):
                        setattr(node, f, self._fix(v))
                return node
        return ast.fix_missing_locations(R().visit(n))

    def _visit_function(self, n):
        if n.name.startswith("op_") and any(isinstance(r, ast.Return) and isinstance(r.value, ast.Constant) and isinstance(r.value.value, bool) for r in ast.walk(n)):
            n = self._verdict_returns(n)
        saved = self.uses
        # a temporary is inlined when every read of it is the `return t` / `if t` / `if not t` right after an assignment
        loads, pairs = {}, {}
        for x in ast.walk(n):
            if isinstance(x, ast.Name) and isinstance(x.ctx, ast.Load):
                loads[x.id] = loads.get(x.id, 0) + 1
            for f in ("body", "orelse", "finalbody"):
                v = getattr(x, f, None)
                if isinstance(v, list):
                    for a, b in zip(v, v[1:]):
                        t = self._temp_of(a)
                        if t and (self._reads_only(b, t) or self._in_compound_test(b, t, a.value)):
                            pairs[t] = pairs.get(t, 0) + 1
        self.uses = {t for t, k in pairs.items() if loads.get(t, 0) == k}
        self.generic_visit(n)
        self.uses = saved
        return n

    @staticmethod
    def _temp_of(a):
        if isinstance(a, ast.Assign) and len(a.targets) == 1 and isinstance(a.targets[0], ast.Name):
            return a.targets[0].id
        return None

    @staticmethod
    def _reads_only(b, t):
        if isinstance(b, ast.Return):
            return isinstance(b.value, ast.Name) and b.value.id == t
        if isinstance(b, ast.If):
            tt = b.test
            if isinstance(tt, ast.UnaryOp) and isinstance(tt.op, ast.Not):
                tt = tt.operand
            return isinstance(tt, ast.Name) and tt.id == t
        if isinstance(b, (ast.Assign, ast.AugAssign)):
            # `t = E` ; `x = t` / `x += t` (t is the whole right-hand side and not the target)
            tg = b.targets if isinstance(b, ast.Assign) else [b.target]
            return isinstance(b.value, ast.Name) and b.value.id == t and not any(isinstance(x, ast.Name) and x.id == t for g in tg for x in ast.walk(g))
        return False

    @staticmethod
    def _in_compound_test(b, t, e):
        """`t = E` (E call-free) ; `if <and/or/not structure in which t occurs exactly once as an operand>:`"""
        if not isinstance(b, ast.If) or _has_call(e):
            return False
        n = [0]

        def operands(x):
            if isinstance(x, ast.BoolOp):
                return all(operands(v) for v in x.values)
            if isinstance(x, ast.UnaryOp) and isinstance(x.op, ast.Not):
                return operands(x.operand)
            if isinstance(x, ast.Name) and x.id == t:
                n[0] += 1
                return True
            return not any(isinstance(y, ast.Name) and y.id == t for y in ast.walk(x))
        return isinstance(b.test, (ast.BoolOp, ast.UnaryOp)) and operands(b.test) and n[0] == 1

    visit_AsyncFunctionDef = visit_FunctionDef

    def _if(self, s):
        """-> list of statements replacing the two-armed `if` s"""
        if not isinstance(s, ast.If) or not s.orelse:
            return [s]
        if len(s.orelse) == 1 and isinstance(s.orelse[0], ast.If) and not _terminates(s.body):
            return [s]  # elif chain whose arms fall through: left alone
        if _terminates(s.body):
            head = ast.copy_location(ast.If(test=s.test, body=s.body, orelse=[]), s)
            return [head] + self._block(list(s.orelse))
        if _terminates(s.orelse):
            head = ast.copy_location(ast.If(test=self.visit(_negate(s.test)), body=s.orelse, orelse=[]), s)
            return [head] + list(s.body)
        if _is_negated(s.test):
            return [ast.copy_location(ast.If(test=self.visit(_negate(s.test)), body=s.orelse, orelse=s.body), s)]
        return [s]

    def _inline(self, prev, s):
        """`prev` is `t = E`; returns the statement s with E inlined, or None"""
        if not (isinstance(prev, ast.Assign) and len(prev.targets) == 1 and isinstance(prev.targets[0], ast.Name)):
            return None
        t = prev.targets[0].id
        if t not in self.uses:
            return None
        e = prev.value
        if isinstance(s, ast.Return) and isinstance(s.value, ast.Name) and s.value.id == t:
            return ast.copy_location(ast.Return(value=e), s)
        if isinstance(s, ast.If):
            tt = s.test
            if isinstance(tt, ast.Name) and tt.id == t:
                return ast.copy_location(ast.If(test=e, body=s.body, orelse=s.orelse), s)
            if isinstance(tt, ast.UnaryOp) and isinstance(tt.op, ast.Not) and isinstance(tt.operand, ast.Name) and tt.operand.id == t:
                return ast.copy_location(ast.If(test=self.visit(_negate(e)), body=s.body, orelse=s.orelse), s)
            if self._in_compound_test(s, t, e):
                sub = _Subst(t, e)
                test2 = self.visit(sub.visit(copy.deepcopy(tt)))
                return ast.copy_location(ast.If(test=test2, body=s.body, orelse=s.orelse), s)
            return None
        if isinstance(s, ast.Assign) and isinstance(s.value, ast.Name) and s.value.id == t and self._reads_only(s, t):
            return self.visit_Assign(ast.copy_location(ast.Assign(targets=s.targets, value=e, lineno=s.lineno), s))
        if isinstance(s, ast.AugAssign) and isinstance(s.value, ast.Name) and s.value.id == t and self._reads_only(s, t):
            return ast.copy_location(ast.AugAssign(target=s.target, op=s.op, value=e), s)
        return None

    def _const_arms(self, s):
        """[(If node, arm list attr)] when every arm of the if/elif/else chain `s` is the single statement `v = <constant>`
        for one name v (and the chain ends with an else); -> (v, [arm lists]) or None"""
        arms = []
        name = [None]

        def walk(n):
            for arm in (n.body, n.orelse):
                if len(arm) == 1 and isinstance(arm[0], ast.If) and arm is n.orelse:
                    if not walk(arm[0]):
                        return False
                elif len(arm) == 1 and isinstance(arm[0], ast.Assign) and len(arm[0].targets) == 1 and isinstance(arm[0].targets[0], ast.Name) \
                        and isinstance(arm[0].value, ast.Constant) and name[0] in (None, arm[0].targets[0].id):
                    name[0] = arm[0].targets[0].id
                    arms.append(arm)
                else:
                    return False
            return True
        if isinstance(s, ast.If) and s.orelse and walk(s) and len(arms) >= 2:
            return name[0], arms
        return None

    def _sink_tail(self, stmts):
        """`if c1: v = K1 elif c2: v = K2 else: v = K3` followed by a short tail that only reads v: the tail is moved into
        every arm with v replaced by the arm's constant (so each case is seen on its own path)"""
        for i, s in enumerate(stmts):
            ca = self._const_arms(s)
            tail = stmts[i + 1:]
            if ca is None or not tail or len(tail) > 4:
                continue
            v, arms = ca
            if any(isinstance(x, ast.Name) and x.id == v and isinstance(x.ctx, (ast.Store, ast.Del)) for t in tail for x in ast.walk(t)):
                continue
            if any(isinstance(x, (ast.FunctionDef, ast.Lambda, ast.For, ast.While, ast.Try, ast.With)) for t in tail for x in ast.walk(t)):
                continue
            if not _terminates(tail):
                continue  # the value of v must not be needed after the tail (the tail ends the block with return / raise)
            if not any(isinstance(x, ast.Subscript) and isinstance(x.value, ast.Dict) and isinstance(x.slice, ast.Name) and x.slice.id == v
                       for t in tail for x in ast.walk(t)):
                continue  # only worth it when the constant selects an entry of a literal table
            for arm in arms:
                k = arm[0].value
                new_tail = [_FoldLookup().visit(_Subst(v, k).visit(copy.deepcopy(t))) for t in tail]
                arm[:] = new_tail
            return self._block(stmts[:i + 1])
        return None

    @staticmethod
    def _setattr_stmt(s):
        """setattr(x, "name", v) as a statement with a literal identifier -> x.name = v"""
        if isinstance(s, ast.Expr) and isinstance(s.value, ast.Call) and isinstance(s.value.func, ast.Name) and s.value.func.id == "setattr" and len(s.value.args) == 3 \
                and not s.value.keywords and isinstance(s.value.args[1], ast.Constant) and isinstance(s.value.args[1].value, str) and s.value.args[1].value.isidentifier() \
                and not s.value.args[1].value.startswith("__"):
            c = s.value
            return ast.copy_location(ast.Assign(targets=[ast.Attribute(value=c.args[0], attr=c.args[1].value, ctx=ast.Store())], value=c.args[2], lineno=s.lineno), s)
        return s

    def _block(self, stmts):
        stmts = [self._setattr_stmt(x) for x in stmts]
        sunk = self._sink_tail(stmts) if not getattr(self, "_sinking", False) else None
        if sunk is not None:
            return sunk
        out = []
        for s in stmts:
            if out:
                r = self._inline(out[-1], s)
                if r is not None:
                    out.pop()
                    s = r
                    if isinstance(s, ast.If):
                        s.test = self.visit(s.test)
            if isinstance(s, ast.If):
                out.extend(self._if(s))
            else:
                out.append(s)
        return out

    def generic_visit(self, node):
        super().generic_visit(node)
        for f in ("body", "orelse", "finalbody"):
            v = getattr(node, f, None)
            if isinstance(v, list) and v and isinstance(v[0], ast.stmt):
                setattr(node, f, self._block(v))
        if isinstance(node, ast.Try):
            for h in node.handlers:
                h.body = self._block(h.body)
        return node


def normalise(tree):
    from .desugar import desugar

    return ast.fix_missing_locations(Normalise().visit(desugar(tree)))
