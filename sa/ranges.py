"""RANGE: interval-set abstract interpretation of a few integer-valued expressions over a CFG.

Tracked quantities are identified by the canonical text of an expression (`sig.s`, `index`,
`len(self.items)`); plain local names that are assigned directly from a tracked expression become
aliases, so `s = sig.s; if s >= N: return False` refines `sig.s`.
"""
import ast

from .cfg import cfg_of
from .fold import Folder, Unknown
from .interval import ISet, cmp_set
from .loader import AnalysisError

_OPS = {ast.Lt: "<", ast.LtE: "<=", ast.Gt: ">", ast.GtE: ">=", ast.Eq: "==", ast.NotEq: "!="}
_FLIP = {"<": ">", "<=": ">=", ">": "<", ">=": "<=", "==": "==", "!=": "!="}
_NEGATE = {"<": ">=", "<=": ">", ">": "<=", ">=": "<", "==": "!=", "!=": "=="}


def key_of(expr):
    return ast.unparse(expr)


class State:
    __slots__ = ("vals", "alias", "aff")

    def __init__(self, vals=None, alias=None):
        self.vals = dict(vals or {})  # key -> ISet
        self.alias = dict(alias or {})  # local name -> (key, mul, add)  meaning name == mul*key + add

    def copy(self):
        return State(self.vals, self.alias)

    def join(self, o):
        vals = {}
        for k in set(self.vals) | set(o.vals):
            a, b = self.vals.get(k), o.vals.get(k)
            vals[k] = ISet.top() if (a is None or b is None) else a.union(b)
        alias = {n: v for n, v in self.alias.items() if o.alias.get(n) == v}
        return State(vals, alias)

    def same(self, o):
        return self.vals == o.vals and self.alias == o.alias

    def bottom(self):
        return any(v.is_empty() for v in self.vals.values())


class Ranges:
    def __init__(self, repo, mod, fn, track, effects=None, consts=None, callee_accept=None, types=None):
        """track: {key: initial ISet}; effects(node_ast, state) may mutate state for opaque
        statements (e.g. `self.items.pop()` on `len(self.items)`); consts: extra folding env."""
        self.repo, self.mod, self.fn = repo, mod, fn
        self.cfg = cfg_of(fn)
        self.track = dict(track)
        self.types = dict(types or {})  # key -> ISet the quantity always lies in (e.g. a byte), used when an assignment is opaque
        self.effects = effects
        self.folder = Folder(repo, mod.name, consts or {})
        self.callee_accept = callee_accept or {}
        self.uninterpreted = []  # (node, reason) tests/assignments that mention a tracked key but were not understood
        self.mod_tests = {}  # test node id -> (key, mul, add, m, c, is_eq): residue tests kept as side constraints
        self.interpreted_tests = []
        self.in_state = {}
        self.edge_state = {}
        self._local_consts()
        self._run()

    def _mod_test(self, test, st):
        """`<tracked> % m ==/!= c` -> (key, mul, add, m, c, is_eq) or None"""
        if isinstance(test, ast.Compare) and len(test.ops) == 1 and isinstance(test.ops[0], (ast.Eq, ast.NotEq)) and isinstance(test.left, ast.BinOp) \
                and isinstance(test.left.op, ast.Mod):
            a = self.affine(test.left.left, st)
            m, c = self.const(test.left.right), self.const(test.comparators[0])
            if a and isinstance(m, int) and isinstance(c, int) and m > 0:
                return (a[0], a[1], a[2], m, c, isinstance(test.ops[0], ast.Eq))
        return None

    def _local_consts(self):
        """Locals assigned exactly once from a foldable numeric expression behave as constants (`half = N // 2`)."""
        counts = {}
        for n in ast.walk(self.fn):
            tgts = []
            if isinstance(n, ast.Assign):
                tgts = n.targets
            elif isinstance(n, (ast.AugAssign, ast.AnnAssign, ast.For)):
                tgts = [n.target]
            elif isinstance(n, ast.arg):
                counts[n.arg] = counts.get(n.arg, 0) + 2
            for t in tgts:
                for x in ast.walk(t):
                    if isinstance(x, ast.Name):
                        counts[x.id] = counts.get(x.id, 0) + 1
        for _ in range(3):
            for n in ast.walk(self.fn):
                if isinstance(n, ast.Assign) and len(n.targets) == 1 and isinstance(n.targets[0], ast.Name):
                    nm = n.targets[0].id
                    if counts.get(nm) == 1 and nm not in self.track and nm not in self.folder.env:
                        v = self.folder.fold(n.value)
                        if isinstance(v, (int, float)) and not isinstance(v, bool):
                            self.folder.env[nm] = v

    # -- abstract evaluation ---------------------------------------------------------------
    def const(self, expr):
        v = self.folder.fold(expr)
        if v is Unknown or isinstance(v, (str, bytes, list, tuple, dict, frozenset)) or v is None:
            return None
        return v

    def affine(self, expr, st):
        """expr as (key, mul, add) with mul in {1,-1}, or None."""
        if isinstance(expr, ast.Name) and expr.id in st.alias:
            return st.alias[expr.id]
        k = key_of(expr)
        if k in st.vals:
            # a local name that is tracked directly (a parameter)
            return (k, 1, 0)
        if isinstance(expr, ast.BinOp) and isinstance(expr.op, (ast.Add, ast.Sub)):
            l, r = self.affine(expr.left, st), self.affine(expr.right, st)
            cl, cr = self.const(expr.left), self.const(expr.right)
            if l and isinstance(cr, int):
                return (l[0], l[1], l[2] + (cr if isinstance(expr.op, ast.Add) else -cr))
            if r and isinstance(cl, int):
                if isinstance(expr.op, ast.Add):
                    return (r[0], r[1], r[2] + cl)
                return (r[0], -r[1], cl - r[2])
        if isinstance(expr, ast.UnaryOp) and isinstance(expr.op, ast.USub):
            a = self.affine(expr.operand, st)
            if a:
                return (a[0], -a[1], -a[2])
        return None

    def aeval(self, expr, st):
        """Abstract value (ISet) of an integer expression, or None when unknown."""
        c = self.const(expr)
        if isinstance(c, bool):
            c = int(c)
        if isinstance(c, int):
            return ISet.point(c)
        a = self.affine(expr, st)
        if a:
            s = st.vals[a[0]]
            if a[1] == -1:
                s = s.neg()
            return s.add(a[2])
        if isinstance(expr, ast.BinOp):
            if isinstance(expr.op, ast.Mod):
                m = self.const(expr.right)
                if isinstance(m, int) and m > 0:
                    inner = self.aeval(expr.left, st)
                    return inner.mod(m) if inner is not None else ISet.range(0, m - 1)
            if isinstance(expr.op, (ast.Add, ast.Sub)):
                l, r = self.aeval(expr.left, st), self.aeval(expr.right, st)
                if l is not None and r is not None and len(l.iv) == 1 and len(r.iv) == 1:
                    (a1, b1), (a2, b2) = l.iv[0], r.iv[0]
                    if isinstance(expr.op, ast.Sub):
                        a2, b2 = (None if b2 is None else -b2), (None if a2 is None else -a2)
                    lo = None if a1 is None or a2 is None else a1 + a2
                    hi = None if b1 is None or b2 is None else b1 + b2
                    return ISet.range(lo, hi)
        if isinstance(expr, ast.Call) and isinstance(expr.func, ast.Name):
            if expr.func.id == "len":
                return ISet.range(0, None)
            if expr.func.id in ("min", "max") and len(expr.args) == 2 and not expr.keywords:
                l, r = self.aeval(expr.args[0], st), self.aeval(expr.args[1], st)
                if l is not None and r is not None and len(l.iv) == 1 and len(r.iv) == 1:
                    (a1, b1), (a2, b2) = l.iv[0], r.iv[0]
                    if expr.func.id == "min":
                        lo = None if a1 is None or a2 is None else min(a1, a2)
                        hi = b2 if b1 is None else (b1 if b2 is None else min(b1, b2))
                    else:
                        lo = a2 if a1 is None else (a1 if a2 is None else max(a1, a2))
                        hi = None if b1 is None or b2 is None else max(b1, b2)
                    return ISet.range(lo, hi)
            if expr.func.id == "abs" and len(expr.args) == 1:
                return ISet.range(0, None)
            if expr.func.id == "pow" and len(expr.args) == 3 and not expr.keywords:
                m = self.const(expr.args[2])
                if isinstance(m, int) and m > 0:
                    return ISet.range(0, m - 1)
        if isinstance(expr, ast.IfExp):
            l, r = self.aeval(expr.body, st), self.aeval(expr.orelse, st)
            if l is not None and r is not None:
                return l.union(r)
        return None

    def mentions(self, expr, st):
        """Does the expression mention a tracked key or alias?"""
        keys = set(st.vals)
        for sub in ast.walk(expr):
            if isinstance(sub, ast.Name) and sub.id in st.alias:
                return True
            if isinstance(sub, (ast.Name, ast.Attribute, ast.Call, ast.Subscript)) and key_of(sub) in keys:
                return True
        return False

    # -- refinement -------------------------------------------------------------------------
    def _constrain(self, st, aff, s):
        """Refine: mul*key + add ∈ s."""
        key, mul, add = aff
        s = s.add(-add)
        if mul == -1:
            s = s.neg()
        st.vals[key] = st.vals[key].intersect(s)

    def _refine_cmp(self, left, op, right, st, truth):
        """Refine st with (left op right) == truth; returns False when not understood."""
        if not truth:
            op = _NEGATE[op]
        la, ra = self.affine(left, st), self.affine(right, st)
        lc, rc = self.const(left), self.const(right)
        if la and rc is not None and not ra:
            s = cmp_set(op, rc)
            if s is None:
                return False
            self._constrain(st, la, s)
            return True
        if ra and lc is not None and not la:
            s = cmp_set(_FLIP[op], lc)
            if s is None:
                return False
            self._constrain(st, ra, s)
            return True
        if la and ra:
            # relation between two tracked quantities: use the other's current hull
            lv, rv = self.aeval(left, st), self.aeval(right, st)
            ok = False
            if rv is not None and not rv.is_empty():
                lo, hi = rv.min(), rv.max()
                s = _rel_hull(op, lo, hi)
                if s is not None:
                    self._constrain(st, la, s)
                    ok = True
            if lv is not None and not lv.is_empty():
                lo, hi = lv.min(), lv.max()
                s = _rel_hull(_FLIP[op], lo, hi)
                if s is not None:
                    self._constrain(st, ra, s)
                    ok = True
            return ok
        # one tracked side against an abstractly-evaluable non-constant (e.g. len(x))
        if la and not ra:
            rv = self.aeval(right, st)
            if rv is not None and not rv.is_empty():
                s = _rel_hull(op, rv.min(), rv.max())
                if s is not None:
                    self._constrain(st, la, s)
                    return True
        if ra and not la:
            lv = self.aeval(left, st)
            if lv is not None and not lv.is_empty():
                s = _rel_hull(_FLIP[op], lv.min(), lv.max())
                if s is not None:
                    self._constrain(st, ra, s)
                    return True
        return False

    def refine(self, test, st, truth):
        """Refine state by atomic test having the given truth; returns (state|None, understood)."""
        st = st.copy()
        understood = True
        if isinstance(test, ast.Compare):
            ops = [type(o) for o in test.ops]
            operands = [test.left] + list(test.comparators)
            if all(o in _OPS for o in ops):
                if truth:
                    for i, o in enumerate(ops):
                        if self.mentions(operands[i], st) or self.mentions(operands[i + 1], st):
                            if not self._refine_cmp(operands[i], _OPS[o], operands[i + 1], st, True):
                                understood = False
                else:
                    if len(ops) == 1:
                        if not self._refine_cmp(operands[0], _OPS[ops[0]], operands[1], st, False):
                            understood = False
                    else:
                        # not (a op1 b op2 c)  ==  not(a op1 b) or not(b op2 c): join of refinements
                        outs = []
                        for i, o in enumerate(ops):
                            s2 = st.copy()
                            if not self._refine_cmp(operands[i], _OPS[o], operands[i + 1], s2, False):
                                if self.mentions(operands[i], st) or self.mentions(operands[i + 1], st):
                                    understood = False
                            if not s2.bottom():
                                outs.append(s2)
                        if not outs:
                            return None, understood
                        acc = outs[0]
                        for o2 in outs[1:]:
                            acc = acc.join(o2)
                        st = acc
            elif len(ops) == 1 and ops[0] in (ast.In, ast.NotIn):
                a = self.affine(test.left, st)
                rng = test.comparators[0]
                if a and isinstance(rng, ast.Call) and isinstance(rng.func, ast.Name) and rng.func.id == "range" and 1 <= len(rng.args) <= 2 and not rng.keywords:
                    # membership in range(lo, hi): the interval [lo, hi-1] (integers are the only values tracked)
                    b = [self.folder.fold(x) for x in rng.args]
                    if all(isinstance(x, int) and not isinstance(x, bool) for x in b):
                        lo, hi = (0, b[0]) if len(b) == 1 else b
                        s = ISet.range(lo, hi - 1) if hi > lo else ISet.empty()
                        if (ops[0] is ast.In) != truth:
                            s = s.complement()
                        self._constrain(st, a, s)
                        if st.bottom():
                            return None, understood
                        return st, understood
                vals = self.folder.fold(test.comparators[0])
                if isinstance(vals, dict):
                    vals = tuple(vals.keys())  # membership in a table: its keys
                elif isinstance(vals, set):
                    vals = tuple(vals)
                if a and vals is not Unknown and isinstance(vals, (tuple, list, frozenset)) and all(isinstance(v, int) for v in vals):
                    s = ISet.of(vals)
                    if (ops[0] is ast.In) != truth:
                        s = s.complement()
                    self._constrain(st, a, s)
                else:
                    understood = False
            elif len(ops) == 1 and ops[0] in (ast.Is, ast.IsNot):
                pass  # None tests do not constrain integers
            else:
                understood = False
        else:
            a = self.affine(test, st)
            if a:
                s = ISet.point(0).complement() if truth else ISet.point(0)
                self._constrain(st, a, s)
            elif isinstance(test, ast.Call) and self._callee_refine(test, st, truth):
                pass
            else:
                understood = False
        if st.bottom():
            return None, understood
        return st, understood

    def _callee_refine(self, call, st, truth):
        """`x.has_annex()` style predicate with a known accept-set for a tracked key."""
        k = key_of(call)
        if k in self.callee_accept:
            key, acc = self.callee_accept[k]
            if key in st.vals and truth:
                st.vals[key] = st.vals[key].intersect(acc)
            return True
        return False

    # -- transfer ---------------------------------------------------------------------------
    def _assign(self, target, value, st):
        if isinstance(target, ast.Tuple):
            if isinstance(value, ast.Tuple) and len(value.elts) == len(target.elts):
                # a, b = x, y  (right-hand sides are evaluated before any store: evaluate on a snapshot)
                snap = st.copy()
                for t, v in zip(target.elts, value.elts):
                    tmp = snap.copy()
                    self._assign(t, v, tmp)
                    if isinstance(t, ast.Name):
                        if t.id in tmp.alias:
                            st.alias[t.id] = tmp.alias[t.id]
                        else:
                            st.alias.pop(t.id, None)
                    k = key_of(t)
                    if k in tmp.vals:
                        st.vals[k] = tmp.vals[k]
                return
            for t in target.elts:
                self._kill(t, st)
            return
        name = target.id if isinstance(target, ast.Name) else None
        tkey = key_of(target)
        aff = self.affine(value, st) if value is not None else None
        val = self.aeval(value, st) if value is not None else None
        # kill aliases of the overwritten name
        if name:
            st.alias.pop(name, None)
            for n2, (k, m, a) in list(st.alias.items()):
                if k == name:
                    st.alias.pop(n2)
        if tkey in st.vals:
            if aff and aff[0] == tkey:
                # self-update v = ±v + c
                s = st.vals[tkey]
                if aff[1] == -1:
                    s = s.neg()
                st.vals[tkey] = s.add(aff[2])
                # aliases of tkey are now stale
                for n2, (k, m, a) in list(st.alias.items()):
                    if k == tkey:
                        st.alias.pop(n2)
            else:
                st.vals[tkey] = val if val is not None else self.types.get(tkey, ISet.top())
                for n2, (k, m, a) in list(st.alias.items()):
                    if k == tkey:
                        st.alias.pop(n2)
            return
        if name and aff:
            st.alias[name] = aff
            return
        # assignment to an attribute/subscript that is a prefix of a tracked key invalidates it
        for k in list(st.vals):
            if k != tkey and (k.startswith(tkey + ".") or k.startswith(tkey + "[") or k == "len(%s)" % tkey):
                st.vals[k] = self.types.get(k, ISet.range(0, None) if k.startswith("len(") else ISet.top())

    def _kill(self, target, st):
        self._assign(target, None, st)

    def transfer(self, node, st):
        st = st.copy()
        a = node.ast
        if node.kind == "for" and a is not None:
            self._kill(a.target, st)
            return st
        if a is None or node.kind not in ("stmt", "with"):
            return st
        if self.effects:
            r = self.effects(a, st, self)
            if r:
                return st
        if isinstance(a, ast.Assign):
            for t in a.targets:
                self._assign(t, a.value, st)
        elif isinstance(a, ast.AnnAssign) and a.value is not None:
            self._assign(a.target, a.value, st)
        elif isinstance(a, ast.AugAssign):
            binop = ast.BinOp(left=_load(a.target), op=a.op, right=a.value)
            ast.copy_location(binop, a)
            self._assign(a.target, binop, st)
        elif isinstance(a, ast.With):
            for it in a.items:
                if it.optional_vars is not None:
                    self._kill(it.optional_vars, st)
        return st

    # -- fixpoint ---------------------------------------------------------------------------
    def _run(self):
        cfg = self.cfg
        init = State({k: v for k, v in self.track.items()})
        self.in_state = {cfg.entry: init}
        visits = {}
        work = [cfg.entry]
        unint = {}
        while work:
            nid = work.pop(0)
            st = self.in_state.get(nid)
            if st is None:
                continue
            node = cfg.nodes[nid]
            outs = {}
            if node.kind == "test":
                for truth in (True, False):
                    s2, ok = self.refine(node.ast, st, truth)
                    if not ok and self.mentions(node.ast, st):
                        mt = self._mod_test(node.ast, st)
                        if mt:
                            # a residue test does not refine an interval; it is kept as a side constraint for witnesses
                            self.mod_tests[nid] = mt
                        else:
                            unint[nid] = "test not interpreted: %s" % ast.unparse(node.ast)
                    elif ok and self.mentions(node.ast, st):
                        self.interpreted_tests.append(nid)
                    outs[truth] = s2
                outs["exc"] = st
            else:
                s2 = self.transfer(node, st)
                for _, label in cfg.succ[nid]:
                    outs[label] = s2 if label != "exc" else st
            for b, label in cfg.succ[nid]:
                s2 = outs.get(label)
                self.edge_state[(nid, b, label)] = s2
                if s2 is None:
                    continue
                old = self.in_state.get(b)
                if old is None:
                    new = s2
                else:
                    new = old.join(s2)
                    if new.same(old):
                        continue
                    visits[b] = visits.get(b, 0) + 1
                    if visits[b] > 12:
                        # widen changed keys
                        for k in new.vals:
                            if new.vals[k] != old.vals.get(k):
                                new.vals[k] = _widen(old.vals.get(k), new.vals[k])
                        if visits[b] > 40:
                            raise AnalysisError("interval fixpoint did not converge in %s" % self.fn.name)
                self.in_state[b] = new
                if b not in work:
                    work.append(b)
        self.uninterpreted = [(cfg.nodes[n], r) for n, r in sorted(unint.items())]
        self.interpreted_tests = sorted(set(self.interpreted_tests))

    # -- results ----------------------------------------------------------------------------
    def at(self, nid, key):
        st = self.in_state.get(nid)
        if st is None:
            return ISet.empty()
        return st.vals[key]

    def value_at(self, nid, expr):
        st = self.in_state.get(nid)
        if st is None:
            return ISet.empty()
        return self.aeval(expr, st)

    def reachable(self, nid):
        return nid in self.in_state

    def union_at(self, nids, key):
        acc = ISet.empty()
        for n in nids:
            acc = acc.union(self.at(n, key))
        return acc


def _load(t):
    import copy

    t2 = copy.deepcopy(t)
    for n in ast.walk(t2):
        if hasattr(n, "ctx"):
            n.ctx = ast.Load()
    return t2


def _widen(old, new):
    if old is None:
        return ISet.top()
    lo = new.min() if (old.min() is not None and new.min() is not None and new.min() >= old.min()) else None
    hi = new.max() if (old.max() is not None and new.max() is not None and new.max() <= old.max()) else None
    return ISet.range(lo, hi)


def _rel_hull(op, lo, hi):
    """{v : exists w in [lo,hi] with v op w}"""
    if op == "<":
        return ISet.range(None, None if hi is None else hi - 1)
    if op == "<=":
        return ISet.range(None, hi)
    if op == ">":
        return ISet.range(None if lo is None else lo + 1, None)
    if op == ">=":
        return ISet.range(lo, None)
    if op == "==":
        return ISet.range(lo, hi)
    if op == "!=":
        return ISet.top() if lo is None or hi is None or lo != hi else ISet.point(lo).complement()
    return None
