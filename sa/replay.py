"""python -m sa.replay <violation json>: re-run the single obligation a violation file came from, on the current tree."""
import json
import sys

from . import report
from .check import Ctx, run_property
from .loader import AnalysisError


def main(argv=None):
    argv = argv or sys.argv[1:]
    if not argv:
        print("usage: python -m sa.replay <path to /verif/out/<id>/<key>.json>")
        return 2
    with open(argv[0]) as f:
        v = json.load(f)
    prop, obl, key = v["property"], v["obligation"], v.get("key")
    try:
        ctx = Ctx()
        _, results = run_property(prop, ctx, only=[obl])
    except AnalysisError as e:
        print("ANALYSIS-ERROR property=%s %s" % (prop, e))
        return 2
    report.match_known(results, prop)
    hit = [r for r in results if r.status == "violation" and r.finding_key() == key]
    print("replay of %s (%s): %d result(s) for obligation %s on the current tree" % (argv[0], key, len(results), obl))
    for r in results:
        if r.status != "ok":
            print("  %s %s %s: %s" % (r.status.upper(), r.loc(), r.finding_key(), r.msg))
    if hit and not hit[0].known:
        print("VIOLATION property=%s replay=%s" % (prop, argv[0]))
        return 1
    if hit:
        print("KNOWN-FINDING: property=%s %s" % (prop, hit[0].known))
        return 0
    print("the recorded violation does not reproduce on the current tree")
    return 0


if __name__ == "__main__":
    sys.exit(main())
