"""Obligation results, known-findings matching, evidence files."""
import json
import os
import re
import time

VERIF = os.path.dirname(os.path.dirname(os.path.abspath(__file__)))
KNOWN_PATH = os.path.join(VERIF, "KNOWN_FINDINGS.json")


class Res:
    """Result of one rule instance."""

    def __init__(self, status, obl, kind, anchor, msg, file=None, line=None, key=None, detail=None, analysed=None):
        assert status in ("ok", "violation", "error")
        self.status = status
        self.obl = obl
        self.kind = kind
        self.anchor = anchor
        self.msg = msg
        self.file = file
        self.line = line
        self.key = key or ""
        self.detail = detail or {}
        self.analysed = analysed or {}
        self.known = None

    def finding_key(self):
        return "%s|%s|%s" % (self.obl, self.anchor, self.key)

    def loc(self):
        if self.file:
            return "%s:%s" % (self.file, self.line or "?")
        return self.anchor

    def as_dict(self):
        d = {"obligation": self.obl, "rule": self.kind, "anchor": self.anchor, "status": self.status,
             "where": self.loc(), "message": self.msg}
        if self.key:
            d["key"] = self.finding_key()
        if self.detail:
            d["detail"] = self.detail
        if self.known:
            d["known_finding"] = self.known
        return d


def load_known():
    if not os.path.exists(KNOWN_PATH):
        return {"findings": [], "fixed": []}
    with open(KNOWN_PATH) as f:
        return json.load(f)


def match_known(results, prop):
    """Mark violations listed in KNOWN_FINDINGS.json (exact finding key)."""
    known = {k["key"]: k for k in load_known().get("findings", []) if k.get("property") == prop}
    for r in results:
        if r.status == "violation" and r.finding_key() in known:
            r.known = known[r.finding_key()]["what"]
    return results


def safe_name(s):
    return re.sub(r"[^A-Za-z0-9_.-]+", "_", s)[:150]


def write_violation(prop, r):
    d = os.path.join(VERIF, "out", prop)
    os.makedirs(d, exist_ok=True)
    p = os.path.join(d, safe_name(r.finding_key()) + ".json")
    with open(p, "w") as f:
        json.dump({"property": prop, **r.as_dict()}, f, indent=1, default=str)
    return p


def write_evidence(prop, tier, seed, results, stats, wall, explanation, assumptions, selftest=None, exhaustive=False):
    ok = [r for r in results if r.status == "ok"]
    viol = [r for r in results if r.status == "violation" and not r.known]
    known = [r for r in results if r.status == "violation" and r.known]
    err = [r for r in results if r.status == "error"]
    samples = []
    seen_obl = set()
    for r in results:
        if r.obl in seen_obl and r.status == "ok":
            continue
        seen_obl.add(r.obl)
        samples.append(r.as_dict())
        if len(samples) >= 60:
            break
    distinct = len({(r.obl, r.anchor, r.key) for r in results if r.status != "error"})
    cov = {
        "explanation": explanation,
        "obligations": len(results),
        "discharged": len(ok),
        "known_findings": len(known),
        "violations": len(viol),
        "undecided": len(err),
        "evaluations": len(results),
        "distinct_nontrivial": distinct,
        "rule": "one evaluation = one rule instance (obligation x anchored construct) decided on the current working tree; "
                "distinct = distinct (obligation, anchor, instance key) whose anchored construct was found and analysed",
        "analysed": stats,
        "samples": samples,
        "exhaustive": bool(exhaustive),
        "trusted_base": ["python ast of the working tree", "oracle tables under /verif/spec", "CFG construction in sa/cfg.py"],
        "checker_cmd": "/venv/bin/python -m sa.check %s --tier %s" % (prop, tier),
    }
    if selftest is not None:
        cov["selftest"] = selftest
    ev = {
        "property_id": prop,
        "tier": tier,
        "seed": seed,
        "level": "other",
        "coverage": cov,
        "assumptions": assumptions,
        "wall_s": round(wall, 3),
        "violations": len(viol),
    }
    os.makedirs(os.path.join(VERIF, "evidence"), exist_ok=True)
    p = os.path.join(VERIF, "evidence", prop + ".json")
    tmp = p + ".tmp%d" % os.getpid()
    with open(tmp, "w") as f:
        json.dump(ev, f, indent=1, default=str)
    os.replace(tmp, p)
    return p
