"""Rule-library helpers shared by rules/Cxx.py: thin wrappers that turn the engines' answers into Res."""
import ast

from .cfg import cfg_of, returns_failure
from .dataflow import call_name, calls_in, dotted, expand, origins, rd_of
from .fold import Folder, Unknown, module_const
from .guard import (BAD_FALSE, BAD_TRUE, Guard, check_guard, find_guards, has_atoms, loop_iteration_guard,
                    nodes_where, rel_polarity, success_returns)
from .interval import ISet
from .loader import AnalysisError, decorators, param_names
from .ranges import Ranges, key_of


def fnspec(mod, fn):
    for qn, f in mod.functions.items():
        if f is fn:
            return "%s:%s" % (mod.name, qn)
    return "%s:%s" % (mod.name, fn.name)


def get(ctx, spec, repo=None):
    repo = repo or ctx.repo
    mod, fn = repo.func(spec)
    ctx.note_fn(mod, fn)
    return mod, fn


def nonfalse_returns(fn):
    """Return nodes whose value is not literally False/None."""
    return [n for n in cfg_of(fn).returns() if not returns_failure(n)]


def all_returns(fn):
    return cfg_of(fn).returns()


def accept_set(ctx, spec, keys, allowed, names=None, targets="nonfalse", init=None, prefer=(), repo=None, what=None,
               effects=None, callee_accept=None, exact=False):
    """RANGE accept-set: values of each tracked key with which a target is reachable ⊆ allowed.

    Sound direction: the computed set over-approximates the true accept set; a violation is reported
    only when every test mentioning the key was interpreted (otherwise: undecided)."""
    mod, fn = get(ctx, spec, repo)
    init = init or {}
    track = {k: init.get(k, ISet.top()) for k in keys}
    ra = Ranges(repo or ctx.repo, mod, fn, track, effects=effects, callee_accept=callee_accept)
    if targets == "nonfalse":
        tnodes = nonfalse_returns(fn)
    elif targets == "returns":
        tnodes = all_returns(fn)
    else:
        tnodes = targets(fn)
    if not tnodes:
        raise AnalysisError("%s has no success exit to protect" % spec)
    ctx.count("tests_interpreted", len(ra.interpreted_tests))
    out = []
    for k in keys:
        acc = ra.union_at([n.id for n in tnodes], k)
        label = what or k
        if acc.issubset(allowed):
            if exact and not ra.uninterpreted and not allowed.issubset(acc):
                # over-rejection: a value the property requires to be accepted never reaches a success exit
                lost = allowed.minus(acc)
                w = lost.witness(prefer)
                out.append(ctx.bad(spec, "%s = %s never reaches a success exit although it is valid; accept-set %s ≠ %s" % (
                    label, _fmt(w, names), acc.describe(names), allowed.describe(names)), fn, mod,
                    key="reject:%s" % k, detail={"witness_value": str(w), "accept_set": repr(acc), "allowed": repr(allowed)}))
                continue
            out.append(ctx.ok(spec, "accept-set of %s at %d success exit(s) = %s %s %s" % (
                label, len(tnodes), acc.describe(names), "=" if acc == allowed else "⊆", allowed.describe(names)), fn, mod, key=k))
            continue
        un = [u for u in ra.uninterpreted]
        if un:
            out.append(ctx.err(spec, "cannot decide accept-set of %s: %s (line %d)" % (label, un[0][1], un[0][0].lineno), fn, mod))
            continue
        # a table lookup keyed by the tracked quantity (`TABLE.get(len(x))`, `TABLE[len(x)]`) selects behaviour without any comparison
        # the interval analysis could interpret: the accept-set computed above ignores it, so nothing is concluded
        lookups = [x for x in ast.walk(fn) if (isinstance(x, ast.Call) and isinstance(x.func, ast.Attribute) and x.func.attr == "get" and x.args and ast.unparse(x.args[0]) == k)
                   or (isinstance(x, ast.Subscript) and ast.unparse(x.slice) == k and not isinstance(x.slice, ast.Constant))]
        if lookups:
            out.append(ctx.err(spec, "cannot decide accept-set of %s: it selects an entry of a table (`%s`), which the interval analysis does not interpret" % (
                label, ast.unparse(lookups[0])[:60]), lookups[0], mod))
            continue
        # the tracked value is handed to a function of the repository that can refuse it (it contains a raise) and that the analysis did not
        # look into (no callee summary): the accept-set above ignores that refusal, so nothing is concluded
        refusers = []
        if callee_accept is None:
            r_ = repo or ctx.repo
            for x in ast.walk(fn):
                if not isinstance(x, ast.Call) or not any(ast.unparse(a) == k for a in list(x.args) + [kw.value for kw in x.keywords]):
                    continue
                tgt = None
                if isinstance(x.func, ast.Name):
                    rn = r_.resolve_name(mod.name, x.func.id)
                    if rn and rn[1] in r_.modules[rn[0]].functions:
                        tgt = r_.modules[rn[0]].functions[rn[1]]
                elif isinstance(x.func, ast.Attribute) and isinstance(x.func.value, ast.Name) and x.func.value.id in ("self", "cls") and "." in spec.split(":")[1]:
                    rm = r_.resolve_method(mod.name, spec.split(":")[1].split(".")[0], x.func.attr)
                    if rm:
                        tgt = rm[1]
                if tgt is not None and any(isinstance(y, ast.Raise) for y in ast.walk(tgt)):
                    refusers.append(x)
        if refusers:
            out.append(ctx.err(spec, "cannot decide accept-set of %s: the value is handed to `%s`, which can refuse it and was not looked into" % (label, ast.unparse(refusers[0])[:60]),
                               refusers[0], mod))
            continue
        extra = acc.minus(allowed)
        w = _residue_witness(fn, ra, k, extra, tnodes, prefer)
        if w is None:
            out.append(ctx.ok(spec, "accept-set of %s = %s; the values outside %s are excluded by the residue tests on the path" % (
                label, acc.describe(names), allowed.describe(names)), fn, mod, key=k))
            continue
        # a concrete path for the witness: first target whose state admits it
        wn = next((n for n in tnodes if ra.at(n.id, k).contains(w)), tnodes[0])
        p = cfg_of(fn).path([cfg_of(fn).entry], [wn.id])
        out.append(ctx.bad(spec, "%s = %s reaches a success exit (line %d); accept-set %s ⊄ %s" % (
            label, _fmt(w, names), wn.lineno, acc.describe(names), allowed.describe(names)), wn.ast or fn, mod,
            key="accept:%s" % k, detail={"witness_value": str(w), "accept_set": repr(acc), "allowed": repr(allowed),
                                          "path": cfg_of(fn).fmt_path(p or [])}))
    return out


def _residue_witness(fn, ra, key, extra, tnodes, prefer):
    """A member of `extra` that also satisfies the residue tests (x % m == c) every path to a target must pass."""
    cfg = cfg_of(fn)
    cons = []
    tids = {n.id for n in tnodes}
    for nid, (k, mul, add, m, c, is_eq) in ra.mod_tests.items():
        if k != key:
            continue
        reach = {}
        for b, l in cfg.succ[nid]:
            if l in (True, False):
                reach[l] = bool(cfg.reach([b]) & tids)
        # is the test on every path to the targets?
        on_all = not (cfg.reach([cfg.entry], blocked={nid}) & tids)
        if on_all and reach.get(True) != reach.get(False):
            passing = True if reach.get(True) else False
            cons.append((mul, add, m, c, passing == is_eq))
    if not cons:
        return extra.witness(prefer)
    cands = [p for p in prefer if extra.contains(p)]
    for lo, hi in extra.iv:
        start = lo if lo is not None else (hi - 100000 if hi is not None else -50000)
        for v in range(start, start + 200000):
            if hi is not None and v > hi:
                break
            cands.append(v)
            if len(cands) > 400000:
                break
    for v in cands:
        if all((((mul * v + add) % m) == c) == want for mul, add, m, c, want in cons):
            return v
    return None


def _fmt(v, names):
    for nm, c in (names or {}).items():
        if isinstance(c, int) and isinstance(v, int) and abs(v - c) <= 2 and abs(c) > 255:
            return nm if v == c else "%s%+d" % (nm, v - c)
    if isinstance(v, int) and abs(v) > 1 << 40:
        return hex(v)
    return str(v)


def value_range(ctx, spec, find_site, allowed, track, names=None, prefer=(), repo=None, what="value", key="out"):
    """RANGE output: the abstract value of an expression at a site ⊆ allowed.
    find_site(mod, fn) -> [(cfg node, expr)]"""
    mod, fn = get(ctx, spec, repo)
    sites = find_site(mod, fn)
    if not sites:
        raise AnalysisError("%s: site for %s not found" % (spec, what))
    names_used = set()
    for _, e in sites:
        names_used |= {n.id for n in ast.walk(e) if isinstance(n, ast.Name)}
    tr = dict(track)
    for nm in names_used:
        tr.setdefault(nm, ISet.top())
    ra = Ranges(repo or ctx.repo, mod, fn, tr)
    ctx.count("tests_interpreted", len(ra.interpreted_tests))
    out = []
    for node, e in sites:
        if not ra.reachable(node.id):
            out.append(ctx.ok(spec, "%s site at line %d unreachable in the interval product" % (what, node.lineno), node.ast, mod, key=key))
            continue
        v = ra.value_at(node.id, e)
        if v is None:
            out.append(ctx.err(spec, "cannot evaluate %s `%s` abstractly" % (what, ast.unparse(e)), node.ast, mod))
            continue
        if v.issubset(allowed):
            out.append(ctx.ok(spec, "%s `%s` at line %d ∈ %s ⊆ %s" % (what, ast.unparse(e), node.lineno, v.describe(names), allowed.describe(names)),
                              node.ast, mod, key=key))
            continue
        # a test the interval domain did not understand widens the value at the site only if it lies on some path TO the site
        before = cfg_of(fn).back_reach([node.id])
        unint = [u for u in ra.uninterpreted if u[0].id in before]
        if unint:
            u = unint[0]
            out.append(ctx.err(spec, "cannot decide range of %s: %s (line %d)" % (what, u[1], u[0].lineno), node.ast, mod))
            continue
        w = v.minus(allowed).witness(prefer)
        out.append(ctx.bad(spec, "%s `%s` at line %d can be %s; range %s ⊄ %s" % (
            what, ast.unparse(e), node.lineno, _fmt(w, names), v.describe(names), allowed.describe(names)), node.ast, mod,
            key="range:%s" % key, detail={"witness_value": str(w), "range": repr(v), "allowed": repr(allowed)}))
    return out


def guard(ctx, spec, match, targets="returns", fail="raise", what="check", key=None, repo=None, sources=None, want_min=1, exempt=None):
    """GUARD: every path to a target passes a check accepted by `match`."""
    mod, fn = get(ctx, spec, repo)
    cfg = cfg_of(fn)
    if targets == "returns":
        tn = [n.id for n in success_returns(cfg, fail)]
    elif targets == "nonfalse":
        tn = [n.id for n in nonfalse_returns(fn)]
    else:
        tn = [n.id for n in targets(mod, fn)]
    gs = find_guards(mod, fn, match)
    ctx.count("paths", 1)
    ex = exempt(mod, fn) if exempt else ()
    ok, msg, wit = check_guard(mod, fn, gs, tn, fail=fail, sources=sources, exempt_edges=ex)
    if ok:
        return ctx.ok(spec, "%s: %s (lines %s)" % (what, msg, ",".join(str(g.node.lineno) for g in gs)), fn, mod, key=key or what)
    node = gs[0].node.ast if gs else fn
    return ctx.bad(spec, "%s: %s; path: %s" % (what, msg, wit), node if gs else fn, mod, key=key or what, detail={"path": wit})


def const_eq(ctx, modname, name, expected, cite, repo=None, obl_key=None):
    repo = repo or ctx.repo
    v = module_const(repo, modname, name)
    m = repo.module(modname)
    ctx.count("table_entries")
    node = m.constants.get(name)
    if v is Unknown:
        return ctx.err("%s:%s" % (m.name, name), "constant not foldable", node, m)
    if v == expected and type(v) == type(expected):
        return ctx.ok("%s:%s" % (m.name, name), "%s equals %s" % (name, cite), node, m, key=obl_key or name)
    return ctx.bad("%s:%s" % (m.name, name), "%s = %s differs from %s (%s)" % (name, _short(v), _short(expected), cite), node, m,
                   key="const:%s" % name, detail={"found": _short(v), "expected": _short(expected)})


def _short(v):
    s = hex(v) if isinstance(v, int) and abs(v) > 1 << 32 else repr(v)
    return s if len(s) < 200 else s[:200] + "…"


def self_param(fn):
    ps = param_names(fn)
    return ps[0] if ps else None


def is_classmethod(fn):
    return "classmethod" in decorators(fn)


def find_calls(fn, name):
    """[(cfg node, Call)] for calls to `name` (function or method name) in fn."""
    cfg = cfg_of(fn)
    out = []
    for n in cfg.nodes:
        if n.ast is None or n.kind in ("join",):
            continue
        root = n.ast
        if n.kind == "for":
            root = n.ast.iter
        elif n.kind == "with":
            root = ast.Module(body=[ast.Expr(it.context_expr) for it in n.ast.items], type_ignores=[])
        elif isinstance(root, (ast.FunctionDef, ast.ClassDef)):
            continue
        for c in calls_in(root, name):
            out.append((n, c))
    return out


_REL = {ast.Lt: "<", ast.LtE: "<=", ast.Gt: ">", ast.GtE: ">=", ast.Eq: "==", ast.NotEq: "!="}
_REL_FLIP = {"<": ">", "<=": ">=", ">": "<", ">=": "<=", "==": "==", "!=": "!="}


def rel(t, a, b):
    """Orientation-independent reading of a single comparison: the relation symbol of `A ? B` when one operand satisfies
    `a` and the other `b` (each a text or a predicate on the operand node), else None.  `b > a` reads as ('<')."""
    if not (isinstance(t, ast.Compare) and len(t.ops) == 1 and type(t.ops[0]) in _REL):
        return None

    def sat(p, e):
        return p(e) if callable(p) else ast.unparse(e) == p
    l, r = t.left, t.comparators[0]
    op = _REL[type(t.ops[0])]
    if sat(a, l) and sat(b, r):
        return op
    if sat(a, r) and sat(b, l):
        return _REL_FLIP[op]
    return None


def rel_x(fn, node, a, b, depth=1):
    """like rel(), after replacing operands that are plain locals by their (unique) reaching definition"""
    t = node.ast
    if not (isinstance(t, ast.Compare) and len(t.ops) == 1):
        return None
    r = rel(t, a, b)
    if r is not None:
        return r
    l = expand(fn, node.id, t.left, depth=depth) if isinstance(t.left, ast.Name) else t.left
    c = expand(fn, node.id, t.comparators[0], depth=depth) if isinstance(t.comparators[0], ast.Name) else t.comparators[0]
    return rel(ast.Compare(left=l, ops=t.ops, comparators=[c]), a, b)


def defer(ctx, out, cells, note):
    """A structural rule whose clause is also decided by whole-function evaluation (a CELLS rule) gives way to it: when the cells were all
    evaluated and all hold, every non-ok result of the structural reading (a form it does not recognise, or a guard / layout it could not find in
    the place it looks) is replaced by an ok result that names the cells.  When a cell fails or cannot be evaluated the structural results stand."""
    if all(r.status == "ok" for r in out):
        return out
    try:
        cells = list(cells() if callable(cells) else cells)
    except Exception:  # the cells could not be evaluated: the structural results stand
        return out
    if not cells or any(r is None or r.status != "ok" for r in cells):
        return out
    for r in out:
        if r.status == "violation" and "witness_value" in (r.detail or {}):
            continue   # an interval / accept-set violation names a value and a path: a positive reason the finite cells cannot overrule
        if r.status != "ok":
            r.detail = dict(r.detail or {}, structural_reading=r.msg[:300])
            r.status, r.msg = "ok", note
    return out


def deferring(struct_fn, cells_fn, spec, note, n_err=1):
    """wrap a structural rule so that it gives way to the whole-function cells `cells_fn(ctx)` (see defer); an AnalysisError of the structural
    reading ("form not recognised") is an undecided result that the cells may decide"""
    from .loader import AnalysisError

    def rule(ctx):
        try:
            out = list(struct_fn(ctx))
        except AnalysisError as e:
            mod, fn = get(ctx, spec)
            out = [ctx.err(spec, str(e), fn, mod) for _ in range(n_err)]
        return defer(ctx, out, lambda: cells_fn(ctx), note)
    rule.__doc__ = struct_fn.__doc__
    rule.__name__ = struct_fn.__name__
    return rule
