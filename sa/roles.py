"""Role-based canonical names for local variables.

Several rules describe what a function computes in terms of its local variables (`tx_in`, `script_pubkey`, `leaves`).
How a local is *spelled* is not behaviour, so the front end renames locals to canonical names chosen by what they are
bound to, before any rule looks at the function:

    ("tx_in", "loop", r"^self\\.tx_ins$")            the variable of a for-loop / comprehension over that iterable
    ("i", "loopidx", r"^self\\.tx_ins$")             the index variable of `for i, x in enumerate(<iterable>)`
    ("script_pubkey", "assign", r"\\.script_pubkey\\(")  the local whose assigned value matches the regex
    ("h", "assign1", r"...")                         same, but only the first assignment of the local is inspected

Patterns are matched (re.search) against ast.unparse of the iterable / assigned value *after* the earlier roles of the
same function have been applied, so a later pattern may mention an earlier canonical name.  A role that matches no
local or more than one local is left alone (the rule that needs it then reports the construct as not recognised —
exit 2 — instead of guessing).  Parameters are never renamed.
"""
import ast
import re


def _params(fn):
    a = fn.args
    ps = {x.arg for x in a.posonlyargs + a.args + a.kwonlyargs}
    if a.vararg:
        ps.add(a.vararg.arg)
    if a.kwarg:
        ps.add(a.kwarg.arg)
    return ps


def _names(t):
    return [n.id for n in ast.walk(t) if isinstance(n, ast.Name)]


def _strip_iter(it):
    """enumerate(X) -> (X, True); sorted(X)/list(X)/reversed(X) keep their text"""
    if isinstance(it, ast.Call) and isinstance(it.func, ast.Name) and it.func.id == "enumerate" and it.args:
        return it.args[0], True
    return it, False


def _candidates(fn, kind, rx):
    out = []
    for n in ast.walk(fn):
        if kind in ("loop", "loopidx"):
            pairs = []
            if isinstance(n, (ast.For, ast.AsyncFor)):
                pairs.append((n.target, n.iter))
            elif isinstance(n, (ast.ListComp, ast.SetComp, ast.GeneratorExp, ast.DictComp)):
                for g in n.generators:
                    pairs.append((g.target, g.iter))
            for tgt, it in pairs:
                base, enum = _strip_iter(it)
                if not rx.search(ast.unparse(base)):
                    continue
                if enum and isinstance(tgt, ast.Tuple) and len(tgt.elts) == 2:
                    pick = tgt.elts[0] if kind == "loopidx" else tgt.elts[1]
                elif kind == "loop" and not enum:
                    pick = tgt
                else:
                    continue
                if isinstance(pick, ast.Name):
                    out.append(pick.id)
        elif kind in ("assign", "assign1"):
            if isinstance(n, ast.Assign) and len(n.targets) == 1 and isinstance(n.targets[0], ast.Name):
                if rx.search(ast.unparse(n.value)):
                    out.append((n.targets[0].id, n.lineno))
            elif isinstance(n, ast.AnnAssign) and isinstance(n.target, ast.Name) and n.value is not None:
                if rx.search(ast.unparse(n.value)):
                    out.append((n.target.id, n.lineno))
    if kind == "assign1":
        first = {}
        for m in ast.walk(fn):
            if isinstance(m, ast.Assign) and len(m.targets) == 1 and isinstance(m.targets[0], ast.Name):
                first.setdefault(m.targets[0].id, m.lineno)
                first[m.targets[0].id] = min(first[m.targets[0].id], m.lineno)
        out = [nm for nm, ln in out if first.get(nm) == ln]
    elif kind == "assign":
        out = [nm for nm, ln in out]
    return sorted(set(out))


class _Ren(ast.NodeTransformer):
    def __init__(self, mp):
        self.mp = mp

    def visit_Name(self, n):
        if n.id in self.mp:
            return ast.copy_location(ast.Name(id=self.mp[n.id], ctx=n.ctx), n)
        return n


def apply_roles(fn, roles):
    """Rename locals of `fn` in place; returns {canonical: original} for the roles that were resolved."""
    params = _params(fn)
    done = {}
    for role in roles:
        canon, kind, pat = role[0], role[1], role[2]
        rx = re.compile(pat)
        cands = [c for c in _candidates(fn, kind, rx) if c not in params]
        if len(cands) != 1:
            continue
        old = cands[0]
        if old == canon:
            done[canon] = old
            continue
        used = set(_names(fn))
        mp = {old: canon}
        if canon in used or canon in params:
            if canon in params:
                continue
            # the canonical spelling is taken by another local: move that one out of the way
            k = 1
            while "%s_%d" % (canon, k) in used:
                k += 1
            mp[canon] = "%s_%d" % (canon, k)
        r = _Ren(mp)
        for i, s in enumerate(fn.body):
            fn.body[i] = r.visit(s)
        done[canon] = old
    return done


# ---------------------------------------------------------------------------------------------------
# Automatic canonical names: locals are identified by the (spelling-independent) list of their binding sites and
# renamed to the spelling they have in the reference tree (spec/local_names.json, generated by
# tools/gen_localnames.py from the tree the rules were confirmed on).  This is alpha-conversion: it cannot change
# what a function does, so a wrong or missing hint can only leave a local with its own spelling.


class _Alpha(ast.NodeTransformer):
    def __init__(self, locals_):
        self.locals = locals_

    def visit_Name(self, n):
        if n.id in self.locals:
            return ast.copy_location(ast.Name(id="§", ctx=ast.Load()), n)
        return n

    def visit_JoinedStr(self, n):
        # ast.unparse spells f-strings differently in Python 3.11 and 3.12 (PEP 701 quoting): the signature text must not
        # depend on the interpreter, so an f-string is written as a call of its parts
        self.generic_visit(n)
        parts = []
        for v in n.values:
            if isinstance(v, ast.FormattedValue):
                parts.append(v.value)
            else:
                parts.append(v)
        return ast.copy_location(ast.Call(func=ast.Name(id="__fstr__", ctx=ast.Load()), args=parts, keywords=[]), n)


def _alpha_text(e, locals_):
    import copy

    return ast.unparse(_Alpha(locals_).visit(copy.deepcopy(e)))


def _local_names(fn):
    params = _params(fn)
    out = set()
    declared = set()
    for n in ast.walk(fn):
        if isinstance(n, ast.Name) and isinstance(n.ctx, (ast.Store, ast.Del)):
            out.add(n.id)
        elif isinstance(n, (ast.Global, ast.Nonlocal)):
            declared |= set(n.names)
        elif isinstance(n, (ast.FunctionDef, ast.AsyncFunctionDef, ast.ClassDef)) and n is not fn:
            declared.add(n.name)
        elif isinstance(n, ast.ExceptHandler) and n.name:
            declared.add(n.name)
    return out - params - declared


class _Sites(ast.NodeVisitor):
    """binding sites in source order: name -> [site text]"""

    def __init__(self, fn):
        self.locals = _local_names(fn)
        self.sites = {}
        self.order = []
        self.top = fn

    def _add(self, name, site):
        if name not in self.locals:
            return
        if name not in self.sites:
            self.sites[name] = []
            self.order.append(name)
        self.sites[name].append(site)

    def _targets(self, tgt, kind, text):
        names = [n for n in ast.walk(tgt) if isinstance(n, ast.Name)] if not isinstance(tgt, ast.Name) else [tgt]
        if isinstance(tgt, ast.Name):
            self._add(tgt.id, "%s %s" % (kind, text))
        elif isinstance(tgt, (ast.Tuple, ast.List)):
            flat = [e for e in tgt.elts]
            for i, e in enumerate(flat):
                if isinstance(e, ast.Name):
                    self._add(e.id, "%s[%d/%d] %s" % (kind, i, len(flat), text))
                elif isinstance(e, (ast.Tuple, ast.List, ast.Starred)):
                    for j, m in enumerate(x for x in ast.walk(e) if isinstance(x, ast.Name)):
                        self._add(m.id, "%s[%d.%d/%d] %s" % (kind, i, j, len(flat), text))

    def visit_Assign(self, n):
        txt = _alpha_text(n.value, self.locals)
        for t in n.targets:
            self._targets(t, "A", txt)
        self.generic_visit(n)

    def visit_AnnAssign(self, n):
        if n.value is not None:
            self._targets(n.target, "A", _alpha_text(n.value, self.locals))
        self.generic_visit(n)

    def visit_AugAssign(self, n):
        self._targets(n.target, "U" + type(n.op).__name__, _alpha_text(n.value, self.locals))
        self.generic_visit(n)

    def visit_For(self, n):
        self._targets(n.target, "L", _alpha_text(n.iter, self.locals))
        self.generic_visit(n)

    def visit_comprehension(self, n):
        self._targets(n.target, "C", _alpha_text(n.iter, self.locals))
        self.generic_visit(n)

    def visit_With(self, n):
        for it in n.items:
            if it.optional_vars is not None:
                self._targets(it.optional_vars, "W", _alpha_text(it.context_expr, self.locals))
        self.generic_visit(n)

    def visit_NamedExpr(self, n):
        self._targets(n.target, "N", _alpha_text(n.value, self.locals))
        self.generic_visit(n)

    def visit_FunctionDef(self, n):
        if n is self.top:
            self.generic_visit(n)
        # nested defs: their own locals are not ours

    visit_AsyncFunctionDef = visit_FunctionDef

    def visit_Lambda(self, n):
        self.generic_visit(n)


def local_signatures(fn):
    """[(name, signature, ordinal)] in order of first binding; signature is independent of how locals are spelled"""
    v = _Sites(fn)
    v.visit(fn)
    seen = {}
    out = []
    for name in v.order:
        sig = " | ".join(v.sites[name])
        k = seen.get(sig, 0)
        seen[sig] = k + 1
        out.append((name, sig, k))
    return out


def apply_reference(fn, ref):
    """ref: [[name, signature, ordinal], ...] of the same function in the reference tree.  Renames (in place) every
    local whose (signature, ordinal) equals a reference entry with another spelling.  Returns {new: old}."""
    cur = local_signatures(fn)
    by_sig_ref, by_sig_cur = {}, {}
    for name, sig, k in ref:
        by_sig_ref.setdefault(sig, []).append(name)
    for name, sig, k in cur:
        by_sig_cur.setdefault(sig, []).append(name)
    mp = {}
    for sig, cnames in by_sig_cur.items():
        rnames = by_sig_ref.get(sig, [])
        # locals that already carry a reference spelling of this signature stay; the others are matched in order
        left_cur = [c for c in cnames if c not in rnames]
        left_ref = [r for r in rnames if r not in cnames]
        for c, r in zip(left_cur, left_ref):
            mp[c] = r
    if not mp:
        return {}
    params = _params(fn)
    all_names = set(_names(fn))
    locals_ = _local_names(fn)
    # drop renames whose target is taken by a name that stays
    changed = True
    while changed:
        changed = False
        staying = (all_names - set(mp)) | params
        for old, new in list(mp.items()):
            if new in staying or list(mp.values()).count(new) > 1:
                del mp[old]
                changed = True
    if not mp:
        return {}
    r = _Ren(mp)
    for i, s in enumerate(fn.body):
        fn.body[i] = r.visit(s)
    return {v: k for k, v in mp.items()}
