"""ERROR-SENTINEL: `X.find(c)` answers -1 for "not there"; a result that is used as a digit / index / offset without ever being told
apart from -1 turns an illegal symbol into a legal value (`58 * num + ALPHABET.find(c)` accepts any character as the digit -1).
Accepted forms, enumerated from the reference tree: the result (or the variable it is stored in) is compared with -1 or 0 in the same
function, or the same function tests membership in the same alphabet (`c in X`, `all(x in X for ...)`)."""
import ast


def is_sentinel(e):
    return (isinstance(e, ast.UnaryOp) and isinstance(e.op, ast.USub) and isinstance(e.operand, ast.Constant) and e.operand.value == 1) or \
           (isinstance(e, ast.Constant) and e.value in (0, -1) and not isinstance(e.value, bool))


def sentinel_sites(mod):
    """-> (find calls inspected, [(qualname, call)])"""
    hits, n = [], 0
    for qn, fn in mod.functions.items():
        calls = [c for c in ast.walk(fn) if isinstance(c, ast.Call) and isinstance(c.func, ast.Attribute) and c.func.attr in ("find", "rfind") and len(c.args) >= 1]
        if not calls:
            continue
        parents = {}
        for x in ast.walk(fn):
            for ch in ast.iter_child_nodes(x):
                parents[ch] = x
        compares = [x for x in ast.walk(fn) if isinstance(x, ast.Compare)]
        for c in calls:
            n += 1
            alpha = ast.unparse(c.func.value)
            # membership in the same alphabet tested somewhere in the function
            if any(any(isinstance(o, (ast.In, ast.NotIn)) for o in x.ops) and any(ast.unparse(k) == alpha for k in x.comparators) for x in compares):
                continue
            # the result, or the name it is assigned to, compared with -1 / 0
            names = set()
            p = parents.get(c)
            if isinstance(p, ast.Assign):
                names |= {t.id for t in p.targets if isinstance(t, ast.Name)}
            elif isinstance(p, ast.NamedExpr) and isinstance(p.target, ast.Name):
                names.add(p.target.id)

            checked = False
            # `values = [X.find(c) for c in s]` ... `if -1 in values: raise`: the sentinel is looked for in the collected results
            holder = p
            while holder is not None and not isinstance(holder, (ast.Assign, ast.stmt)):
                holder = parents.get(holder)
            coll = {t.id for t in holder.targets if isinstance(t, ast.Name)} if isinstance(holder, ast.Assign) else set()
            if isinstance(p, ast.Call) and isinstance(p.func, ast.Attribute) and p.func.attr in ("append", "add") and isinstance(p.func.value, ast.Name) and c in p.args:
                coll.add(p.func.value.id)  # the accumulator loop a comprehension is read as
            for x in compares:
                if any(isinstance(o, (ast.In, ast.NotIn)) for o in x.ops) and is_sentinel(x.left) and any(isinstance(k, ast.Name) and k.id in coll for k in x.comparators):
                    checked = True
            for x in compares:
                sides = [x.left] + list(x.comparators)
                if any(is_sentinel(s) for s in sides) and any(s is c or (isinstance(s, ast.Name) and s.id in names) for s in sides):
                    checked = True
            if not checked:
                hits.append((qn, c))
    return n, hits


def sentinel_obligation(ctx, modnames, what):
    out, total = [], 0
    for mn in modnames:
        mod = ctx.repo.module(mn)
        n, hits = sentinel_sites(mod)
        total += n
        for qn, c in hits:
            out.append(ctx.bad("%s:%s" % (mn, qn), "`%s` is used without being told apart from -1 (and no membership test on `%s` in the function): a symbol outside the alphabet counts as "
                                                   "the value -1 instead of being refused (%s)" % (ast.unparse(c), ast.unparse(c.func.value), what), c, mod, key="find-sentinel:" + qn))
    if not out:
        out.append(ctx.ok("+".join(modnames) + ":*", "every find() result is compared with -1 or guarded by a membership test (%d calls)" % total, key="find-sentinel"))
    return out


# ----------------------------------------------------------------------------------------------------------------------------------
# STRIP-SET: `s.rstrip("/0/*")` removes every trailing character that is in the *set* {/, 0, *}, not the suffix "/0/*": it keeps eating into
# the text in front (an xpub that ends in a digit of the account index loses it).  Flagged: strip / lstrip / rstrip whose argument is an
# f-string, or a constant with two or more different non-blank characters.  The reference tree strips single characters only.

# instances of the reference tree confirmed by reading: (module, function, argument) -> why the set reading and the suffix reading agree there
CONFIRMED_STRIPS = {
    ("psbt", "__class__.__name__", "ScriptPubKey"): "applied to the class names P2PKHScriptPubKey / P2SHScriptPubKey / P2WPKHScriptPubKey / P2WSHScriptPubKey / "
                                                                       "P2TRScriptPubKey only: the remaining prefixes end in H or R, which are not in the set; display label",
}


def strip_set_sites(mod):
    hits, n = [], 0
    for qn, fn in mod.functions.items():
        for c in ast.walk(fn):
            if isinstance(c, ast.Call) and isinstance(c.func, ast.Attribute) and c.func.attr in ("strip", "lstrip", "rstrip") and len(c.args) == 1 \
                    and isinstance(c.args[0], ast.Constant) and any(m_ == mod.name and ast.unparse(c.func.value).endswith(r_) and a_ == c.args[0].value for m_, r_, a_ in CONFIRMED_STRIPS):
                n += 1
                continue
            if isinstance(c, ast.Call) and isinstance(c.func, ast.Attribute) and c.func.attr in ("strip", "lstrip", "rstrip") and len(c.args) == 1:
                n += 1
                a = c.args[0]
                if isinstance(a, ast.JoinedStr) and (len(a.values) > 1 or any(isinstance(v, ast.FormattedValue) for v in a.values)):
                    hits.append((qn, c, "an f-string"))
                elif isinstance(a, ast.Constant) and isinstance(a.value, (str, bytes)):
                    chars = set(a.value if isinstance(a.value, str) else a.value.decode("latin-1"))
                    if len({ch for ch in chars if not ch.isspace()}) >= 2 and len(a.value) == len(chars):
                        hits.append((qn, c, "the %d-character text %r" % (len(a.value), a.value)))
    return n, hits


def strip_set_obligation(ctx, modnames, what):
    out, total = [], 0
    for mn in modnames:
        mod = ctx.repo.module(mn)
        n, hits = strip_set_sites(mod)
        total += n
        for qn, c, desc in hits:
            out.append(ctx.bad("%s:%s" % (mn, qn), "`%s` strips with %s: strip() removes any run of those *characters*, not that suffix / prefix, so it also eats characters of the "
                                                   "text next to it that happen to be in the set (%s)" % (ast.unparse(c)[:70], desc, what), c, mod, key="strip-set:" + qn))
    if not out:
        out.append(ctx.ok("+".join(modnames) + ":*", "strip() is only used with single characters or blanks (%d calls with an argument)" % total, key="strip-set"))
    return out
