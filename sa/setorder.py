"""SET-ORDER: a sequence that is handed out, serialised or indexed must not take its order from the iteration order of a set.

The iteration order of a Python set depends on the hash seed of the process (for str / bytes elements) and on insertion history:
`list(set(xs))`, `[f(x) for x in some_set]`, `b"".join(... for x in some_set)`, or a loop over a set that appends / concatenates /
yields, produce a different order from run to run.  Consumers that do not care about order (sorted, len, membership, min, max, sum,
all, any, another set) are fine.  Shared necessary condition for every clause of the form "the same inputs give the same bytes /
the same list"; expected count on the reference tree: zero."""
import ast

from .dataflow import call_name

_ORDER_FREE = {"sorted", "len", "min", "max", "sum", "all", "any", "set", "frozenset", "bool"}


def _set_valued(e, set_names):
    if isinstance(e, (ast.Set, ast.SetComp)):
        return True
    if isinstance(e, ast.Call) and isinstance(e.func, ast.Name) and e.func.id in ("set", "frozenset"):
        return True
    if isinstance(e, ast.Name) and e.id in set_names:
        return True
    if isinstance(e, ast.BinOp) and isinstance(e.op, (ast.BitOr, ast.BitAnd, ast.Sub, ast.BitXor)) and (_set_valued(e.left, set_names) or _set_valued(e.right, set_names)):
        return True
    if isinstance(e, ast.Call) and isinstance(e.func, ast.Attribute) and e.func.attr in ("union", "intersection", "difference", "symmetric_difference") \
            and _set_valued(e.func.value, set_names):
        return True
    return False


def _set_locals(fn):
    """local names every assignment of which is set-valued"""
    vals = {}
    for st in ast.walk(fn):
        if isinstance(st, ast.Assign) and len(st.targets) == 1 and isinstance(st.targets[0], ast.Name):
            vals.setdefault(st.targets[0].id, []).append(st.value)
        elif isinstance(st, (ast.AugAssign, ast.AnnAssign)) and isinstance(st.target, ast.Name):
            vals.setdefault(st.target.id, []).append(None)
        elif isinstance(st, (ast.For, ast.comprehension)):
            for x in ast.walk(st.target):
                if isinstance(x, ast.Name):
                    vals.setdefault(x.id, []).append(None)
    names = set()
    for _ in range(3):
        for k, vs in vals.items():
            if vs and all(v is not None and _set_valued(v, names) for v in vs):
                names.add(k)
    args = {a.arg for a in fn.args.args + fn.args.kwonlyargs + fn.args.posonlyargs}
    return names - args


def order_from_sets(ctx, modname):
    """-> (functions inspected, [(module, function, node, description)])"""
    mod = ctx.repo.module(modname)
    hits, looked = [], 0
    for qn, fn in mod.functions.items():
        looked += 1
        sets = _set_locals(fn)
        parents = {}
        for n in ast.walk(fn):
            for c in ast.iter_child_nodes(n):
                parents[c] = n

        def order_free(node):
            p = parents.get(node)
            while isinstance(p, (ast.GeneratorExp, ast.ListComp, ast.comprehension, ast.Starred)):
                node, p = p, parents.get(p)
            if isinstance(p, ast.Call) and isinstance(p.func, ast.Name) and p.func.id in _ORDER_FREE and node in p.args:
                return True
            if isinstance(p, ast.Compare) and any(isinstance(o, (ast.In, ast.NotIn)) for o in p.ops):
                return True
            return False
        for n in ast.walk(fn):
            if isinstance(n, ast.Call) and isinstance(n.func, ast.Name) and n.func.id in ("list", "tuple") and len(n.args) == 1 and _set_valued(n.args[0], sets):
                if not order_free(n):
                    hits.append((mod, fn, n, "`%s` lists the elements of a set in the set's iteration order" % ast.unparse(n)[:60]))
            elif isinstance(n, (ast.ListComp, ast.GeneratorExp)) and any(_set_valued(g.iter, sets) for g in n.generators):
                if isinstance(n, ast.GeneratorExp) and order_free(n):
                    continue
                if isinstance(n, ast.ListComp) and order_free(n):
                    continue
                p = parents.get(n)
                # a generator consumed by an order-sensitive consumer: join / list / tuple / bytes / a constructor
                hits.append((mod, fn, n, "`%s` takes its order from a set" % ast.unparse(n)[:70]))
            elif isinstance(n, ast.For) and _set_valued(n.iter, sets):
                sens = None
                for x in ast.walk(n):
                    if isinstance(x, ast.Call) and isinstance(x.func, ast.Attribute) and x.func.attr in ("append", "extend", "insert", "write"):
                        sens = x
                    elif isinstance(x, (ast.Yield, ast.YieldFrom)):
                        sens = x
                    elif isinstance(x, ast.AugAssign) and isinstance(x.op, ast.Add) and not isinstance(x.value, ast.Constant):
                        sens = x
                if sens is not None:
                    hits.append((mod, fn, n, "the loop `for %s in %s` runs in the set's iteration order and builds an ordered result (`%s`)" % (
                        ast.unparse(n.target), ast.unparse(n.iter)[:40], ast.unparse(sens)[:40])))
    return looked, hits


def setorder_obligation(ctx, modnames, what):
    out = []
    looked = 0
    for mn in modnames:
        a, hits = order_from_sets(ctx, mn)
        looked += a
        for mod, fn, n, desc in hits:
            out.append(ctx.bad("%s:%s" % (mn, fn.name), "%s: the order differs between runs (string / bytes hashing is seeded per process) and with insertion history (%s)" % (desc, what),
                               n, mod, key="set-order:" + fn.name))
    if not out:
        out.append(ctx.ok("+".join(modnames) + ":*", "no ordered result takes its order from a set (%d functions inspected)" % looked, key="set-order"))
    return out
