"""Repository-wide necessary conditions applied to every module a property is anchored in.

Each of these rule kinds was first written for one property (after a seeded change showed the family) and has an expected count of
zero on the reference tree; they are necessary conditions of *every* clause of the form "the result depends only on the arguments /
on the object's current state", so every property runs them over its own anchor modules:

FALSY-DEFAULT    a parameter replaced by a truthy default through its truth value (0, b"", "" are legal arguments)   sa/falsy.py
MUTABLE-DEFAULT  a default argument evaluated once and stored / mutated                                                sa/mutdefault.py
IDENTITY         equality of values decided by object identity                                                          sa/identity.py
ALIAS            two names bound to one mutable object that are then used as separate stores                           sa/alias.py
CTOR-FORWARD     an alternative constructor that does not hand one of its parameters on                                 sa/forward.py
SAME-NAME-FORWARD a parameter handed on to a callee's parameter of the same name wrapped in strip / lower / replace …:
                 normalised on one side of a pair only                                                                   sa/forward.py
ERROR-SENTINEL   a find() result used as a value without being told apart from -1                                       sa/sentinel.py
GENERATOR-ONCE   a generator expression that is kept (attribute, constructor argument, returned) instead of consumed      sa/genonce.py
LOOP-LEFTOVER    a table filled from a loop's per-iteration values after the loop has ended (a dedented line)              sa/loopvar.py
STRIP-SET        strip / lstrip / rstrip given a multi-character text as if it were a suffix / prefix                      sa/sentinel.py
"""
from .alias import alias_obligation
from .falsy import falsy_default_obligation
from .genonce import generator_obligation
from .forward import forward_obligation, same_name_obligation
from .loopvar import leftover_obligation
from .identity import identity_obligation
from .mutdefault import mutable_default_obligation
from .sentinel import sentinel_obligation, strip_set_obligation

KINDS = (("FALSY-DEFAULT", falsy_default_obligation), ("MUTABLE-DEFAULT", mutable_default_obligation), ("IDENTITY", identity_obligation),
         ("ALIAS", alias_obligation), ("CTOR-FORWARD", forward_obligation), ("SAME-NAME-FORWARD", same_name_obligation),
         ("ERROR-SENTINEL", sentinel_obligation), ("STRIP-SET", strip_set_obligation),
         ("GENERATOR-ONCE", generator_obligation), ("LOOP-LEFTOVER", leftover_obligation))


def shared_obligations(ctx, modnames, what):
    out = []
    for kind, f in KINDS:
        rs = f(ctx, modnames, what)
        bad = [r for r in rs if r.status != "ok"]
        out += bad if bad else rs[:1]
    return out
