"""STACKFX: abstract interpretation of opcode handlers over a symbolic stack (Forth / JVM-verifier style).

Initial stack: [... x8 x7 ... x2 x1] with x1 on top.  The interpreter understands exactly the list
operations the handlers use; anything else raises AnalysisError (undecided, never a violation).

Result of `summarise(fn)`: Effect(depth, outcomes) where each outcome is
(path condition list, final main stack delta, final alt stack delta, returns) and values are expression trees:
  ("slot", i) ("dec", v) ("enc", e) ("const", c) ("add", a, b) ("sub", a, b) ("neg", a) ("abs", a) ("min", a, b) ("max", a, b)
  ("cmp", op, a, b) ("and", a, b) ("or", a, b) ("not", a) ("bool", cond) ("hash", name, v) ("len", v) ("depth",) ("eq", a, b)
"""
import ast

from .loader import AnalysisError

K = 8  # symbolic slots below which the stack is opaque


class Stack:
    def __init__(self, items=None, base="S"):
        self.items = list(items) if items is not None else [("slot", i) for i in range(K, 0, -1)]
        self.base = base
        self.popped_below = 0

    def copy(self):
        s = Stack(self.items, self.base)
        s.popped_below = self.popped_below
        return s

    def pop(self, idx=-1):
        if idx >= 0:
            raise AnalysisError("pop(%d) from the bottom is not modelled" % idx)
        if -idx > len(self.items):
            raise AnalysisError("stack access below the modelled window")
        return self.items.pop(idx)

    def get(self, idx):
        if idx >= 0 or -idx > len(self.items):
            raise AnalysisError("stack index %d outside the modelled window" % idx)
        return self.items[idx]

    def slice(self, lo, hi):
        """items[lo:hi] with negative lo, hi negative or None"""
        n = len(self.items)
        if lo is None or lo >= 0 or -lo > n or (hi is not None and (hi >= 0 or -hi > n)):
            raise AnalysisError("stack slice [%s:%s] outside the modelled window" % (lo, hi))
        return self.items[lo:hi] if hi is not None else self.items[lo:]

    def delta(self):
        """(number of original slots consumed, list of values now on top of the untouched rest)"""
        orig = [("slot", i) for i in range(K, 0, -1)]
        # longest common prefix with the original bottom
        i = 0
        while i < len(self.items) and i < len(orig) and self.items[i] == orig[i]:
            i += 1
        consumed = K - i
        return consumed, self.items[i:]


class Outcome:
    def __init__(self, conds, stack, alt, ret):
        self.conds, self.stack, self.alt, self.ret = conds, stack, alt, ret


class Interp:
    def __init__(self, repo, mod, fn, depth=0):
        self.repo, self.mod, self.fn = repo, mod, fn
        ps = [a.arg for a in fn.args.args]
        self.stack_name = ps[0] if ps else "stack"
        self.alt_name = ps[1] if len(ps) > 1 and ps[1] in ("altstack",) else None
        self.required = 0
        self.depth_checks = []
        self.depth = depth

    # -- expression evaluation ---------------------------------------------------------------
    def ev(self, e, st):
        env, stack, alt = st
        if isinstance(e, ast.Constant):
            return ("const", e.value)
        if isinstance(e, ast.Name):
            if e.id in env:
                return env[e.id]
            raise AnalysisError("unbound name %s in handler %s" % (e.id, self.fn.name))
        if isinstance(e, ast.Call):
            f = e.func
            if isinstance(f, ast.Attribute) and isinstance(f.value, ast.Name) and f.value.id in (self.stack_name, self.alt_name):
                s = stack if f.value.id == self.stack_name else alt
                if f.attr == "pop":
                    if not e.args:
                        return s.pop(-1)
                    idx = self.sym_index(e.args[0], st)
                    if isinstance(idx, int):
                        return s.pop(idx)
                    return ("roll", idx)
                raise AnalysisError("stack method %s used as a value" % f.attr)
            nm = f.id if isinstance(f, ast.Name) else (f.attr if isinstance(f, ast.Attribute) else None)
            if nm == "decode_num" and len(e.args) == 1:
                return ("dec", self.ev(e.args[0], st))
            if nm == "encode_num" and len(e.args) == 1:
                return ("enc", self.ev(e.args[0], st))
            if nm == "len" and len(e.args) == 1:
                a = e.args[0]
                if isinstance(a, ast.Name) and a.id == self.stack_name:
                    return ("depth", len(stack.items) - K)
                return ("len", self.ev(a, st))
            if nm in ("hash160", "hash256", "sha256"):
                return ("hash", nm, self.ev(e.args[0], st))
            if nm == "digest" and isinstance(f, ast.Attribute) and isinstance(f.value, ast.Call):
                inner = f.value
                inf = inner.func
                if isinstance(inf, ast.Attribute) and isinstance(inf.value, ast.Name) and inf.value.id == "hashlib":
                    if inf.attr == "new" and len(inner.args) == 2 and isinstance(inner.args[0], ast.Constant):
                        return ("hash", inner.args[0].value, self.ev(inner.args[1], st))
                    if inf.attr in ("sha1", "sha256", "ripemd160") and len(inner.args) == 1:
                        return ("hash", inf.attr, self.ev(inner.args[0], st))
            if nm in ("abs", "min", "max") and isinstance(f, ast.Name):
                args = [self.ev(a, st) for a in e.args]
                return (nm,) + tuple(args)
            raise AnalysisError("call %s not modelled in handler %s" % (ast.unparse(e)[:60], self.fn.name))
        if isinstance(e, ast.Subscript) and isinstance(e.value, ast.Name) and e.value.id in (self.stack_name, self.alt_name):
            s = stack if e.value.id == self.stack_name else alt
            if isinstance(e.slice, ast.Slice):
                lo = self.const_index(e.slice.lower, st) if e.slice.lower is not None else None
                hi = self.const_index(e.slice.upper, st) if e.slice.upper is not None else None
                return ("list", tuple(s.slice(lo, hi)))
            idx = self.sym_index(e.slice, st)
            if isinstance(idx, int):
                return s.get(idx)
            return ("pick", idx)
        if isinstance(e, ast.BinOp):
            a, b = self.ev(e.left, st), self.ev(e.right, st)
            if isinstance(e.op, ast.Add):
                if a[0] == "list" and b[0] == "list":
                    return ("list", a[1] + b[1])
                return ("add", a, b)
            if isinstance(e.op, ast.Sub):
                return ("sub", a, b)
            raise AnalysisError("operator %s not modelled" % type(e.op).__name__)
        if isinstance(e, ast.UnaryOp):
            a = self.ev(e.operand, st)
            if isinstance(e.op, ast.USub):
                return ("neg", a)
            if isinstance(e.op, ast.Not):
                return ("not", a)
        if isinstance(e, ast.Compare) and len(e.ops) == 1:
            a, b = self.ev(e.left, st), self.ev(e.comparators[0], st)
            op = {ast.Lt: "<", ast.LtE: "<=", ast.Gt: ">", ast.GtE: ">=", ast.Eq: "==", ast.NotEq: "!="}.get(type(e.ops[0]))
            if op is None:
                raise AnalysisError("comparison %s not modelled" % ast.unparse(e))
            return ("cmp", op, a, b)
        if isinstance(e, ast.Compare):
            parts = []
            operands = [e.left] + list(e.comparators)
            for i, o in enumerate(e.ops):
                parts.append(self.ev(ast.Compare(left=operands[i], ops=[o], comparators=[operands[i + 1]]), st))
            acc = parts[0]
            for p in parts[1:]:
                acc = ("and", acc, p)
            return acc
        if isinstance(e, ast.BoolOp):
            vals = [self.ev(v, st) for v in e.values]
            acc = vals[0]
            for v in vals[1:]:
                acc = ("and" if isinstance(e.op, ast.And) else "or", acc, v)
            return acc
        if isinstance(e, ast.Tuple):
            return ("tuple", tuple(self.ev(x, st) for x in e.elts))
        raise AnalysisError("expression %s not modelled in handler %s" % (ast.unparse(e)[:60], self.fn.name))

    def const_index(self, e, st):
        v = self.sym_index(e, st)
        if not isinstance(v, int):
            raise AnalysisError("non-constant stack index %s" % ast.unparse(e))
        return v

    def sym_index(self, e, st):
        if isinstance(e, ast.Constant) and isinstance(e.value, int):
            return e.value
        if isinstance(e, ast.UnaryOp) and isinstance(e.op, ast.USub) and isinstance(e.operand, ast.Constant):
            return -e.operand.value
        # -n - 1 with symbolic n
        return ("idx", ast.unparse(e), self.ev(e, st))

    # -- statements ---------------------------------------------------------------------------
    def run(self, stmts, st, conds):
        """returns list of Outcome"""
        env, stack, alt = st
        for i, s in enumerate(stmts):
            if isinstance(s, ast.Return):
                return [Outcome(conds, stack, alt, self.ret_value(s.value, (env, stack, alt), conds))]
            if isinstance(s, ast.If):
                # depth guard?
                dg = self.depth_guard(s.test)
                if dg is not None and _only_returns_false(s.body) and not s.orelse:
                    which, need = dg
                    cur = stack if which == self.stack_name else alt
                    consumed = K - len(cur.items)  # net items removed so far
                    if isinstance(need, int):
                        self.depth_checks.append((which, need + consumed))
                    else:
                        self.depth_checks.append((which, ("sym", need, consumed)))
                    continue
                c = self.ev(s.test, (env, stack, alt))
                a = self.run(s.body + stmts[i + 1:], (dict(env), stack.copy(), alt.copy()), conds + [c])
                b = self.run(s.orelse + stmts[i + 1:], (dict(env), stack.copy(), alt.copy()), conds + [("not", c)])
                return a + b
            if isinstance(s, ast.Assign) and len(s.targets) == 1:
                t = s.targets[0]
                if isinstance(t, ast.Name):
                    env[t.id] = self.ev(s.value, (env, stack, alt))
                    continue
                if isinstance(t, ast.Tuple) and all(isinstance(x, ast.Name) for x in t.elts):
                    v = self.ev(s.value, (env, stack, alt))
                    if v[0] == "tuple" and len(v[1]) == len(t.elts):
                        for x, xv in zip(t.elts, v[1]):
                            env[x.id] = xv
                        continue
                    raise AnalysisError("tuple assignment not modelled")
                if isinstance(t, ast.Tuple) and isinstance(s.value, ast.Tuple) and len(t.elts) == len(s.value.elts) and all(
                        isinstance(x, ast.Subscript) and isinstance(x.value, ast.Name) and x.value.id == self.stack_name for x in t.elts):
                    # stack[a:b], stack[c:d] = X, Y : all right-hand sides are evaluated first, then the stores happen left to right
                    vals = [self.ev(v, (env, stack, alt)) for v in s.value.elts]
                    for x, v in zip(t.elts, vals):
                        n = len(stack.items)
                        if isinstance(x.slice, ast.Slice):
                            lo = self.const_index(x.slice.lower, (env, stack, alt)) if x.slice.lower is not None else None
                            hi = self.const_index(x.slice.upper, (env, stack, alt)) if x.slice.upper is not None else None
                            if v[0] != "list" or lo is None or lo >= 0 or -lo > n or (hi is not None and (hi >= 0 or -hi > n)):
                                raise AnalysisError("paired slice assignment outside the modelled window")
                            stack.items[n + lo:(n + hi) if hi is not None else n] = list(v[1])
                        else:
                            stack.items[self.const_index(x.slice, (env, stack, alt))] = v
                    continue
                if isinstance(t, ast.Subscript) and isinstance(t.value, ast.Name) and t.value.id == self.stack_name and isinstance(t.slice, ast.Slice):
                    lo = self.const_index(t.slice.lower, (env, stack, alt)) if t.slice.lower is not None else None
                    hi = self.const_index(t.slice.upper, (env, stack, alt)) if t.slice.upper is not None else None
                    v = self.ev(s.value, (env, stack, alt))
                    if v[0] != "list":
                        raise AnalysisError("slice assignment of a non-list")
                    n = len(stack.items)
                    if lo is None or lo >= 0 or -lo > n:
                        raise AnalysisError("slice store outside the window")
                    start = n + lo
                    end = n + hi if hi is not None else n
                    stack.items[start:end] = list(v[1])
                    continue
                if isinstance(t, ast.Subscript) and isinstance(t.value, ast.Name) and t.value.id == self.stack_name:
                    idx = self.const_index(t.slice, (env, stack, alt))
                    stack.items[idx] = self.ev(s.value, (env, stack, alt))
                    continue
                raise AnalysisError("assignment target %s not modelled" % ast.unparse(t))
            if isinstance(s, ast.Expr) and isinstance(s.value, ast.Call):
                c = s.value
                f = c.func
                if isinstance(f, ast.Attribute) and isinstance(f.value, ast.Name) and f.value.id in (self.stack_name, self.alt_name):
                    tgt = stack if f.value.id == self.stack_name else alt
                    if f.attr == "append":
                        tgt.items.append(self.ev(c.args[0], (env, stack, alt)))
                        continue
                    if f.attr == "pop":
                        self.ev(c, (env, stack, alt))
                        continue
                    if f.attr == "extend":
                        v = self.ev(c.args[0], (env, stack, alt))
                        if v[0] != "list":
                            raise AnalysisError("extend with a non-list")
                        tgt.items.extend(v[1])
                        continue
                    if f.attr == "insert":
                        idx = self.const_index(c.args[0], (env, stack, alt))
                        v = self.ev(c.args[1], (env, stack, alt))
                        n = len(tgt.items)
                        tgt.items.insert(n + idx, v)
                        continue
                if isinstance(f, ast.Name) and f.id == "print":
                    continue
                raise AnalysisError("statement %s not modelled" % ast.unparse(s)[:60])
            if isinstance(s, ast.Expr) and isinstance(s.value, ast.Constant):
                continue
            if isinstance(s, ast.Pass):
                continue
            if isinstance(s, ast.Delete) and all(isinstance(t, ast.Subscript) and isinstance(t.value, ast.Name) and t.value.id in (self.stack_name, self.alt_name)
                                                 for t in s.targets):
                # del stack[-2] / del stack[-2:] / del stack[-3:-1]
                for t in s.targets:
                    tgt = stack if t.value.id == self.stack_name else alt
                    n = len(tgt.items)
                    if isinstance(t.slice, ast.Slice):
                        if t.slice.step is not None:
                            raise AnalysisError("del with a stepped slice not modelled")
                        lo = self.const_index(t.slice.lower, (env, stack, alt)) if t.slice.lower is not None else None
                        hi = self.const_index(t.slice.upper, (env, stack, alt)) if t.slice.upper is not None else None
                        if lo is None or lo >= 0 or -lo > n or (hi is not None and (hi >= 0 or -hi > n)):
                            raise AnalysisError("del of a stack slice outside the modelled window")
                        del tgt.items[n + lo:(n + hi) if hi is not None else n]
                    else:
                        idx = self.const_index(t.slice, (env, stack, alt))
                        if idx >= 0 or -idx > n:
                            raise AnalysisError("del of a stack item outside the modelled window")
                        del tgt.items[n + idx]
                continue
            raise AnalysisError("statement kind %s not modelled in handler %s" % (type(s).__name__, self.fn.name))
        return [Outcome(conds, stack, alt, ("const", None))]

    def ret_value(self, e, st, conds):
        if e is None:
            return ("const", None)
        if isinstance(e, ast.Constant):
            return ("const", e.value)
        # composition: `return op_a(stack) and op_b(stack)`
        return ("compose", e)

    def depth_guard(self, test):
        """`len(stack) < c` -> (stack name, c)"""
        if isinstance(test, ast.Compare) and len(test.ops) == 1 and isinstance(test.ops[0], ast.Lt) and isinstance(test.left, ast.Call) \
                and isinstance(test.left.func, ast.Name) and test.left.func.id == "len" and len(test.left.args) == 1 \
                and isinstance(test.left.args[0], ast.Name) and test.left.args[0].id in (self.stack_name, self.alt_name):
            c = test.comparators[0]
            if isinstance(c, ast.Constant) and isinstance(c.value, int):
                return test.left.args[0].id, c.value
            return test.left.args[0].id, ast.unparse(c)
        return None


def _only_returns_false(body):
    return len(body) == 1 and isinstance(body[0], ast.Return) and isinstance(body[0].value, ast.Constant) and body[0].value.value is False


# -- normalisation ----------------------------------------------------------------------------------

_SWAP = {"<": ">", ">": "<", "<=": ">=", ">=": "<=", "==": "==", "!=": "!="}
_NEG = {"<": ">=", ">": "<=", "<=": ">", ">=": "<", "==": "!=", "!=": "=="}


def norm(v):
    if not isinstance(v, tuple):
        return v
    k = v[0]
    if k in ("slot", "const", "depth"):
        return v
    if k == "dec":
        return ("dec", norm(v[1]))
    if k == "enc":
        return ("enc", norm(v[1]))
    if k == "add":
        a, b = norm(v[1]), norm(v[2])
        return ("add",) + tuple(sorted((a, b), key=repr))
    if k == "sub":
        return ("sub", norm(v[1]), norm(v[2]))
    if k in ("neg", "abs", "len"):
        a = norm(v[1])
        if k == "neg" and a[0] == "const" and isinstance(a[1], int):
            return ("const", -a[1])
        return (k, a)
    if k in ("min", "max"):
        return (k,) + tuple(sorted((norm(v[1]), norm(v[2])), key=repr))
    if k == "hash":
        return ("hash", v[1], norm(v[2]))
    if k == "cmp":
        op, a, b = v[1], norm(v[2]), norm(v[3])
        if op in (">", ">="):
            op, a, b = _SWAP[op], b, a
        if op in ("==", "!=") and repr(b) < repr(a):
            a, b = b, a
        return ("cmp", op, a, b)
    if k == "not":
        a = norm(v[1])
        if a[0] == "cmp":
            return norm(("cmp", _NEG[a[1]], a[2], a[3]))
        if a[0] == "not":
            return a[1]
        if a[0] == "and":
            return norm(("or", ("not", a[1]), ("not", a[2])))
        if a[0] == "or":
            return norm(("and", ("not", a[1]), ("not", a[2])))
        if a[0] in ("dec", "sub", "add"):
            return ("cmp", "==", ("const", 0), a) if repr(("const", 0)) < repr(a) else ("cmp", "==", a, ("const", 0))
        return ("not", a)
    if k in ("and", "or"):
        a, b = _truth(norm(v[1])), _truth(norm(v[2]))
        parts = []
        for x in (a, b):
            if x[0] == k:
                parts.extend(x[1:])
            else:
                parts.append(x)
        parts = sorted(parts, key=repr)
        acc = parts[0]
        for p in parts[1:]:
            acc = (k, acc, p)
        return acc
    if k == "bool":
        return ("bool", _truth(norm(v[1])))
    if k == "list":
        return ("list", tuple(norm(x) for x in v[1]))
    return v


def _truth(c):
    """condition form of a value used as a truth value"""
    if c[0] in ("dec", "add", "sub", "neg"):
        return norm(("cmp", "!=", c, ("const", 0)))
    return c


def merge_outcomes(outs):
    """Combine the success outcomes of a handler into one stack effect when they differ only in the pushed value."""
    succ = [o for o in outs if o.ret == ("const", True)]
    fail = [o for o in outs if o.ret in (("const", False), ("const", None))]
    other = [o for o in outs if o not in succ and o not in fail]
    return succ, fail, other


def effect_of(repo, mod, fn, depth=0):
    """Returns dict(depth=[(stack, n)], success=[(conds, consumed, pushed, alt_consumed, alt_pushed)], fail=[conds], compose=...)"""
    it = Interp(repo, mod, fn, depth)
    st = ({}, Stack(), Stack(base="A"))
    outs = it.run(fn.body, st, [])
    succ, fail, other = merge_outcomes(outs)
    res = {"depth": it.depth_checks, "success": [], "fail": [], "compose": None}
    for o in other:
        if o.ret[0] == "compose":
            res["compose"] = o.ret[1]
        else:
            raise AnalysisError("handler %s returns %s" % (fn.name, o.ret))
    for o in succ:
        c, pushed = o.stack.delta()
        ac, apushed = o.alt.delta()
        res["success"].append(([norm(x) for x in o.conds], c, [norm(x) for x in pushed], ac, [norm(x) for x in apushed]))
    for o in fail:
        res["fail"].append([norm(x) for x in o.conds])
    return res


def simplify_success(succ):
    """Fold two success outcomes `cond → push enc(1)` / `not cond → push enc(0)` (or value selections) into one."""
    if len(succ) == 1:
        return succ[0]
    if len(succ) == 2:
        (c1, n1, p1, a1, ap1), (c2, n2, p2, a2, ap2) = succ
        if n1 != n2:
            # one arm leaves the elements it does not replace where they are: the same effect written on the larger window
            n = max(n1, n2)
            p1 = [("slot", i) for i in range(n, n1, -1)] + list(p1)
            p2 = [("slot", i) for i in range(n, n2, -1)] + list(p2)
            n1 = n2 = n
        if n1 == n2 and a1 == a2 and ap1 == ap2 and len(c1) == len(c2) and c1[:-1] == c2[:-1] and len(p1) == len(p2):
            cond = _truth(c1[-1])
            if norm(("not", cond)) != _truth(c2[-1]) and norm(("not", _truth(c2[-1]))) != cond:
                return None
            # same prefix, last pushed differs
            if p1[:-1] == p2[:-1] and p1 and p2:
                x, y = p1[-1], p2[-1]
                if x == ("enc", ("const", 1)) and y == ("enc", ("const", 0)):
                    return (c1[:-1], n1, p1[:-1] + [("enc", ("bool", cond))], a1, ap1)
                if x == ("enc", ("const", 0)) and y == ("enc", ("const", 1)):
                    return (c1[:-1], n1, p1[:-1] + [("enc", ("bool", norm(("not", cond))))], a1, ap1)
                if x[0] == "enc" and y[0] == "enc":
                    sel = _select(cond, x[1], y[1])
                    if sel is not None:
                        return (c1[:-1], n1, p1[:-1] + [("enc", sel)], a1, ap1)
                # one arm pushes a re-encoded number, the other leaves the raw element it decoded: not the same element for non-minimal encodings
                for enc_arm, raw_arm, cnd in ((x, y, cond), (y, x, norm(("not", cond)))):
                    if enc_arm[0] == "enc" and raw_arm[0] == "slot" and ("dec", raw_arm) in _subterms(enc_arm):
                        return (c1[:-1], n1, p1[:-1] + [("sel", cnd, enc_arm, ("raw", raw_arm))], a1, ap1)
            # IFDUP style: one arm pushes nothing extra
            if len(p1) != len(p2):
                return None
    return None


def _subterms(t):
    out = [t]
    if isinstance(t, tuple):
        for x in t[1:]:
            out += _subterms(x)
    return out


def _select(cond, a, b):
    """cond ? a : b as min / max / abs when recognisable"""
    if cond[0] == "cmp" and cond[1] in ("<", "<="):
        l, r = cond[2], cond[3]
        if {repr(a), repr(b)} == {repr(l), repr(r)}:
            # l < r ? a : b
            if a == l:
                return norm(("min", l, r))
            return norm(("max", l, r))
        if r == ("const", 0) and b == l and a == norm(("neg", l)):
            return ("abs", l)
    return None


# ---------------------------------------------------------------------------------------------------
# BITS: upper bound on the bit width of integer expressions in straight-line code (non-negative values)


def bit_widths(fn, param_bits, folder):
    """Walk the straight-line body of `fn`; returns (env: name -> max bits, issues, return widths).
    issues: right shifts whose operand may exceed the word."""
    import ast as _ast
    env = dict(param_bits)
    shifts = []  # (node, operand width)
    rets = []

    def w(e):
        c = folder.fold(e)
        if isinstance(c, int) and c >= 0:
            return c.bit_length()
        if isinstance(e, _ast.Name):
            return env.get(e.id, None)
        if isinstance(e, _ast.BinOp):
            a, b = w(e.left), w(e.right)
            if isinstance(e.op, _ast.BitAnd):
                cands = [x for x in (a, b) if x is not None]
                return min(cands) if cands else None
            if a is None:
                return None
            if isinstance(e.op, _ast.LShift):
                s = folder.fold(e.right)
                return a + s if isinstance(s, int) else None
            if isinstance(e.op, _ast.RShift):
                s = folder.fold(e.right)
                shifts.append((e, a))
                return max(a - s, 0) if isinstance(s, int) else a
            if b is None:
                return None
            if isinstance(e.op, (_ast.BitOr, _ast.BitXor)):
                return max(a, b)
            if isinstance(e.op, _ast.Add):
                return max(a, b) + 1
            if isinstance(e.op, _ast.Mult):
                return a + b
            return None
        if isinstance(e, _ast.Subscript):
            return 8  # a byte of a bytes object
        return None

    def run(stmts):
        for st in stmts:
            if isinstance(st, _ast.Assign) and len(st.targets) == 1:
                t = st.targets[0]
                if isinstance(t, _ast.Name):
                    env[t.id] = w(st.value)
                elif isinstance(t, _ast.Tuple) and isinstance(st.value, _ast.Name):
                    for x in t.elts:
                        if isinstance(x, _ast.Name):
                            env[x.id] = param_bits.get(st.value.id)
            elif isinstance(st, _ast.AugAssign) and isinstance(st.target, _ast.Name):
                env[st.target.id] = w(_ast.BinOp(left=_ast.Name(id=st.target.id, ctx=_ast.Load()), op=st.op, right=st.value))
            elif isinstance(st, _ast.Return) and st.value is not None:
                if isinstance(st.value, _ast.Tuple):
                    rets.extend((x, w(x)) for x in st.value.elts)
                else:
                    rets.append((st.value, w(st.value)))
            elif isinstance(st, (_ast.If, _ast.For, _ast.While)):
                run(st.body)
                run(getattr(st, "orelse", []))
    run(fn.body)
    return env, shifts, rets
