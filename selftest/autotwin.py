"""Automatic behaviour-preserving rewrites ("twins") of every function a property's rules look at.

For each property the set of analysed functions is taken from the run itself (Ctx.stats["functions"]), and each
function is rewritten, one transformation at a time, by an ast.NodeTransformer that preserves behaviour:

  identity      parse + unparse of the file (comments, layout and line numbers change, nothing else)
  rename        every local variable (assigned name that is not a parameter, global or attribute) gets a new name
  cmpflip       `a < b` -> `b > a`, `a == b` -> `b == a` when both operands are free of calls other than len()
  ifswap        `if c: A else: B` -> `if not c: B else: A`
  rettemp       `return E` -> `_rv = E; return _rv`
  augexpand     `x += e` -> `x = x + e` for plain names
  chainsplit    `a <= x < b` -> `a <= x and x < b` when x is a plain name
  condtemp      `if <compare>:` -> `_c = <compare>; if _c:`
  elsewrap      `if c: ...raise` + rest of block -> `if c: ...raise else: rest`
  notcmp        `if a < b:` -> `if not a >= b:`
  splitand      `if a and b: S` -> `if a: if b: S`
  swapindep     two adjacent call-free independent assignments swapped

The owning property's rules are run on each variant (in memory, Repo(overrides=...)).  A variant on which a rule
reports a violation is a FALSE ALARM of the checker; a variant on which a rule becomes undecided (exit 2) is counted
separately.  usage: python -m selftest.autotwin [C01 ...] [--kinds rename,cmpflip] [-v]
"""
import ast
import copy
import os
import sys
from concurrent.futures import ProcessPoolExecutor

ROOT = os.path.dirname(os.path.dirname(os.path.abspath(__file__)))
if ROOT not in sys.path:
    sys.path.insert(0, ROOT)

KINDS = ["identity", "rename", "cmpflip", "ifswap", "rettemp", "augexpand", "chainsplit", "condtemp", "elsewrap", "notcmp", "splitand", "swapindep"]


def _pure(e):
    for n in ast.walk(e):
        if isinstance(n, ast.Call):
            if not (isinstance(n.func, ast.Name) and n.func.id == "len"):
                return False
        if isinstance(n, (ast.Await, ast.Yield, ast.YieldFrom, ast.NamedExpr, ast.Lambda, ast.ListComp, ast.GeneratorExp, ast.SetComp, ast.DictComp)):
            return False
    return True


class Rename(ast.NodeTransformer):
    def __init__(self, fn):
        params = set()
        a = fn.args
        for x in a.posonlyargs + a.args + a.kwonlyargs:
            params.add(x.arg)
        if a.vararg:
            params.add(a.vararg.arg)
        if a.kwarg:
            params.add(a.kwarg.arg)
        stored = set()
        banned = set()
        for n in ast.walk(fn):
            if isinstance(n, ast.Name) and isinstance(n.ctx, (ast.Store, ast.Del)):
                stored.add(n.id)
            elif isinstance(n, (ast.Global, ast.Nonlocal)):
                banned |= set(n.names)
            elif isinstance(n, (ast.FunctionDef, ast.AsyncFunctionDef, ast.ClassDef)) and n is not fn:
                banned.add(n.name)
            elif isinstance(n, ast.ExceptHandler) and n.name:
                banned.add(n.name)
            elif isinstance(n, ast.keyword) and n.arg:
                pass
        self.map = {v: "%s_rn" % v for v in stored - params - banned}
        self.changed = 0

    def visit_Name(self, n):
        if n.id in self.map:
            self.changed += 1
            return ast.copy_location(ast.Name(id=self.map[n.id], ctx=n.ctx), n)
        return n


_FLIP = {ast.Lt: ast.Gt, ast.Gt: ast.Lt, ast.LtE: ast.GtE, ast.GtE: ast.LtE, ast.Eq: ast.Eq, ast.NotEq: ast.NotEq}


class CmpFlip(ast.NodeTransformer):
    changed = 0

    def visit_Compare(self, n):
        self.generic_visit(n)
        if len(n.ops) == 1 and type(n.ops[0]) in _FLIP and _pure(n.left) and _pure(n.comparators[0]):
            self.changed += 1
            return ast.copy_location(ast.Compare(left=n.comparators[0], ops=[_FLIP[type(n.ops[0])]()], comparators=[n.left]), n)
        return n


class IfSwap(ast.NodeTransformer):
    changed = 0

    def visit_If(self, n):
        self.generic_visit(n)
        if n.orelse and not (len(n.orelse) == 1 and isinstance(n.orelse[0], ast.If)):
            self.changed += 1
            return ast.copy_location(ast.If(test=ast.UnaryOp(op=ast.Not(), operand=n.test), body=n.orelse, orelse=n.body), n)
        return n


class RetTemp(ast.NodeTransformer):
    changed = 0

    def _block(self, stmts):
        out = []
        for s in stmts:
            if isinstance(s, ast.Return) and s.value is not None and not isinstance(s.value, (ast.Name, ast.Constant)):
                self.changed += 1
                out.append(ast.copy_location(ast.Assign(targets=[ast.Name(id="_rv", ctx=ast.Store())], value=s.value, lineno=s.lineno), s))
                out.append(ast.copy_location(ast.Return(value=ast.Name(id="_rv", ctx=ast.Load())), s))
            else:
                out.append(s)
        return out

    def generic_visit(self, node):
        super().generic_visit(node)
        for f in ("body", "orelse", "finalbody"):
            v = getattr(node, f, None)
            if isinstance(v, list) and v and isinstance(v[0], ast.stmt):
                setattr(node, f, self._block(v))
        if isinstance(node, ast.Try):
            for h in node.handlers:
                h.body = self._block(h.body)
        return node

    def visit_FunctionDef(self, node):
        if getattr(self, "_top", None) is None:
            self._top = node
            return self.generic_visit(node)
        return node  # nested functions untouched

    def visit_Lambda(self, node):
        return node


class AugExpand(ast.NodeTransformer):
    changed = 0

    def visit_AugAssign(self, n):
        if isinstance(n.target, ast.Name):
            self.changed += 1
            return ast.copy_location(ast.Assign(targets=[ast.Name(id=n.target.id, ctx=ast.Store())],
                                                value=ast.BinOp(left=ast.Name(id=n.target.id, ctx=ast.Load()), op=n.op, right=n.value), lineno=n.lineno), n)
        return n


class ChainSplit(ast.NodeTransformer):
    changed = 0

    def visit_Compare(self, n):
        self.generic_visit(n)
        if len(n.ops) == 2 and isinstance(n.comparators[0], ast.Name) and _pure(n.left) and _pure(n.comparators[1]):
            self.changed += 1
            mid = n.comparators[0]
            return ast.copy_location(ast.BoolOp(op=ast.And(), values=[
                ast.Compare(left=n.left, ops=[n.ops[0]], comparators=[mid]),
                ast.Compare(left=copy.deepcopy(mid), ops=[n.ops[1]], comparators=[n.comparators[1]])]), n)
        return n


_NEG = {ast.Lt: ast.GtE, ast.GtE: ast.Lt, ast.Gt: ast.LtE, ast.LtE: ast.Gt, ast.Eq: ast.NotEq, ast.NotEq: ast.Eq, ast.Is: ast.IsNot, ast.IsNot: ast.Is,
        ast.In: ast.NotIn, ast.NotIn: ast.In}


def _terminates(body):
    return bool(body) and isinstance(body[-1], (ast.Return, ast.Raise, ast.Continue, ast.Break))


class _BlockRewriter(ast.NodeTransformer):
    """base for statement-list rewrites (function body and every nested block, nested defs excluded)"""
    changed = 0

    def rewrite(self, stmts):
        return stmts

    def generic_visit(self, node):
        super().generic_visit(node)
        for f in ("body", "orelse", "finalbody"):
            v = getattr(node, f, None)
            if isinstance(v, list) and v and isinstance(v[0], ast.stmt):
                setattr(node, f, self.rewrite(v))
        if isinstance(node, ast.Try):
            for h in node.handlers:
                h.body = self.rewrite(h.body)
        return node

    def visit_FunctionDef(self, node):
        if getattr(self, "_top", None) is None:
            self._top = node
            return self.generic_visit(node)
        return node

    def visit_Lambda(self, node):
        return node


class CondTemp(_BlockRewriter):
    """`if <compare>: ...` -> `_c = <compare>; if _c: ...` (first level of each block, plain if without elif chain above)"""

    def rewrite(self, stmts):
        out = []
        for s in stmts:
            if isinstance(s, ast.If) and isinstance(s.test, ast.Compare) and _pure(s.test):
                self.changed += 1
                out.append(ast.copy_location(ast.Assign(targets=[ast.Name(id="_c", ctx=ast.Store())], value=s.test, lineno=s.lineno), s))
                out.append(ast.copy_location(ast.If(test=ast.Name(id="_c", ctx=ast.Load()), body=s.body, orelse=s.orelse), s))
            else:
                out.append(s)
        return out


class ElseWrap(_BlockRewriter):
    """`if c: ...raise/return` followed by the rest of the block -> `if c: ... else: <rest>`"""

    def rewrite(self, stmts):
        for i, s in enumerate(stmts):
            if isinstance(s, ast.If) and not s.orelse and _terminates(s.body) and i + 1 < len(stmts):
                self.changed += 1
                return stmts[:i] + [ast.copy_location(ast.If(test=s.test, body=s.body, orelse=stmts[i + 1:]), s)]
        return stmts


class NotCmp(ast.NodeTransformer):
    """`a < b` -> `not a >= b` inside if/while tests (operands pure)"""
    changed = 0

    def _neg(self, t):
        if isinstance(t, ast.Compare) and len(t.ops) == 1 and type(t.ops[0]) in _NEG and _pure(t):
            self.changed += 1
            return ast.copy_location(ast.UnaryOp(op=ast.Not(), operand=ast.Compare(left=t.left, ops=[_NEG[type(t.ops[0])]()], comparators=t.comparators)), t)
        return t

    def visit_If(self, n):
        self.generic_visit(n)
        n.test = self._neg(n.test)
        return n


class SplitAnd(_BlockRewriter):
    """`if a and b: S` (no else) -> `if a: if b: S`"""

    def rewrite(self, stmts):
        out = []
        for s in stmts:
            if isinstance(s, ast.If) and not s.orelse and isinstance(s.test, ast.BoolOp) and isinstance(s.test.op, ast.And) and len(s.test.values) == 2:
                self.changed += 1
                inner = ast.copy_location(ast.If(test=s.test.values[1], body=s.body, orelse=[]), s)
                out.append(ast.copy_location(ast.If(test=s.test.values[0], body=[inner], orelse=[]), s))
            else:
                out.append(s)
        return out


def _names_rw(s):
    r, w = set(), set()
    for n in ast.walk(s):
        if isinstance(n, ast.Name):
            (w if isinstance(n.ctx, ast.Store) else r).add(n.id)
    return r, w


class SwapIndep(_BlockRewriter):
    """swap two adjacent simple assignments to plain names when neither reads or writes what the other writes and
    neither contains a call (so evaluation order cannot matter)"""

    def rewrite(self, stmts):
        out = list(stmts)
        i = 0
        while i + 1 < len(out):
            a, b = out[i], out[i + 1]
            if all(isinstance(x, ast.Assign) and len(x.targets) == 1 and isinstance(x.targets[0], ast.Name) and not any(isinstance(c, ast.Call) for c in ast.walk(x)) for x in (a, b)):
                ra, wa = _names_rw(a)
                rb, wb = _names_rw(b)
                if not (wa & (rb | wb)) and not (wb & ra):
                    out[i], out[i + 1] = b, a
                    self.changed += 1
                    i += 2
                    continue
            i += 1
        return out


def transform(text, fname, lineno, kind):
    """returns new module text or None when the transformation does not apply"""
    tree = ast.parse(text)
    if kind == "identity":
        return ast.unparse(tree)
    target = None
    for n in ast.walk(tree):
        if isinstance(n, (ast.FunctionDef, ast.AsyncFunctionDef)) and n.name == fname and n.lineno == lineno:
            target = n
            break
    if target is None:
        return None
    if kind == "rename":
        t = Rename(target)
        if not t.map:
            return None
        for i, s in enumerate(target.body):
            target.body[i] = t.visit(s)
        changed = t.changed
    else:
        t = {"cmpflip": CmpFlip, "ifswap": IfSwap, "rettemp": RetTemp, "augexpand": AugExpand, "chainsplit": ChainSplit, "condtemp": CondTemp,
             "elsewrap": ElseWrap, "notcmp": NotCmp, "splitand": SplitAnd, "swapindep": SwapIndep}[kind]()
        if kind in ("rettemp", "condtemp", "elsewrap", "splitand", "swapindep"):
            t.visit(target)
        else:
            for i, s in enumerate(target.body):
                target.body[i] = t.visit(s)
        changed = t.changed
    if not changed:
        return None
    ast.fix_missing_locations(tree)
    out = ast.unparse(tree)
    compile(out, "<twin>", "exec")
    return out


def _functions(prop, root):
    from sa.check import Ctx, run_property
    ctx = Ctx(root)
    run_property(prop, ctx, None)
    _ = ctx.repo_c
    return sorted(ctx.stats["functions"])


def _one(args):
    prop, root, rel, fname, lineno, kind = args
    from sa.check import Ctx, run_property
    from sa import report
    from sa.loader import REPO_ROOT
    base = root or REPO_ROOT
    try:
        text = open(os.path.join(base, rel), encoding="utf-8").read()
        t2 = transform(text, fname, lineno, kind)
    except Exception as e:
        return (rel, fname, kind, "error", "transform: %s: %s" % (type(e).__name__, e))
    if t2 is None:
        return (rel, fname, kind, "n/a", "")
    try:
        ctx = Ctx(root, overrides={rel: t2})
        _, results = run_property(prop, ctx, None)
    except Exception as e:
        return (rel, fname, kind, "undecided", "%s: %s" % (type(e).__name__, str(e)[:200]))
    report.match_known(results, prop)
    viol = [r for r in results if r.status == "violation" and not r.known]
    errs = [r for r in results if r.status == "error"]
    if viol:
        return (rel, fname, kind, "false-alarm", "%s: %s" % (viol[0].finding_key(), viol[0].msg[:200]))
    if errs:
        return (rel, fname, kind, "undecided", "%s: %s" % (errs[0].obl, errs[0].msg[:200]))
    return (rel, fname, kind, "silent", "")


def run(prop, root=None, kinds=None, jobs=16, verbose=False):
    from sa.loader import REPO_ROOT
    base = root or REPO_ROOT
    fns = _functions(prop, root)
    kinds = kinds or KINDS
    tasks = []
    files = sorted({os.path.relpath(p, base) if os.path.isabs(p) else p for p, _, _ in fns})
    if "identity" in kinds:
        for rel in files:
            tasks.append((prop, root, rel, "<module>", 0, "identity"))
    for p, name, lineno in fns:
        rel = os.path.relpath(p, base) if os.path.isabs(p) else p
        for k in kinds:
            if k != "identity":
                tasks.append((prop, root, rel, name, lineno, k))
    with ProcessPoolExecutor(max_workers=jobs) as ex:
        res = list(ex.map(_one, tasks, chunksize=4))
    summary = {"functions": len(fns), "variants": 0, "silent": 0, "false_alarm": 0, "undecided": 0, "error": 0}
    bad = []
    for r in res:
        st = r[3]
        if st == "n/a":
            continue
        summary["variants"] += 1
        if st == "silent":
            summary["silent"] += 1
        elif st == "false-alarm":
            summary["false_alarm"] += 1
            bad.append(r)
        elif st == "undecided":
            summary["undecided"] += 1
            bad.append(r)
        else:
            summary["error"] += 1
            bad.append(r)
    return summary, bad


if __name__ == "__main__":
    args = [a for a in sys.argv[1:] if not a.startswith("-")]
    kinds = None
    for i, a in enumerate(sys.argv):
        if a == "--kinds":
            kinds = sys.argv[i + 1].split(",")
            args = [x for x in args if x != sys.argv[i + 1]]
    props = args or ["C%02d" % i for i in range(1, 21)]
    tot = 0
    for p in props:
        s, bad = run(p, os.environ.get("VERIF_REPO"), kinds)
        print(p, s)
        for r in bad:
            print("   %s %s:%s [%s] %s" % (r[3], r[0], r[1], r[2], r[4][:220]))
        tot += len(bad)
    sys.exit(1 if tot else 0)
