"""Mutants (must be reported) and behaviour-preserving twins (must stay silent) for the checker self-test.

Each edit is an exact, single-occurrence text replacement in a file of the repository under test; if the
anchor text is not present (the tree differs) the mutant is skipped, never failed.
"""


def M(name, rel, old, new, obligations, what=""):
    return {"name": name, "edits": [("buidl/" + rel, old, new)], "expect": "violation", "obligations": obligations, "what": what}


def T(name, rel, old, new, obligations, what=""):
    return {"name": name, "edits": [("buidl/" + rel, old, new)], "expect": "silent", "obligations": obligations, "what": what}


MUTANTS = {}

MUTANTS["C01"] = [
    M("verify-drop-range", "pecc.py", "        if not (1 <= sig.r < N and 1 <= sig.s < N):\n            return False\n", "", ["C01.1"], "remove the r,s range check"),
    M("verify-range-off-by-one", "pecc.py", "1 <= sig.r < N and 1 <= sig.s < N", "1 <= sig.r < N and 1 <= sig.s <= N", ["C01.1"], "s = N accepted"),
    M("verify-zero-r", "pecc.py", "1 <= sig.r < N and 1 <= sig.s < N", "0 <= sig.r < N and 1 <= sig.s < N", ["C01.1"], "r = 0 accepted"),
    M("verify-no-modn", "pecc.py", "        return total.x.num % N == sig.r\n", "        return total.x.num == sig.r\n", ["C01.2"], "x not reduced mod n"),
    M("sign-float-half", "pecc.py", "        if s > N // 2:\n", "        if s > N / 2:\n", ["C01.3", "C01.10"], "float threshold"),
    M("sign-no-low-s", "pecc.py", "        if s > N // 2:\n            s = N - s\n", "", ["C01.3"], "low-S normalisation removed"),
    M("detk-z-gt", "pecc.py", "        if z >= N:\n            z -= N\n", "        if z > N:\n            z -= N\n", ["C01.4"], "z == N not reduced (pecc)"),
    M("detk-z-gt-cecc", "cecc.py", "        if z >= N:\n            z -= N\n", "        if z > N:\n            z -= N\n", ["C01.4"], "z == N not reduced (cecc only: sibling)"),
    M("detk-candidate-zero", "pecc.py", "            if candidate >= 1 and candidate < N:\n                return candidate\n            k = hmac.new(k, v + b\"\\x00\", s256).digest()\n            v = hmac.new(k, v, s256).digest()\n\n    def sign_message",
      "            if candidate >= 0 and candidate < N:\n                return candidate\n            k = hmac.new(k, v + b\"\\x00\", s256).digest()\n            v = hmac.new(k, v, s256).digest()\n\n    def sign_message", ["C01.5"], "nonce 0 accepted"),
    M("secret-zero", "pecc.py", "        if secret < 1:\n            raise RuntimeError(\"secret too small\")\n", "        if secret < 0:\n            raise RuntimeError(\"secret too small\")\n", ["C01.6"], "secret 0 accepted"),
    M("der-swap", "pecc.py", "        result = bytes([2, len(rbin)]) + rbin\n        sbin = int_to_big_endian(self.s, 32)", "        result = bytes([2, len(rbin)]) + rbin\n        sbin = int_to_big_endian(self.r, 32)", ["C01.7"], "s field encodes r"),
    M("der-pad-threshold", "pecc.py", "        if sbin[0] >= 128:\n", "        if sbin[0] > 128:\n", ["C01.7"], "padding predicate misses 0x80"),
    M("curve-order", "pecc.py", "N = 0xFFFFFFFFFFFFFFFFFFFFFFFFFFFFFFFEBAAEDCE6AF48A03BBFD25E8CD0364141", "N = 0xFFFFFFFFFFFFFFFFFFFFFFFFFFFFFFFEBAAEDCE6AF48A03BBFD25E8CD0364143", ["C01.8"], "group order perturbed"),
    M("nonce-source", "pecc.py", "        k = self.deterministic_k(z)\n", "        k = self.deterministic_k(z) ^ 1\n", ["C01.9"], "nonce not exactly deterministic_k(z)"),
    M("msg-digest", "pecc.py", "        h256 = hash256(message)\n        # z is the big-endian interpretation. use big_endian_to_int\n        z = big_endian_to_int(h256)\n        # sign the message using the self.sign method",
      "        h256 = hash160(message)\n        # z is the big-endian interpretation. use big_endian_to_int\n        z = big_endian_to_int(h256)\n        # sign the message using the self.sign method", ["C01.9"], "sign_message hashes with hash160"),
    M("cecc-no-selfverify", "cecc.py", "        if not self.point.verify(z, sig):\n            raise RuntimeError(\"generated signature doesn't verify\")\n", "", ["C01.11"], "self-verification removed"),
    T("verify-range-rewrite", "pecc.py", "        if not (1 <= sig.r < N and 1 <= sig.s < N):\n            return False\n",
      "        r, s = sig.r, sig.s\n        if r < 1 or r >= N:\n            return False\n        if s < 1 or s > N - 1:\n            return False\n", ["C01.1"], "same range check, different idiom"),
    T("low-s-rewrite", "pecc.py", "        if s > N // 2:\n            s = N - s\n", "        half = N // 2\n        if half < s:\n            s = N - s\n", ["C01.3", "C01.10"], "same normalisation with a temporary"),
    T("detk-mod", "pecc.py", "        if z >= N:\n            z -= N\n        z_bytes = int_to_big_endian(z, 32)\n        secret_bytes = int_to_big_endian(self.secret, 32)\n        s256 = hashlib.sha256\n        k = hmac.new(k, v + b\"\\x00\" + secret_bytes + z_bytes, s256).digest()\n        v = hmac.new(k, v, s256).digest()\n        k = hmac.new(k, v + b\"\\x01\" + secret_bytes + z_bytes, s256).digest()\n        v = hmac.new(k, v, s256).digest()\n        while True:\n            v = hmac.new(k, v, s256).digest()\n            candidate = big_endian_to_int(v)\n            if candidate >= 1 and candidate < N:\n                return candidate\n            k = hmac.new(k, v + b\"\\x00\", s256).digest()\n            v = hmac.new(k, v, s256).digest()\n\n    def sign_message",
      "        z %= N\n        z_bytes = int_to_big_endian(z, 32)\n        secret_bytes = int_to_big_endian(self.secret, 32)\n        s256 = hashlib.sha256\n        k = hmac.new(k, v + b\"\\x00\" + secret_bytes + z_bytes, s256).digest()\n        v = hmac.new(k, v, s256).digest()\n        k = hmac.new(k, v + b\"\\x01\" + secret_bytes + z_bytes, s256).digest()\n        v = hmac.new(k, v, s256).digest()\n        while True:\n            v = hmac.new(k, v, s256).digest()\n            candidate = big_endian_to_int(v)\n            if 1 <= candidate < N:\n                return candidate\n            k = hmac.new(k, v + b\"\\x00\", s256).digest()\n            v = hmac.new(k, v, s256).digest()\n\n    def sign_message", ["C01.4", "C01.5"], "reduction by %, chained comparison"),
]

MUTANTS["C02"] = [
    M("tag-typo", "phash.py", "b\"BIP0340/challenge\"", "b\"BIP340/challenge\"", ["C02.1"], "challenge tag altered (phash)"),
    M("tag-swap-chash", "chash.py", "    return tagged_hash(b\"TapLeaf\", msg)", "    return tagged_hash(b\"TapBranch\", msg)", ["C02.1"], "TapLeaf wrapper uses TapBranch tag in chash only"),
    M("cache-key", "phash.py", "        TAG_HASH_CACHE[tag] = hashlib.sha256(tag).digest() * 2", "        TAG_HASH_CACHE[tag] = hashlib.sha256(tag + msg[:1]).digest() * 2", ["C02.2"], "cached value depends on msg"),
    M("schnorr-s-range", "pecc.py", "        if s >= N:\n            raise ValueError(f\"{s:x} is greater than or equal to {N:x}\")\n        self.s = s", "        if s > N:\n            raise ValueError(f\"{s:x} is greater than or equal to {N:x}\")\n        self.s = s", ["C02.3"], "s = N accepted"),
    M("verify-no-parity", "pecc.py", "        if result.parity:\n            return False\n", "", ["C02.4"], "odd-Y result accepted"),
    M("verify-no-inf", "pecc.py", "        if result.x is None:\n            return False\n", "", ["C02.4"], "result at infinity not rejected"),
    M("sign-no-selfverify", "pecc.py", "        if not self.point.verify_schnorr(msg, schnorr):\n            raise RuntimeError(\"Bad Signature\")\n", "", ["C02.5"], "self-verification removed"),
    M("aux-len", "pecc.py", "        if len(aux) != 32:\n            raise ValueError(\"aux needs to be 32 bytes\")\n        # t contains", "        # t contains", ["C02.6"], "aux length guard removed"),
    M("challenge-order", "pecc.py", "        commitment = r.xonly() + self.point.xonly() + msg\n", "        commitment = self.point.xonly() + r.xonly() + msg\n", ["C02.7"], "signer hashes P||R||m"),
    M("nonce-raw-secret", "pecc.py", "        t = xor_bytes(int_to_big_endian(e, 32), hash_aux(aux))", "        t = xor_bytes(int_to_big_endian(self.secret, 32), hash_aux(aux))", ["C02.7", "C02.8"], "nonce masks the raw secret"),
    M("sign-raw-secret", "pecc.py", "        s = (k + e * h) % N\n", "        s = (k + self.secret * h) % N\n", ["C02.8"], "s uses the un-normalised secret"),
    M("no-k-flip", "pecc.py", "        if r.parity:\n            # set k to N - k\n            k = N - k\n            # recalculate R\n            r = k * G\n", "", ["C02.8"], "nonce not negated for odd R"),
    M("codec-le", "pecc.py", "        return self.r.xonly() + int_to_big_endian(self.s, 32)", "        return self.r.xonly() + int_to_little_endian(self.s, 32)", ["C02.9"], "s written little-endian"),
    T("verify-reorder-checks", "pecc.py", "        if result.x is None:\n            return False\n        if result.parity:\n            return False\n", "        if result.x is None or result.parity:\n            return False\n", ["C02.4"], "merged rejections"),
]

MUTANTS["C03"] = [
    M("sec-any-prefix", "pecc.py", "        if sec_bin[0] not in (2, 3):\n            raise ValueError(f\"Unknown SEC prefix {sec_bin[0]}\")\n", "", ["C03.1"], "prefix check removed"),
    M("no-curve-check", "pecc.py", "        if self.y**2 != self.x**3 + a * x + b:\n            # if not, raise a ValueError\n            raise ValueError(f\"({self.x}, {self.y}) is not on the curve\")\n", "        pass\n", ["C03.2"], "curve membership not enforced"),
    M("no-y0", "pecc.py", "            if self.y == 0 * self.x:\n                return self.__class__(None, None, self.a, self.b)\n", "", ["C03.3"], "y = 0 doubling case removed"),
    M("div-zero", "pecc.py", "        if other.num == 0:\n            raise ZeroDivisionError(\"division by zero in a finite field\")\n", "", ["C03.4"], "field division by zero silent"),
    M("inf-order", "pecc.py", "        if other.x is None:\n            return self\n\n", "", ["C03.5"], "other at infinity not handled"),
    M("rmul-no-mod", "pecc.py", "        coef = coefficient % N\n        return super().__rmul__(coef)", "        coef = coefficient\n        return super().__rmul__(coef)", ["C03.6"], "scalar not reduced"),
    M("sqrt-no-check", "pecc.py", "        if s * s != self:\n            raise ValueError(f\"{self} does not have a square root in {P:x}\")\n", "", ["C03.7"], "non-residue accepted"),
    M("sec-parity-swap", "pecc.py", "            if self.parity:\n                return b\"\\x03\" + x\n            else:\n                return b\"\\x02\" + x", "            if self.parity:\n                return b\"\\x02\" + x\n            else:\n                return b\"\\x03\" + x", ["C03.8"], "prefix/parity swapped in encoder"),
    M("parse-parity-swap", "pecc.py", "        if is_even:\n            return cls(x, even_beta)\n        else:\n            return cls(x, odd_beta)", "        if is_even:\n            return cls(x, odd_beta)\n        else:\n            return cls(x, even_beta)", ["C03.8"], "parity swapped in decoder"),
    M("parse-len", "pecc.py", "        elif len(binary) in (33, 65):\n            return cls.parse_sec(binary)", "        elif len(binary) in (33, 64, 65):\n            return cls.parse_sec(binary)", ["C03.9"], "64-byte keys accepted"),
    T("y0-numeric", "pecc.py", "            if self.y == 0 * self.x:\n                return self.__class__(None, None, self.a, self.b)\n", "            if self.y.num == 0:\n                return self.__class__(None, None, self.a, self.b)\n", ["C03.3"], "y = 0 test on .num"),
]

MUTANTS["C04"] = [
    M("push-gap", "script.py", "                if length <= 75:\n", "                if length < 75:\n", ["C04.1"], "gap at 75"),
    M("push-pd1-256", "script.py", "                elif length > 75 and length < 0x100:", "                elif length > 75 and length <= 0x100:", ["C04.1"], "PUSHDATA1 used for 256"),
    M("push-no-limit", "script.py", "                elif length >= 0x100 and length <= 520:", "                elif length >= 0x100:", ["C04.1"], "pushes longer than 520 accepted"),
    M("parse-direct-76", "script.py", "            if current_byte >= 1 and current_byte <= 75:", "            if current_byte >= 1 and current_byte <= 76:", ["C04.2"], "byte 76 treated as direct push"),
    M("parse-pd2-width", "script.py", "                data_length = little_endian_to_int(s.read(2))\n                commands.append(s.read(data_length))\n                count += data_length + 2", "                data_length = little_endian_to_int(s.read(4))\n                commands.append(s.read(data_length))\n                count += data_length + 2", ["C04.2"], "PUSHDATA2 reads a 4-byte length"),
    M("varint-boundary", "helper.py", "    elif i < 0x10000:\n        return b\"\\xfd\" + int_to_little_endian(i, 2)", "    elif i <= 0x10000:\n        return b\"\\xfd\" + int_to_little_endian(i, 2)", ["C04.3"], "0x10000 encoded with 2 bytes"),
    M("varint-reader-width", "helper.py", "    elif i == 0xFE:\n        # 0xfe means the next four bytes are the number\n        return little_endian_to_int(s.read(4))", "    elif i == 0xFE:\n        # 0xfe means the next four bytes are the number\n        return little_endian_to_int(s.read(8))", ["C04.3"], "reader reads 8 bytes after fe"),
    M("txin-order", "tx.py", "        result = self.prev_tx[::-1]\n        # serialize prev_index, 4 bytes, little endian\n        result += int_to_little_endian(self.prev_index, 4)\n        # serialize the script_sig\n        result += self.script_sig.serialize()\n        # serialize sequence, 4 bytes, little endian\n        result += self.sequence.serialize()",
      "        result = self.prev_tx[::-1]\n        # serialize prev_index, 4 bytes, little endian\n        result += int_to_little_endian(self.prev_index, 4)\n        # serialize sequence, 4 bytes, little endian\n        result += self.sequence.serialize()\n        # serialize the script_sig\n        result += self.script_sig.serialize()", ["C04.4", "C04.5"], "sequence before scriptSig"),
    M("txout-width", "tx.py", "        amount = little_endian_to_int(s.read(8))\n", "        amount = little_endian_to_int(s.read(4))\n", ["C04.4", "C04.5"], "amount read as 4 bytes"),
    M("prev-tx-noreverse", "tx.py", "        prev_tx = s.read(32)[::-1]\n", "        prev_tx = s.read(32)\n", ["C04.4", "C04.5"], "outpoint hash not reversed on read"),
    M("segwit-marker", "tx.py", "        result += b\"\\x00\\x01\"\n", "        result += b\"\\x00\\x02\"\n", ["C04.4", "C04.5"], "segwit flag byte 02"),
    M("txid-with-witness", "tx.py", "        return hash256(self.serialize_legacy())[::-1]", "        return hash256(self.serialize())[::-1]", ["C04.6"], "txid over the segwit serialization"),
    M("fetch-no-check", "tx.py", "            if computed != tx_id:\n                raise RuntimeError(f\"server lied: {computed} vs {tx_id}\")\n", "", ["C04.7"], "fetcher integrity check removed"),
    M("fetch-check-after-store", "tx.py", "            if computed != tx_id:\n                raise RuntimeError(f\"server lied: {computed} vs {tx_id}\")\n            cls.cache[tx_id] = tx\n", "            cls.cache[tx_id] = tx\n            if computed != tx_id:\n                raise RuntimeError(f\"server lied: {computed} vs {tx_id}\")\n", ["C04.7"], "cache poisoned before the check"),
    M("witness-count", "witness.py", "        result = encode_varint(len(self))\n", "        result = encode_varint(len(self) + 1)\n", ["C04.4", "C04.5", "C04.8"], "witness count prefix off by one"),
    T("push-chain-rewrite", "script.py", "                elif length > 75 and length < 0x100:", "                elif 76 <= length <= 255:", ["C04.1"], "same tile as a chained comparison"),
    T("fetch-rename", "tx.py", "            if computed != tx_id:\n                raise RuntimeError(f\"server lied: {computed} vs {tx_id}\")\n", "            if not (computed == tx_id):\n                raise RuntimeError(f\"server lied: {computed} vs {tx_id}\")\n", ["C04.7"], "negated equality"),
]

MUTANTS["C05"] = [
    M("legacy-acp-count", "tx.py", "        if hash_type & SIGHASH_ANYONECANPAY:\n            s += encode_varint(1)\n        else:\n            s += encode_varint(len(self.tx_ins))\n", "        s += encode_varint(len(self.tx_ins))\n", ["C05.1"], "input count ignores ANYONECANPAY"),
    M("legacy-single-count", "tx.py", "            s += encode_varint(input_index + 1)\n", "            s += encode_varint(input_index)\n", ["C05.1"], "SINGLE output count off by one"),
    M("legacy-seq-zero", "tx.py", "                if hash_type & 3 in (SIGHASH_NONE, SIGHASH_SINGLE):\n                    sequence = Sequence(0)\n", "                if hash_type & 3 == SIGHASH_NONE:\n                    sequence = Sequence(0)\n", ["C05.2"], "SINGLE does not zero other sequences"),
    M("legacy-hashtype-width", "tx.py", "        s += int_to_little_endian(hash_type, 4)\n        # hash256 the serialization\n", "        s += int_to_little_endian(hash_type, 1)\n        # hash256 the serialization\n", ["C05.2"], "hash type appended as one byte"),
    M("bip143-no-zero", "tx.py", "            s += self.hash_prevouts()\n        else:\n            s += b\"\\x00\" * 32\n", "            s += self.hash_prevouts()\n", ["C05.3"], "hashPrevouts slot omitted under ACP"),
    M("bip143-single-raw", "tx.py", "            s += hash256(self.tx_outs[input_index].serialize())\n", "            s += self.tx_outs[input_index].serialize()\n", ["C05.3"], "SINGLE appends the raw output"),
    M("bip143-amount-width", "tx.py", "        s += int_to_little_endian(tx_in.value(network=self.network), 8)\n        # add the sequence of the input", "        s += int_to_little_endian(tx_in.value(network=self.network), 4)\n        # add the sequence of the input", ["C05.3"], "amount as 4 bytes"),
    M("bip341-order", "tx.py", "        if tx_in.witness.has_annex():\n            s += sha256(encode_varstr(tx_in.witness[-1]))\n        if hash_type & SIGHASH_SINGLE == SIGHASH_SINGLE:\n            s += sha256(self.tx_outs[input_index].serialize())\n",
      "        if hash_type & SIGHASH_SINGLE == SIGHASH_SINGLE:\n            s += sha256(self.tx_outs[input_index].serialize())\n        if tx_in.witness.has_annex():\n            s += sha256(encode_varstr(tx_in.witness[-1]))\n", ["C05.4"], "single output before annex"),
    M("bip341-spendtype", "tx.py", "        spend_type = ext_flag * 2\n", "        spend_type = ext_flag\n", ["C05.4"], "spend_type = ext_flag + annex"),
    M("bip341-acp-amount", "tx.py", "            s += int_to_little_endian(tx_in.value(), 8)\n            s += tx_in.script_pubkey().serialize()\n", "            s += tx_in.script_pubkey().serialize()\n            s += int_to_little_endian(tx_in.value(), 8)\n", ["C05.4"], "ACP block: amount and scriptPubKey swapped"),
    M("bip341-keyversion", "tx.py", "            s += tapleaf_hash + b\"\\x00\\xff\\xff\\xff\\xff\"", "            s += tapleaf_hash + b\"\\x01\\xff\\xff\\xff\\xff\"", ["C05.4"], "key_version 01"),
    M("dispatch-p2wsh-legacy", "tx.py", "            or script_pubkey.is_p2wsh()\n            or (redeem_script and redeem_script.is_p2wsh())\n        ):", "            or (redeem_script and redeem_script.is_p2wsh())\n        ):", ["C05.5"], "native p2wsh hashed with the legacy algorithm"),
    M("memo-reintroduced", "tx.py", "    def hash_outputs(self):\n        all_outputs = b\"\"\n        for tx_out in self.tx_outs:\n            all_outputs += tx_out.serialize()\n        return hash256(all_outputs)\n",
      "    def hash_outputs(self):\n        if getattr(self, \"_hash_outputs\", None) is None:\n            all_outputs = b\"\"\n            for tx_out in self.tx_outs:\n                all_outputs += tx_out.serialize()\n            self._hash_outputs = hash256(all_outputs)\n        return self._hash_outputs\n", ["C05.6", "C05.7"], "cache reintroduced without invalidation"),
    M("midstate-wrong-field", "tx.py", "    def sha_sequences(self):\n        all_sequence = b\"\"\n        for tx_in in self.tx_ins:\n            all_sequence += tx_in.sequence.serialize()", "    def sha_sequences(self):\n        all_sequence = b\"\"\n        for tx_in in self.tx_ins:\n            all_sequence += int_to_little_endian(tx_in.prev_index, 4)", ["C05.4"], "sha_sequences hashes the output indexes"),
]

MUTANTS["C06"] = [
    M("multisig-fallthrough", "op.py", "            else:\n                # we ran out of points without verifying this signature\n                print(\"signatures no good or not in right order\")\n                return False\n", "", ["C06.1"], "key exhaustion no longer fails"),
    M("checksig-polarity", "op.py", "    if point.verify(z, sig):\n        stack.append(encode_num(1))\n    else:\n        stack.append(encode_num(0))\n    return True\n\n\ndef op_checksigverify(", "    if point.verify(z, sig):\n        stack.append(encode_num(1))\n    else:\n        stack.append(encode_num(1))\n    return True\n\n\ndef op_checksigverify(", ["C06.2"], "failed verification pushes 1"),
    M("checksigadd-increment", "op.py", "        stack.append(encode_num(n + 1))\n    else:\n        stack.append(encode_num(n))", "        stack.append(encode_num(n + 1))\n    else:\n        stack.append(encode_num(n + 1))", ["C06.2"], "CHECKSIGADD counts failed signatures"),
    M("p2sh-no-verify", "script.py", "                    if not op_verify(stack):\n                        print(\"bad p2sh h160\")\n                        return False\n", "                    op_verify(stack)\n", ["C06.3"], "P2SH hash mismatch ignored"),
    M("p2wsh-no-commit", "script.py", "                    if s256 != sha256(witness_script):\n", "                    if False and s256 != sha256(witness_script):\n", ["C06.4"], "witness script hash not enforced"),
    M("annex-one-item", "witness.py", "        return len(self.items) > 1 and self.items[-1][:1] == b\"\\x50\"", "        return len(self.items) > 0 and self.items[-1][:1] == b\"\\x50\"", ["C06.5", "C06.6"], "single-item annex"),
    M("tap-no-parity", "script.py", "                        if tweak_point.parity != control_block.parity:\n                            print(\"bad tweak point parity\")\n                            return False\n", "", ["C06.7"], "control block parity not checked"),
    M("tap-no-xonly", "script.py", "                        if tweak_point.xonly() != stack.pop():\n                            print(\"bad tweak point\")\n                            return False\n", "                        stack.pop()\n", ["C06.7"], "tap commitment not compared"),
    M("bip141-removed", "tx.py", "        if tx_in.script_sig.commands and (\n            script_pubkey.is_p2wpkh() or script_pubkey.is_p2wsh() or script_pubkey.is_p2tr()\n        ):\n            return False\n", "", ["C06.8"], "empty-scriptSig rule removed"),
    M("verify-skip-first", "tx.py", "        for i in range(len(self.tx_ins)):\n            if not self.verify_input(i):", "        for i in range(1, len(self.tx_ins)):\n            if not self.verify_input(i):", ["C06.9"], "input 0 never verified"),
    M("template-p2wsh-len", "script.py", "            and isinstance(self.commands[1], bytes)\n            and len(self.commands[1]) == 32\n        )\n\n    def is_p2tr", "            and isinstance(self.commands[1], bytes)\n            and len(self.commands[1]) == 20\n        )\n\n    def is_p2tr", ["C06.10"], "is_p2wsh matches 20-byte programs"),
    T("annex-ge2", "witness.py", "        return len(self.items) > 1 and self.items[-1][:1] == b\"\\x50\"", "        return len(self.items) >= 2 and self.items[-1][:1] == b\"\\x50\"", ["C06.5", "C06.6"], "same bound, other spelling"),
]

MUTANTS["C07"] = [
    M("sub-swapped", "op.py", "    stack.append(encode_num(element2 - element1))", "    stack.append(encode_num(element1 - element2))", ["C07.2"], "SUB operands swapped"),
    M("lessthan-flip", "op.py", "    if element2 < element1:\n        stack.append(encode_num(1))", "    if element2 <= element1:\n        stack.append(encode_num(1))", ["C07.2"], "LESSTHAN is <="),
    M("within-closed", "op.py", "    if element >= minimum and element < maximum:", "    if element >= minimum and element <= maximum:", ["C07.2"], "WITHIN upper bound inclusive"),
    M("min-max-table-swap", "op.py", "    163: op_min,\n    164: op_max,\n    165: op_within,\n    166: op_ripemd160,\n    167: op_sha1,\n    168: op_sha256,\n    169: op_hash160,\n    170: op_hash256,\n    172: op_checksig,\n",
      "    163: op_max,\n    164: op_min,\n    165: op_within,\n    166: op_ripemd160,\n    167: op_sha1,\n    168: op_sha256,\n    169: op_hash160,\n    170: op_hash256,\n    172: op_checksig,\n", ["C07.2", "C07.7"], "MIN/MAX handlers swapped in the legacy table"),
    M("swap-loses", "op.py", "def op_swap(stack):\n    if len(stack) < 2:\n        return False\n    stack.append(stack.pop(-2))", "def op_swap(stack):\n    if len(stack) < 2:\n        return False\n    stack.append(stack[-2])", ["C07.1"], "SWAP copies instead of moving"),
    M("tuck-position", "op.py", "    stack.insert(-2, stack[-1])", "    stack.insert(-1, stack[-1])", ["C07.1"], "TUCK inserts one place too high"),
    M("2swap-order", "op.py", "    stack[-4:] = stack[-2:] + stack[-4:-2]", "    stack[-4:] = stack[-4:-2] + stack[-2:]", ["C07.1"], "2SWAP is the identity"),
    M("dup-depth", "op.py", "def op_dup(stack):\n    if len(stack) < 1:\n        return False", "def op_dup(stack):\n    if len(stack) < 0:\n        return False", ["C07.1"], "DUP on an empty stack not refused"),
    M("sha1-is-sha256", "op.py", "    stack.append(hashlib.sha1(element).digest())", "    stack.append(hashlib.sha256(element).digest())", ["C07.3"], "OP_SHA1 computes sha256"),
    M("pick-negative", "op.py", "    if n < 0 or len(stack) < n + 1:\n        return False\n    stack.append(stack[-n - 1])", "    if len(stack) < n + 1:\n        return False\n    stack.append(stack[-n - 1])", ["C07.4"], "PICK accepts negative n"),
    M("final-truth", "script.py", "        if decode_num(stack.pop()) == 0:\n            return False", "        if stack.pop() == b\"\":\n            return False", ["C07.5"], "final test by byte equality"),
    M("notif-polarity", "op.py", "    if decode_num(element) == 0:\n        items[:0] = true_items\n    else:\n        items[:0] = false_items", "    if decode_num(element) == 0:\n        items[:0] = false_items\n    else:\n        items[:0] = true_items", ["C07.6"], "NOTIF behaves like IF"),
    M("success-removed", "op.py", "    137: op_success,\n    138: op_success,\n", "    137: op_success,\n", ["C07.7"], "OP_SUCCESS 138 missing from the tapscript table"),
    M("tapscript-legacy-checksig", "op.py", "    172: op_checksig_schnorr,\n", "    172: op_checksig,\n", ["C07.7"], "tapscript CHECKSIG uses ECDSA"),
    M("arity-group", "script.py", "                elif command in (172, 173, 174, 175, 177, 178, 186):", "                elif command in (172, 173, 174, 175, 177, 186):", ["C07.8"], "CSV called without the transaction"),
    M("cltv-no-type", "op.py", "    if not locktime.is_comparable(stack_locktime):\n        return False\n", "", ["C07.9"], "CLTV type test removed"),
    M("cltv-final", "op.py", "    if sequence == MAX_SEQUENCE:\n        return False\n", "", ["C07.9"], "CLTV with final sequence succeeds"),
    M("csv-flag-late", "op.py", "    if element & SEQUENCE_DISABLE_RELATIVE_FLAG:\n        return True\n    if tx_obj.version < 2:\n        return False\n", "    if tx_obj.version < 2:\n        return False\n    if element & SEQUENCE_DISABLE_RELATIVE_FLAG:\n        return True\n", ["C07.10"], "disable flag tested after the version"),
    M("csv-version", "op.py", "    if tx_obj.version < 2:\n        return False\n", "    if tx_obj.version < 1:\n        return False\n", ["C07.10"], "CSV allowed for version 1"),
    M("time-flag", "timelock.py", "SEQUENCE_RELATIVE_TIME_FLAG = 1 << 22", "SEQUENCE_RELATIVE_TIME_FLAG = 1 << 23", ["C07.11"], "relative time flag on bit 23"),
    M("opcode-offset", "op.py", "    if n == 0:\n        return 0\n    return n + 80", "    if n == 0:\n        return 0\n    return n + 81", ["C07.12"], "number opcode offset"),
    T("add-commuted", "op.py", "    stack.append(encode_num(element1 + element2))", "    stack.append(encode_num(element2 + element1))", ["C07.2"], "ADD operands commuted"),
    T("greaterthan-mirrored", "op.py", "    if element2 > element1:\n        stack.append(encode_num(1))", "    if element1 < element2:\n        stack.append(encode_num(1))", ["C07.2"], "mirrored comparison"),
    T("numnotequal-arms", "op.py", "    if element1 == element2:\n        stack.append(encode_num(0))\n    else:\n        stack.append(encode_num(1))\n    return True\n\n\ndef op_lessthan", "    if element1 != element2:\n        stack.append(encode_num(1))\n    else:\n        stack.append(encode_num(0))\n    return True\n\n\ndef op_lessthan", ["C07.2"], "arms exchanged with the test negated"),
]

MUTANTS["C08"] = [
    M("pub-hardened", "hd.py", "        if index >= 0x80000000:\n            raise ValueError(\"child number should always be less than 2^31\")", "        if index > 0x80000000:\n            raise ValueError(\"child number should always be less than 2^31\")", ["C08.1"], "public derivation of index 2^31"),
    M("priv-threshold", "hd.py", "        if index >= 0x80000000:\n            # the message data is the private key secret", "        if index > 0x80000000:\n            # the message data is the private key secret", ["C08.2"], "2^31 derived as non-hardened"),
    M("hmac-index-le", "hd.py", "            data = self.private_key.point.sec() + int_to_big_endian(index, 4)", "            data = self.private_key.point.sec() + int_to_big_endian(index, 8)", ["C08.3"], "index serialized as 8 bytes in the private normal arm"),
    M("xpub-child-width", "hd.py", "        raw += int_to_big_endian(self.child_number, 4)\n        # add the chain code\n        raw += self.chain_code\n        # add the SEC pubkey", "        raw += int_to_big_endian(self.child_number, 8)\n        # add the chain code\n        raw += self.chain_code\n        # add the SEC pubkey", ["C08.4"], "xpub child number 8 bytes"),
    M("xprv-parse-endian", "hd.py", "        child_number = big_endian_to_int(s.read(4))\n        # next 32 bytes are the chain code\n        chain_code = s.read(32)\n        # the next byte should be b'\\x00'", "        child_number = little_endian_to_int(s.read(4))\n        # next 32 bytes are the chain code\n        chain_code = s.read(32)\n        # the next byte should be b'\\x00'", ["C08.4"], "xprv child number parsed little-endian"),
    M("slip132", "hd.py", "\"0488b21e\", \"049d7cb2\", \"04b24746\"", "\"0488b21e\", \"049d7cb2\", \"04b24747\"", ["C08.5"], "zpub version altered"),
    M("pub-traverse-hardened", "hd.py", "            if child[-1:] == \"'\":\n                raise ValueError(\"HDPublicKey cannot get hardened child\")\n", "            if child[-1:] == \"'\":\n                child = child[:-1]\n", ["C08.6"], "hardened marker stripped instead of refused"),
    M("traverse-prefix", "hd.py", "        # accept path in uppercase and/or using h instead of '\n        path = path.lower().replace(\"h\", \"'\")\n\n        if not path.startswith(\"m\"):\n            raise ValueError(f\"Invalid Path: {path}\")\n\n        # start current node at self",
      "        if not path.startswith(\"m\"):\n            raise ValueError(f\"Invalid Path: {path}\")\n\n        # accept path in uppercase and/or using h instead of '\n        path = path.lower().replace(\"h\", \"'\")\n\n        # start current node at self", ["C08.7"], "prefix tested before normalisation"),
    M("blind-depth", "blinding.py", "    if starting_xpub_obj.depth != starting_path.count(\"/\"):", "    if starting_xpub_obj.depth > starting_path.count(\"/\"):", ["C08.8"], "depth mismatch partly accepted"),
    M("seed-key", "hd.py", "        h = hmac_sha512(b\"Bitcoin seed\", seed)", "        h = hmac_sha512(b\"bitcoin seed\", seed)", ["C08.9"], "HMAC key lower-case"),
    M("child-chain-code", "hd.py", "        point = self.point + big_endian_to_int(h[:32])\n        # chain code is the last 32 bytes\n        chain_code = h[32:]", "        point = self.point + big_endian_to_int(h[:32])\n        # chain code is the last 32 bytes\n        chain_code = h[:32]", ["C08.10"], "public child chain code = I_L"),
]

MUTANTS["C09"] = [
    M("b58-no-checksum", "helper.py", "    if hash256(combined[:-4])[:4] != checksum:\n        raise RuntimeError(\"bad address: {} {}\".format(checksum, hash256(combined)[:4]))\n", "", ["C09.1"], "Base58Check checksum not verified"),
    M("b58-checksum-3", "helper.py", "    checksum = hash256(raw)[:4]", "    checksum = hash256(raw)[:3]", ["C09.1"], "encoder appends 3 checksum bytes"),
    M("bech32-no-verify", "bech32.py", "    if not verify_fnc(hrp, data):\n        raise ValueError(f\"bad address: {s}\")\n", "", ["C09.2"], "bech32 checksum not verified"),
    M("bech32-len41", "bech32.py", "    if num_bytes < 2 or num_bytes > 40:", "    if num_bytes < 2 or num_bytes > 41:", ["C09.2"], "41-byte program accepted"),
    M("bech32m-selection", "bech32.py", "    verify_fnc = bech32_verify_checksum if version == 0 else bech32m_verify_checksum", "    verify_fnc = bech32_verify_checksum if version <= 1 else bech32m_verify_checksum", ["C09.3"], "version 1 verified with bech32"),
    M("bech32m-const", "bech32.py", "BECH32M_CONSTANT = 0x2BC830A3", "BECH32M_CONSTANT = 0x2BC830A2", ["C09.4"], "bech32m constant"),
    M("p2sh-version", "script.py", "            prefix = b\"\\x05\"\n", "            prefix = b\"\\x06\"\n", ["C09.5"], "mainnet p2sh version byte"),
    M("lead-chars", "script.py", "    elif s[:1] in (\"2\", \"3\"):", "    elif s[:1] in (\"2\", \"3\", \"4\"):", ["C09.5"], "leading character 4 routed to p2sh"),
    M("hrp-regtest", "tx.py", "            or address.startswith(\"bcrt1\")\n", "", ["C09.6"], "regtest HRP rejected by to_address"),
    M("wif-version", "pecc.py", "        elif raw[0] == 0x80:\n            network = \"mainnet\"\n        else:\n            raise ValueError(\"Invalid WIF\")", "        elif raw[0] == 0x80:\n            network = \"mainnet\"\n        else:\n            network = \"mainnet\"", ["C09.5"], "unknown WIF version accepted"),
]

MUTANTS["C10"] = [
    M("unsigned-tx-segwit", "psbt.py", "PSBT_GLOBAL_UNSIGNED_TX, self.tx_obj.serialize_legacy()", "PSBT_GLOBAL_UNSIGNED_TX, self.tx_obj.serialize()", ["C10.1"], "unsigned tx in witness format"),
    M("sighash-width", "psbt.py", "PSBT_IN_SIGHASH_TYPE, int_to_little_endian(self.hash_type, 4)", "PSBT_IN_SIGHASH_TYPE, int_to_big_endian(self.hash_type, 4)", ["C10.2"], "sighash type big-endian"),
    M("redeem-serialize", "psbt.py", "                PSBT_IN_REDEEM_SCRIPT, self.redeem_script.raw_serialize()", "                PSBT_IN_REDEEM_SCRIPT, self.redeem_script.serialize()", ["C10.2"], "redeem script double length prefix"),
    M("type-const", "psbt.py", "PSBT_IN_WITNESS_SCRIPT = b\"\\x05\"", "PSBT_IN_WITNESS_SCRIPT = b\"\\x0a\"", ["C10.3"], "witness script key type"),
    M("unsorted-extra", "psbt.py", "        for key in sorted(self.extra_map.keys()):\n            result += serialize_key_value(key, self.extra_map[key])", "        for key in self.extra_map.keys():\n            result += serialize_key_value(key, self.extra_map[key])", ["C10.4"], "global unknowns in insertion order"),
    M("unsorted-sigs", "psbt.py", "            keys = sorted(self.sigs.keys())", "            keys = self.sigs.keys()", ["C10.4"], "partial signatures in insertion order"),
    M("dup-witness-utxo", "psbt.py", "                if prev_out:\n                    raise KeyError(f\"Duplicate Key in parsing: {key.hex()}\")\n", "", ["C10.5"], "duplicate witness UTXO accepted"),
    M("keylen-redeem", "psbt.py", "            elif psbt_type == PSBT_IN_REDEEM_SCRIPT:\n                if len(key) != 1:\n                    raise KeyError(\"Wrong length for the key\")\n", "            elif psbt_type == PSBT_IN_REDEEM_SCRIPT:\n", ["C10.5"], "key length of redeem script not checked"),
    M("sig-not-verified", "psbt.py", "                        if not self.tx_obj.check_sig_legacy(\n                            i, point, signature, psbt_in.redeem_script\n                        ):\n                            raise ValueError(\n                                f\"legacy signature provided does not validate {self}\"\n                            )\n", "                        pass\n", ["C10.6"], "legacy partial signatures not verified"),
    M("final-no-verify", "psbt.py", "        if not tx_obj.verify():\n            raise RuntimeError(\"transaction invalid\")\n", "", ["C10.7"], "final_tx returns unverified transactions"),
    M("p2sh-threshold", "psbt.py", "            if len(script_sig_commands) - 1 < num_sigs:", "            if len(script_sig_commands) < num_sigs:", ["C10.8"], "p2sh arm counts the dummy"),
    M("combine-any", "psbt.py", "        if self.tx_obj.hash() != other.tx_obj.hash():\n            raise ValueError(\n                \"cannot combine PSBTs that refer to different transactions\"\n            )\n", "", ["C10.9"], "combine across transactions"),
    T("sorted-items", "psbt.py", "        for key in sorted(self.extra_map.keys()):\n            result += serialize_key_value(key, self.extra_map[key])", "        for key in sorted(self.extra_map):\n            result += serialize_key_value(key, self.extra_map[key])", ["C10.4"], "sorted(dict) instead of sorted(dict.keys())"),
]

MUTANTS["C11"] = [
    M("out-redeem-hash", "psbt.py", "            if self.redeem_script.hash160() != script_pubkey.commands[1]:\n                raise ValueError(\n                    \"RedeemScript hash160 and ScriptPubKey hash160 do not match\"\n                )\n            if self.redeem_script.is_p2wpkh():", "            if self.redeem_script.is_p2wpkh():", ["C11.1"], "output redeem script not hashed"),
    M("in-witness-nonwitness", "psbt.py", "            if self.witness_script:\n                raise ValueError(\"WitnessScript provided without a witness UTXO\")\n", "", ["C11.1"], "witness script with non-witness UTXO unchecked"),
    M("quorum-n", "psbt.py", "                if expected_quorum_n != output_quorum_n:\n                    raise SuspiciousTransaction(\n                        f\"Previous input(s) set a max cosigners of {expected_quorum_n}, but this transaction is {output_quorum_n}\"\n                    )\n", "", ["C11.2"], "change quorum n not compared"),
    M("rederive", "psbt.py", "                    if hdpub.traverse(trimmed_path).sec() != named_pub.sec():\n                        raise SuspiciousTransaction(\n                            f\"xpub {hdpub} with path {named_pub.root_path} does not appear to be part of output # {cnt}\"", "                    if False:\n                        raise SuspiciousTransaction(\n                            f\"xpub {hdpub} with path {named_pub.root_path} does not appear to be part of output # {cnt}\"", ["C11.2"], "change keys not re-derived"),
    M("distinct", "psbt.py", "                    if xfp in xfps_seen:\n                        raise SuspiciousTransaction(\n                            f\"Root fingerprint {xfp} supplies more than one key of output #{cnt}\"\n                        )\n                    xfps_seen.add(xfp)\n", "", ["C11.3"], "distinct-cosigner check removed"),
    M("second-change", "psbt.py", "                if change_sats or change_addr:\n                    raise SuspiciousTransaction(\n                        f\"Cannot have >1 change output.\\n{outputs_desc}\"\n                    )\n", "", ["C11.4"], "second change output accepted"),
    M("spend-accounting", "psbt.py", "                spends_cnt += 1\n                spend_sats += output_desc[\"sats\"]\n", "                spends_cnt += 1\n", ["C11.5"], "spend amount not accumulated"),
    M("describe-no-validate", "psbt.py", "        self.validate()\n\n        tx_fee_sats = self.tx_obj.fee()\n\n        if not hdpubkey_map:", "        tx_fee_sats = self.tx_obj.fee()\n\n        if not hdpubkey_map:", ["C11.6"], "summary without validate()"),
    M("prev-index", "psbt.py", "            if self.tx_in.prev_index >= len(self.prev_tx.tx_outs):\n                raise ValueError(\"input refers to an output index that does not exist\")\n", "", ["C11.7"], "output index of the previous tx unchecked"),
    M("helper-amount", "psbt_helper.py", "        if prev_tx_dict[\"output_sats\"] != utxo.amount:", "        if prev_tx_dict[\"output_sats\"] < utxo.amount:", ["C11.8"], "declared amount may exceed the UTXO"),
    M("helper-fee", "psbt_helper.py", "    if fee_sats != calculated_fee_sats:\n        raise ValueError(\n            f\"TX fee of {fee_sats} sats supplied != {calculated_fee_sats} sats calculated\"\n        )\n", "", ["C11.8"], "fee cross-check removed"),
]

MUTANTS["C12"] = [
    M("branch-unsorted", "taproot.py", "        if left_hash < right_hash:\n            return hash_tapbranch(left_hash + right_hash)\n        else:\n            return hash_tapbranch(right_hash + left_hash)", "        if left_hash < right_hash:\n            return hash_tapbranch(right_hash + left_hash)\n        else:\n            return hash_tapbranch(left_hash + right_hash)", ["C12.1"], "tree hashes larger first"),
    M("cb-unsorted", "taproot.py", "            if current < h:\n                current = hash_tapbranch(current + h)\n            else:\n                current = hash_tapbranch(h + current)", "            current = hash_tapbranch(current + h)", ["C12.1"], "control block verification does not sort"),
    M("leaf-layout", "taproot.py", "            int_to_byte(self.tapleaf_version) + self.tap_script.serialize()", "            int_to_byte(self.tapleaf_version) + self.tap_script.raw_serialize()", ["C12.2"], "leaf hash without compact size"),
    M("cb-maxlen", "taproot.py", "        if b_len < 33 or b_len > 33 + 128 * 32:", "        if b_len < 33 or b_len > 33 + 129 * 32:", ["C12.3"], "129 path hashes accepted"),
    M("cb-slices", "taproot.py", "        hashes = [b[33 + 32 * i : 65 + 32 * i] for i in range(m)]", "        hashes = [b[33 + 32 * i : 64 + 32 * i] for i in range(m)]", ["C12.3"], "31-byte hash slices"),
    M("tweak-not-even", "pecc.py", "        external_key = self.even_point() + t", "        external_key = self + t", ["C12.4"], "public tweak without even-Y normalisation"),
    M("priv-tweak-raw", "pecc.py", "    def tweaked_key(self, merkle_root=b\"\"):\n        e = self.even_secret()", "    def tweaked_key(self, merkle_root=b\"\"):\n        e = self.secret", ["C12.4"], "private tweak without even-secret"),
    M("cb-parity-internal", "taproot.py", "        return ControlBlock(\n            leaf.tapleaf_version,\n            external_pubkey.parity,", "        return ControlBlock(\n            leaf.tapleaf_version,\n            internal_pubkey.parity,", ["C12.5"], "control block stores the internal key's parity"),
    M("path-sibling", "taproot.py", "            return [*self.left.path_hashes(leaf), self.right.hash()]", "            return [*self.left.path_hashes(leaf), self.left.hash()]", ["C12.5"], "path uses the own side's hash"),
]

MUTANTS["C13"] = [
    M("musig-unsorted", "taproot.py", "        xonlys = sorted([p.xonly() for p in points])\n        self.points = [S256Point.parse_xonly(b) for b in xonlys]\n        self.commitment", "        xonlys = [p.xonly() for p in points]\n        self.points = [S256Point.parse_xonly(b) for b in xonlys]\n        self.commitment", ["C13.1"], "MuSig keys in caller order"),
    M("musig-no-selfverify", "taproot.py", "        if not external_pubkey.verify_schnorr(sig_hash, schnorrsig):\n            raise ValueError(\"Invalid signature\")\n", "", ["C13.2"], "aggregate not self-verified"),
    M("tree-k", "taproot.py", "        for pubkeys in combinations(self.points, self.k):\n            tap_script = MultiSigTapScript(pubkeys, self.k, locktime, sequence)", "        for pubkeys in combinations(self.points, self.k):\n            tap_script = MultiSigTapScript(pubkeys, self.k - 1, locktime, sequence)", ["C13.3"], "leaf threshold below subset size"),
    M("tree-subset-points", "taproot.py", "            tap_script = MuSigTapScript(pubkeys, locktime=locktime, sequence=sequence)", "            tap_script = MuSigTapScript(self.points, locktime=locktime, sequence=sequence)", ["C13.3"], "every musig leaf uses all keys"),
    M("challenge-msg", "taproot.py", "            msg = r.xonly() + external_pubkey.xonly() + sig_hash\n            challenge = big_endian_to_int(hash_challenge(msg)) % N\n            if external_pubkey.parity:", "            msg = external_pubkey.xonly() + r.xonly() + sig_hash\n            challenge = big_endian_to_int(hash_challenge(msg)) % N\n            if external_pubkey.parity:", ["C13.4"], "aggregator hashes P||R||m"),
]

MUTANTS["C14"] = [
    M("word-count", "mnemonic.py", "    if len(words) not in (12, 15, 18, 21, 24):", "    if len(words) not in (12, 15, 16, 18, 21, 24):", ["C14.1", "C14.2"], "16 words accepted"),
    M("no-checksum", "mnemonic.py", "    if checksum != computed_checksum:\n        raise InvalidChecksumWordsError(\"Checksum is wrong\")\n", "", ["C14.1"], "checksum not verified"),
    M("cs-formula", "mnemonic.py", "    num_checksum_bits = num_words // 3\n", "    num_checksum_bits = num_words // 4\n", ["C14.2"], "checksum length formula"),
    M("kdf-rounds", "helper.py", "PBKDF2_ROUNDS = 2048", "PBKDF2_ROUNDS = 2047", ["C14.4"], "2047 rounds"),
    M("kdf-salt", "hd.py", "        salt = b\"mnemonic\" + password", "        salt = b\"Mnemonic\" + password", ["C14.4"], "salt prefix"),
    M("kdf-no-validate", "hd.py", "        mnemonic_to_bytes(mnemonic)\n        # normalize in case", "        # normalize in case", ["C14.4"], "mnemonic not validated before use"),
    M("pbkdf2-loop", "pbkdf2.py", "        for j in xrange(2, 1 + self.__iterations):", "        for j in xrange(1, 1 + self.__iterations):", ["C14.5"], "one PRF application too many"),
    M("gen-no-selfcheck", "mnemonic.py", "    if mnemonic_to_bytes(mnemonic) != s:\n        raise RuntimeError(\"Generated mnemonic does not correspond to random bits\")\n", "", ["C14.6"], "generator self-check removed"),
    {"name": "wordlist-swap", "edits": [("buidl/bip39_words.txt", "abandon\nability\n", "ability\nabandon\n")], "expect": "violation", "obligations": ["C14.3"], "what": "two words exchanged in the list"},
]

MUTANTS["C15"] = [
    M("parse-no-checksum", "shamir.py", "        if not rs1024_verify_checksum(b\"shamir\", indices):\n            raise ValueError(\"Invalid Checksum\")\n", "", ["C15.1"], "share checksum not verified"),
    M("digest-unchecked", "shamir.py", "        if digest != cls.digest(random, shared_secret):\n            raise ValueError(\"Digest does not match secret\")\n", "", ["C15.2"], "digest share ignored"),
    M("group-threshold", "shamir.py", "        elif self.group_threshold > len(share_data):\n            raise ValueError(\"Not enough shares\")\n", "", ["C15.3"], "group threshold not enforced"),
    M("member-threshold-ge", "shamir.py", "            elif member_threshold > len(group):\n                raise ValueError(\"Not enough shares\")", "            elif member_threshold > len(group) + 1:\n                raise ValueError(\"Not enough shares\")", ["C15.3"], "member threshold off by one"),
    M("mixed-ids", "shamir.py", "            if len(ids) != 1:\n                raise TypeError(\"Shares are from different secrets\")\n", "", ["C15.4"], "shares of different secrets accepted"),
    M("round-order", "shamir.py", "        indices = (b\"\\x03\", b\"\\x02\", b\"\\x01\", b\"\\x00\")", "        indices = (b\"\\x00\", b\"\\x01\", b\"\\x02\", b\"\\x03\")", ["C15.5"], "decrypt runs rounds forward"),
    M("iterations", "shamir.py", "                2500 << exponent,", "                2500 << (exponent + 1),", ["C15.5"], "iteration count doubled"),
    M("digest-x", "shamir.py", "            share_data.append((254, digest_share))\n            share_data.append((255, secret))", "            share_data.append((255, digest_share))\n            share_data.append((254, secret))", ["C15.6"], "digest and secret points exchanged when splitting"),
    M("gen-const", "shamir.py", "        0x3F3F120,\n    ]", "        0x3F3F121,\n    ]", ["C15.6"], "RS1024 generator altered"),
    M("n-17", "shamir.py", "        if n > 16:\n            raise ValueError(\"N is too big, must be 16 or less\")", "        if n > 17:\n            raise ValueError(\"N is too big, must be 16 or less\")", ["C15.7"], "17 shares allowed"),
    M("header-parse", "shamir.py", "        member_index = (indices[3] >> 4) & 15", "        member_index = (indices[3] >> 5) & 15", ["C15.8"], "member index read from the wrong bits"),
]

MUTANTS["C16"] = [
    M("gen", "descriptor.py", "        c ^= 0x3706B1677A", "        c ^= 0x3706B1677B", ["C16.1"], "generator constant"),
    M("charset", "descriptor.py", "DESCRIPTOR_CHECKSUM_CHARSET = \"qpzry9x8gf2tvdw0s3jn54khce6mua7l\"", "DESCRIPTOR_CHECKSUM_CHARSET = \"qpzry9x8gf2tvdw0s3jn54khce6mua7\"", ["C16.1"], "checksum charset truncated"),
    M("checksum-unchecked", "descriptor.py", "            if calculated_checksum != checksum:\n                raise ValueError(\n                    f\"Calculated checksum `{calculated_checksum}` != supplied checksum `{checksum}`\"\n                )\n", "            pass\n", ["C16.2"], "supplied checksum ignored"),
    M("regex-7", "descriptor.py", "(\\#[qpzry9x8gf2tvdw0s3jn54khce6mua7l]{8})?", "(\\#[qpzry9x8gf2tvdw0s3jn54khce6mua7l]{7})?", ["C16.3"], "7-character checksum"),
    M("unsorted-children", "descriptor.py", "            commands.extend([bytes.fromhex(x) for x in sorted(sec_hexes_to_use)])", "            commands.extend([bytes.fromhex(x) for x in sec_hexes_to_use])", ["C16.4"], "child keys not BIP67-sorted"),
    M("change-branch", "descriptor.py", "                account = key_record[\"account_index\"] + 1", "                account = key_record[\"account_index\"] + 0", ["C16.5"], "change branch equals receive branch"),
    M("m-gt-n", "descriptor.py", "        if quorum_m_int > len(key_records):", "        if quorum_m_int > len(key_records) + 1:", ["C16.6"], "m = n + 1 accepted"),
]

MUTANTS["C17"] = [
    M("no-dup", "helper.py", "    if len(hashes) % 2 == 1:\n        hashes.append(hashes[-1])\n", "", ["C17.1"], "odd level not completed"),
    M("float-depth", "merkleblock.py", "        self.max_depth = (self.total - 1).bit_length()", "        self.max_depth = math.ceil(math.log(self.total, 2))", ["C17.2"], "float log"),
    M("leftover-hashes", "merkleblock.py", "        if len(hashes) != 0:\n            raise RuntimeError(f\"hashes not all consumed {len(hashes)}\")\n", "", ["C17.3"], "extra hashes accepted"),
    M("is-valid-true", "merkleblock.py", "        return self.merkle_tree.root()[::-1] == self.header.merkle_root", "        return self.merkle_tree.root() is not None", ["C17.4"], "proof verdict not tied to the header root"),
    M("header-order", "block.py", "        result += self.prev_block[::-1]\n        # merkle_root - 32 bytes, little endian\n        result += self.merkle_root[::-1]", "        result += self.merkle_root[::-1]\n        # merkle_root - 32 bytes, little endian\n        result += self.prev_block[::-1]", ["C17.5"], "prev block and merkle root exchanged"),
    M("pow-lt", "block.py", "        return proof <= target\n", "        return proof < target\n", ["C17.6"], "hash == target rejected"),
    M("pow-be", "block.py", "        proof = little_endian_to_int(h256)", "        proof = big_endian_to_int(h256)", ["C17.6"], "hash read big-endian"),
    M("bits-float", "helper.py", "    if exponent <= 3:\n        # small exponents shift the coefficient down instead of producing a float\n        return coefficient >> (8 * (3 - exponent))\n", "", ["C17.7"], "small exponents yield floats"),
    M("clamp", "helper.py", "    if time_differential > TWO_WEEKS * 4:\n        time_differential = TWO_WEEKS * 4", "    if time_differential > TWO_WEEKS * 8:\n        time_differential = TWO_WEEKS * 4", ["C17.8"], "upper clamp at 16 weeks"),
    M("no-max-target", "helper.py", "    if new_target > MAX_TARGET:\n        new_target = MAX_TARGET\n", "", ["C17.8"], "MAX_TARGET cap removed"),
    M("headers-linkage", "network.py", "            if last_block and h.prev_block != last_block:\n                return False\n", "", ["C17.9"], "header linkage not checked"),
    M("bitfield-msb", "helper.py", "            flag_bits.append(byte & 1)\n            # rightshift the byte 1\n            byte >>= 1", "            flag_bits.append((byte & 128) >> 7)\n            # leftshift the byte 1\n            byte = (byte << 1) & 255", ["C17.10"], "flag bits read MSB-first"),
]

MUTANTS["C18"] = [
    M("golomb-m", "compactfilter.py", "GOLOMB_M = int(round(1.497137 * 2**GOLOMB_P))", "GOLOMB_M = int(round(1.497137 * 2**GOLOMB_P)) + 1", ["C18.1"], "M altered in compactfilter only"),
    M("f-dedup", "compactfilter.py", "        self.f = len(hashes) * GOLOMB_M\n", "        self.f = len(set(hashes)) * GOLOMB_M\n", ["C18.2"], "range from the de-duplicated set"),
    M("sip-rot", "siphash.py", "    o = (((j << 21) | (j >> 43)) ^ k) & 0xFFFFFFFFFFFFFFFF", "    o = (((j << 22) | (j >> 42)) ^ k) & 0xFFFFFFFFFFFFFFFF", ["C18.3"], "rotation 22 instead of 21"),
    M("sip-mask", "siphash.py", "    e = (a + b) & 0xFFFFFFFFFFFFFFFF", "    e = a + b", ["C18.3"], "sum not reduced to 64 bits before rotation"),
    M("murmur-tail", "helper.py", "    if val in [2, 3]:\n        k1 |= (data[roundedEnd + 1] & 0xFF) << 8", "    if val in [2]:\n        k1 |= (data[roundedEnd + 1] & 0xFF) << 8", ["C18.4"], "tail of length 3 skips byte 1"),
    M("murmur-shift", "helper.py", "    h1 ^= (h1 & 0xFFFFFFFF) >> 13\n", "    h1 ^= (h1 & 0xFFFFFFFF) >> 15\n", ["C18.4"], "fmix shift 15"),
    M("murmur-unmasked", "helper.py", "        h1 = (h1 << 13) | ((h1 & 0xFFFFFFFF) >> 19)  # ROTL32(h1,13)", "        h1 = (h1 << 13) | (h1 >> 19)  # ROTL32(h1,13)", ["C18.4"], "rotation of an unmasked value"),
    M("golomb-lsb", "compactfilter.py", "    result += [x & (1 << (p - i - 1)) > 0 for i in range(p)]", "    result += [x & (1 << i) > 0 for i in range(p)]", ["C18.5"], "remainder written LSB-first"),
    M("chain-order", "compactfilter.py", "            current = hash256(filter_hash + current)", "            current = hash256(current + filter_hash)", ["C18.6"], "filter header chaining order"),
    M("bloom-seed", "bloomfilter.py", "            seed = i * BIP37_CONSTANT + self.tweak", "            seed = (i + 1) * BIP37_CONSTANT + self.tweak", ["C18.7"], "seed index starts at 1"),
]

MUTANTS["C19"] = [
    M("no-magic", "network.py", "        if magic != expected_magic:\n            raise RuntimeError(\n                \"magic is not right {} vs {}\".format(magic.hex(), expected_magic.hex())\n            )\n", "", ["C19.1"], "magic not compared"),
    M("no-checksum", "network.py", "        if calculated_checksum != checksum:\n            raise RuntimeError(\"checksum does not match\")\n", "", ["C19.1"], "checksum not compared"),
    M("short-payload", "network.py", "        if len(payload) != payload_length:\n            raise RuntimeError(\"payload is shorter than the declared length\")\n", "", ["C19.2"], "short reads accepted"),
    M("envelope-len-be", "network.py", "        result += int_to_little_endian(len(self.payload), 4)\n", "        result += len(self.payload).to_bytes(4, \"big\")\n", ["C19.3"], "length written big-endian"),
    M("pong-classmethod", "network.py", "    command = b\"pong\"\n\n    def __init__(self, nonce):\n        self.nonce = nonce\n\n    @classmethod\n    def parse", "    command = b\"pong\"\n\n    def __init__(self, nonce):\n        self.nonce = nonce\n\n    def parse", ["C19.4"], "decorator dropped"),
    M("getheaders-noreverse", "network.py", "        result += self.start_block[::-1]\n", "        result += self.start_block\n", ["C19.5"], "start block in display order"),
    M("version-services-width", "network.py", "        result += int_to_little_endian(self.services, 8)\n", "        result += int_to_little_endian(self.services, 4)\n", ["C19.5"], "services as 4 bytes"),
    M("cfheaders-stop-noreverse", "compactfilter.py", "        filter_type = s.read(1)[0]\n        stop_hash = s.read(32)[::-1]\n        previous_filter_header = s.read(32)", "        filter_type = s.read(1)[0]\n        stop_hash = s.read(32)\n        previous_filter_header = s.read(32)", ["C19.5"], "cfheaders stop hash not reversed"),
    M("getcfilters-height", "compactfilter.py", "    command = b\"getcfilters\"\n    define_network = False\n\n    def __init__(self, filter_type=BASIC_FILTER_TYPE, start_height=1, stop_hash=None):\n        self.filter_type = filter_type\n        self.start_height = start_height\n        if stop_hash is None:\n            raise RuntimeError(\"A stop hash is required\")\n        self.stop_hash = stop_hash\n\n    def serialize(self):\n        result = self.filter_type.to_bytes(1, \"big\")\n        result += int_to_little_endian(self.start_height, 4)",
      "    command = b\"getcfilters\"\n    define_network = False\n\n    def __init__(self, filter_type=BASIC_FILTER_TYPE, start_height=1, stop_hash=None):\n        self.filter_type = filter_type\n        self.start_height = start_height\n        if stop_hash is None:\n            raise RuntimeError(\"A stop hash is required\")\n        self.stop_hash = stop_hash\n\n    def serialize(self):\n        result = self.filter_type.to_bytes(1, \"big\")\n        result += int_to_little_endian(self.start_height, 8)", ["C19.5"], "start height as 8 bytes"),
    M("magic", "network.py", "    \"signet\": b\"\\x0a\\x03\\xcf\\x40\",\n", "    \"signet\": b\"\\x0a\\x03\\xcf\\x41\",\n", ["C19.7"], "signet magic"),
]

MUTANTS["C20"] = [
    T("cbor-255-two-byte", "bech32.py", "    elif length <= 255:\n        prefix = bytes([0x58, length])", "    elif length < 255:\n        prefix = bytes([0x58, length])", ["C20.1"], "length 255 moved to the 2-byte form: non-minimal but exactly inverted"),
    M("cbor-inline-24", "bech32.py", "    if length <= 23:\n        prefix = bytes([0x40 + length])", "    if length <= 24:\n        prefix = bytes([0x40 + length])", ["C20.1"], "length 24 written inline (collides with tag 0x58)"),
    M("cbor-reader-width", "bech32.py", "    if b == 0x59:\n        length = int.from_bytes(s.read(2), \"big\")", "    if b == 0x59:\n        length = int.from_bytes(s.read(4), \"big\")", ["C20.1"], "reader reads 4 bytes after 0x59"),
    M("bc32-const", "bech32.py", "    if bech32_polymod([0] + res) != 0x3FFFFFFF:", "    if bech32_polymod([0] + res) != 0x3FFFFFFE:", ["C20.2"], "decoder constant differs"),
    M("digest-unchecked", "bcur.py", "        if h != calculated_digest:\n            raise ValueError(f\"Calculated digest {calculated_digest} != {h}\")\n", "", ["C20.3"], "digest not compared"),
    M("order-unchecked", "bcur.py", "            if cnt + 1 != entry_x:\n                raise ValueError(\n                    f\"BCUR strings not in order: got {entry_x} and was expecting {cnt+1}\"\n                )\n", "", ["C20.4"], "out-of-order parts accepted"),
    M("y-unchecked", "bcur.py", "            elif entry_y != global_y:\n                raise ValueError(\n                    f\"Entry {bcur_string} wants {entry_y} parts but we're expecting {global_y} parts\"\n                )\n", "", ["C20.4"], "differing part counts accepted"),
    M("single-xy", "bcur.py", "        if x != 1 or y != 1:", "        if x != 1 and y != 1:", ["C20.5"], "single part accepts 1of3"),
]
for _k in ("C01", "C02", "C03", "C04", "C05", "C06", "C07", "C08", "C09", "C10", "C11", "C12", "C13", "C14", "C15", "C16", "C17", "C18", "C19", "C20"):
    MUTANTS.setdefault(_k, [])
