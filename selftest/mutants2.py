"""Additional mutants / twins (second round: written after the seeded-change rounds and the auto-twin survey).
Merged into selftest.mutants.MUTANTS by the runner."""
from selftest.mutants import M, T

EXTRA = {}

EXTRA["C05"] = [
    M("legacy-single-bound-gt", "tx.py", "hash_type & 3 == SIGHASH_SINGLE and input_index >= len(self.tx_outs):", "hash_type & 3 == SIGHASH_SINGLE and input_index > len(self.tx_outs):",
      ["C05.2"], "SIGHASH_SINGLE with input_index == number of outputs hashes a preimage"),
    M("annex-any-length", "witness.py", "len(self.items) > 1 and", "bool(self.items) and", ["C05.10"], "one-element witness starting with 0x50 counts as annex"),
]

EXTRA["C06"] = [
    M("empty-scriptsig-rule-misses-p2tr", "tx.py", "            script_pubkey.is_p2wpkh() or script_pubkey.is_p2wsh() or script_pubkey.is_p2tr()\n", "            script_pubkey.is_witness_script()\n",
      ["C06.8"], "helper predicate knows v0 programs only"),
]

EXTRA["C06"] += [
    M("schnorr-sig-any-length", "op.py", "    elif len(signature) == 64:\n        hash_type = 0\n    else:\n        # BIP341: a signature is 64 or 65 bytes\n        return False\n    sig = SchnorrSignature.parse(signature)\n    msg = tx_obj.sig_hash(input_index, hash_type)\n    if point.verify_schnorr(msg, sig):\n        stack.append(encode_num(1))",
      "    else:\n        hash_type = 0\n    sig = SchnorrSignature.parse(signature)\n    msg = tx_obj.sig_hash(input_index, hash_type)\n    if point.verify_schnorr(msg, sig):\n        stack.append(encode_num(1))",
      ["C06.11"], "signatures of any length other than 65 use the implicit hash type"),
    M("schnorr-explicit-default", "op.py", "        # BIP341: an explicit hash type byte must not be SIGHASH_DEFAULT\n        if hash_type == 0:\n            return False\n        signature = signature[:-1]\n    elif len(signature) == 0:\n        stack.append(encode_num(0))",
      "        signature = signature[:-1]\n    elif len(signature) == 0:\n        stack.append(encode_num(0))", ["C06.11"], "sig || 00 accepted"),
]

EXTRA["C10"] = [
    M("p2sh-p2wpkh-key-vs-script-hash", "psbt.py", "                    if script_pubkey.is_p2wpkh():\n                        h160 = script_pubkey.commands[1]\n                    else:\n                        h160 = self.redeem_script.commands[1]\n",
      "                    h160 = script_pubkey.commands[1]\n", ["C10.12"], "wrapped p2wpkh key compared with the script hash"),
]

EXTRA["C07"] = [
    M("final-truth-any", "script.py", "        if decode_num(stack.pop()) == 0:\n            return False\n", "        if not any(stack.pop()):\n            return False\n", ["C07.5"], "negative zero is truthy"),
]

EXTRA["C08"] = [
    M("child-drops-pub-version", "hd.py", "            priv_version=self.priv_version,\n            pub_version=self.pub.pub_version,\n", "            priv_version=self.priv_version,\n",
      ["C08.10"], "children of a zpub key serialise as xpub"),
]

EXTRA["C09"] = [
    M("wif-flag-from-last-byte", "pecc.py", "        if len(raw) == 34:\n            compressed = True\n            if raw[-1] != 1:\n                raise ValueError(\"Invalid WIF\")\n            raw = raw[:-1]\n        else:\n            compressed = False\n",
      "        compressed = raw.endswith(b\"\\x01\")\n        if compressed:\n            raw = raw[:-1]\n", ["C09.5"], "compression flag from the last byte"),
    M("p2pkh-dispatch-misses-n", "script.py", "    if s[:1] in (\"1\", \"m\", \"n\"):\n", "    if s[:1] in (\"1\", \"m\"):\n", ["C09.5"], "testnet addresses starting with n are not recognised"),
]

EXTRA["C10"] = EXTRA.get("C10", []) + [
    M("sign-break-after-first-input", "psbt.py", "                    signed = True\n        # return whether we signed something\n        return signed\n\n    def combine(",
      "                    signed = True\n                    break\n        # return whether we signed something\n        return signed\n\n    def combine(", ["C10.10"], "a key signs only the first input it unlocks"),
]

EXTRA["C11"] = [
    M("witness-quorum-from-opn", "script.py", "        if int(quorum_n) != len(self.commands) - 3:\n            raise ValueError(f\"OP_n does not match the number of pubkeys: {self}\")\n", "",
      ["C11.9"], "n of a witness script trusted from OP_n"),
    M("redeem-quorum-from-count", "script.py", "        if op_code_to_number(self.commands[-2]) != quorum_n:\n            raise ValueError(f\"OP_n does not match the number of pubkeys: {self}\")\n", "",
      ["C11.9"], "n of a redeem script is the key count, OP_n unchecked"),
]

EXTRA["C12"] = [
    M("merkle-root-cached-blind", "taproot.py", "        # create a TapLeaf from the tap_script and the tapleaf version in the control block\n        leaf = TapLeaf(tap_script, self.tapleaf_version)\n",
      "        if getattr(self, \"_mr\", None) is not None:\n            return self._mr\n        leaf = TapLeaf(tap_script, self.tapleaf_version)\n        self._mr = leaf.hash()\n",
      ["C12.6", "C12.1"], "a value computed from tap_script is cached on the control block and returned for any later script"),
    M("leaf-eq-ignores-version", "taproot.py", "            and self.tapleaf_version == other.tapleaf_version\n", "", ["C12.7"], "leaves with the same script and different versions are equal"),
    T("leaf-eq-via-hash", "taproot.py", "        return (\n            type(self) is type(other)\n            and self.tapleaf_version == other.tapleaf_version\n            and self.tap_script == other.tap_script\n        )\n",
      "        return type(self) is type(other) and self.hash() == other.hash()\n", ["C12.7"], "equality through the commitment itself"),
]

EXTRA["C13"] = [
    M("checksigadd-guarded-by-k", "taproot.py", "        if len(points) > 1:\n            for xonly in xonlys[1:]:\n", "        if k > 1:\n            for xonly in xonlys[1:]:\n",
      ["C13.5"], "1-of-n leaf lists only the first key"),
    T("checksigadd-guarded-by-xonlys", "taproot.py", "        if len(points) > 1:\n            for xonly in xonlys[1:]:\n", "        if len(xonlys) >= 2:\n            for xonly in xonlys[1:]:\n",
      ["C13.5"], "same guard on the sorted list"),
    M("musig-negation-wrong-parity", "taproot.py", "            if external_pubkey.parity:\n                s = (-s_sum - challenge * tweak) % N\n",
      "            if external_pubkey.parity != self.point.parity:\n                s = (-s_sum - challenge * tweak) % N\n", ["C13.6"], "negation decided relative to the untweaked key"),
]

EXTRA["C16"] = [
    M("path-normalised", "descriptor.py", "            xfp_hex = key_record.get(\"xfp\")\n", "            path = path.lower().replace(\"'\", \"h\")\n            xfp_hex = key_record.get(\"xfp\")\n",
      ["C16.2"], "origin path rewritten before text and checksum"),
    M("change-branch-constant", "descriptor.py", "            if is_change is True:\n                account = key_record[\"account_index\"] + 1\n            else:\n                account = key_record[\"account_index\"]\n",
      "            account = 1 if is_change else key_record[\"account_index\"]\n", ["C16.5"], "change branch hard-coded to 1"),
    M("pub-child-top-index", "hd.py", "        if index >= 0x80000000:\n            raise ValueError(\"child number should always be less than 2^31\")\n",
      "        if index >= 0x7FFFFFFF:\n            raise ValueError(\"child number should always be less than 2^31\")\n", ["C16.7"], "index 2^31-1 rejected"),
]

EXTRA["C19"] = [
    M("falsy-default-height", "compactfilter.py", "    def __init__(self, filter_type=BASIC_FILTER_TYPE, start_height=1, stop_hash=None):\n        self.filter_type = filter_type\n        self.start_height = start_height\n",
      "    def __init__(self, filter_type=BASIC_FILTER_TYPE, start_height=None, stop_hash=None):\n        self.filter_type = filter_type\n        self.start_height = start_height or 1\n",
      ["C19.9"], "start height 0 replaced by the default"),
    T("none-default-height", "compactfilter.py", "    def __init__(self, filter_type=BASIC_FILTER_TYPE, start_height=1, stop_hash=None):\n        self.filter_type = filter_type\n        self.start_height = start_height\n",
      "    def __init__(self, filter_type=BASIC_FILTER_TYPE, start_height=None, stop_hash=None):\n        self.filter_type = filter_type\n        self.start_height = 1 if start_height is None else start_height\n",
      ["C19.9"], "None is the not-given marker"),
    M("varint-fd-boundary", "helper.py", "    elif i < 0x10000:\n", "    elif i < 0xFFFF:\n", ["C19.8"], "65535 encoded with the fe tag"),
]

EXTRA["C14"] = [
    M("pbkdf2-int-xor", "pbkdf2.py", "            result = binxor(result, U)\n        return result\n",
      "            result = binxor(result, U)\n        r2 = int.from_bytes(result, \"big\")\n        return r2.to_bytes((r2.bit_length() + 7) // 8, \"big\")\n", ["C14.5"], "block re-encoded with a value-dependent width"),
]

EXTRA["C03"] = [
    M("field-add-cond-sub-gt", "pecc.py", "        num = (self.num + other.num) % self.prime\n",
      "        num = self.num + other.num\n        if num > self.prime:\n            num -= self.prime\n", ["C03.10"], "sum equal to the prime is not reduced"),
    T("field-add-cond-sub-ge", "pecc.py", "        num = (self.num + other.num) % self.prime\n",
      "        num = self.num + other.num\n        if num >= self.prime:\n            num -= self.prime\n", ["C03.10"], "conditional subtraction, correct bound"),
    M("field-ctor-le", "pecc.py", "        if num >= prime or num < 0:\n", "        if num > prime or num < 0:\n", ["C03.10"], "constructor accepts num == prime"),
    M("s256-init-reduces", "pecc.py", "            super().__init__(x=S256Field(x), y=S256Field(y), a=a, b=b)\n",
      "            super().__init__(x=S256Field(x % P), y=S256Field(y % P), a=a, b=b)\n", ["C03.11"], "coordinates >= p folded into the field"),
    M("parse-sec-no-length", "pecc.py", "        if len(sec_bin) != 33:\n            raise ValueError(\"a compressed SEC pubkey is 33 bytes\")\n", "", ["C03.12"], "compressed tag accepted with 65 bytes"),
    T("parse-sec-length-first", "pecc.py", "        if sec_bin[0] not in (2, 3):\n            raise ValueError(f\"Unknown SEC prefix {sec_bin[0]}\")\n        if len(sec_bin) != 33:\n            raise ValueError(\"a compressed SEC pubkey is 33 bytes\")\n",
      "        if len(sec_bin) != 33 or sec_bin[0] not in (2, 3):\n            raise ValueError(f\"Unknown SEC prefix {sec_bin[0]}\")\n", ["C03.12", "C03.1"], "one combined test"),
]

EXTRA["C04"] = [
    M("fetch-cache-before-check", "tx.py", "            tx = Tx.parse(BytesIO(raw), network=network)\n", "            tx = cls.cache[tx_id] = Tx.parse(BytesIO(raw), network=network)\n",
      ["C04.7"], "the response is cached (chained assignment) before its id is compared with the requested id"),
    T("fetch-return-local", "tx.py", "        cls.cache[tx_id].network = network\n        return cls.cache[tx_id]\n",
      "        tx = cls.cache[tx_id]\n        tx.network = network\n        return tx\n", ["C04.7"], "the cache entry is returned through a local"),
]

EXTRA["C02"] = [
    M("xor-int-bitlength", "helper.py", "    return bytes(x ^ y for x, y in zip(a, b))\n",
      "    n = big_endian_to_int(a) ^ big_endian_to_int(b)\n    return int_to_big_endian(n, (n.bit_length() + 7) // 8)\n", ["C02.7"], "xor result loses leading zero bytes"),
    T("xor-int-fixed-width", "helper.py", "    return bytes(x ^ y for x, y in zip(a, b))\n",
      "    n = big_endian_to_int(a) ^ big_endian_to_int(b)\n    return int_to_big_endian(n, len(a))\n", ["C02.7"], "integer xor written back with the operand length"),
    T("xor-index-loop", "helper.py", "    return bytes(x ^ y for x, y in zip(a, b))\n", "    return bytes([a[i] ^ b[i] for i in range(len(a))])\n", ["C02.7"], "element-wise by index"),
    M("infinity-has-parity", "pecc.py", "        if x is None:\n            return\n        if self.y.num % 2 == 1:\n            self.parity = 1\n        else:\n            self.parity = 0\n",
      "        self.parity = 0 if x is None else self.y.num & 1\n", ["C02.4"], "the point at infinity gets parity 0: an all-zero x-only key verifies forged signatures"),
    T("infinity-has-parity-but-guarded", "pecc.py", "    def verify_schnorr(self, msg, schnorr_sig):\n        if self.parity:\n",
      "    def verify_schnorr(self, msg, schnorr_sig):\n        if self.x is None:\n            return False\n        if self.parity:\n", ["C02.4"], "explicit infinity guard"),
]

EXTRA["C01"] = [
    M("der-parse-strict-off-by-one", "pecc.py", "        r = int(s.read(rlength).hex(), 16)\n",
      "        rbin = s.read(rlength)\n        if len(rbin) > 1 and rbin[0] == 0 and rbin[1] <= 0x80:\n            raise RuntimeError(\"non-minimal\")\n        r = int(rbin.hex(), 16)\n",
      ["C01.12"], "minimal-encoding check rejects 00 80 .. which the encoder emits"),
    T("der-parse-strict-correct", "pecc.py", "        r = int(s.read(rlength).hex(), 16)\n",
      "        rbin = s.read(rlength)\n        if len(rbin) > 1 and rbin[0] == 0 and rbin[1] < 0x80:\n            raise RuntimeError(\"non-minimal\")\n        r = int(rbin.hex(), 16)\n",
      ["C01.12"], "correct minimal-encoding check: never fires on encoder output"),
]


# the repairs F32-F35 undone: each rule must report the tree as it was before the fix
EXTRA["C11"] = EXTRA.get("C11", []) + [
    M("witness-utxo-legacy-p2sh-keys-unchecked", "psbt.py", "            elif self.redeem_script:\n                # p2sh whose RedeemScript is not a witness program\n                for sec in self.named_pubs.keys():\n                    try:\n                        # this will raise a ValueError if it's not in there\n                        self.redeem_script.commands.index(sec)\n                    except ValueError:\n                        raise ValueError(f\"pubkey is not in RedeemScript {self}\")\n        else:\n            # non-witness input\n",
      "        else:\n            # non-witness input\n", ["C11.12"], "legacy redeem script + witness UTXO: keys never tied to the script"),
    M("utxo-records-not-compared", "psbt.py", "            if self.prev_out and (\n                self.prev_out.serialize()\n                != self.prev_tx.tx_outs[self.tx_in.prev_index].serialize()\n            ):\n                raise ValueError(\n                    \"witness UTXO does not match the output of the previous transaction\"\n                )\n",
      "", ["C11.14"], "both UTXO records present and never compared"),
    M("witness-script-any-spk", "psbt.py", "                if not script_pubkey.is_p2wsh():\n                    raise KeyError(\"WitnessScript included in non-p2wsh output\")\n", "",
      ["C11.13"], "witness script accepted for OP_1 <hash>"),
]
EXTRA["C06"] = EXTRA.get("C06", []) + [
    M("p2sh-witness-extra-scriptsig", "script.py", "                    if (\n                        len(stack) > 0\n                        and len(redeem_commands) == 2\n                        and redeem_commands[0] == 0\n                        and isinstance(redeem_commands[1], bytes)\n                        and len(redeem_commands[1]) in (20, 32)\n                    ):\n                        print(\"extra items in the ScriptSig of a p2sh witness program\")\n                        return False\n",
      "", ["C06.14"], "junk in front of the redeem script of a p2sh witness program"),
]

EXTRA["C05"] = EXTRA.get("C05", []) + [
    M("ext-flag-counts-annex", "tx.py", "            num_items = len(tx_in.witness)\n            if tx_in.witness.has_annex():\n                num_items -= 1\n            if num_items > 1:\n",
      "            if len(tx_in.witness) > 1:\n", ["C05.11"], "key path + annex hashed as script path (F36 undone)"),
]

EXTRA["C06"] = EXTRA.get("C06", []) + [
    M("witness-program-anywhere", "script.py", "                is_program = len(commands) == 0 and len(stack) == 2\n",
      "                is_program = len(stack) == 2\n", ["C06.20"], "witness program pushed by the ScriptSig is executed (F37 undone)"),
]

EXTRA["C10"] = EXTRA.get("C10", []) + [
    M("psbtout-p2sh-p2wpkh-membership", "psbt.py", "            if self.redeem_script.is_p2wpkh():\n                # p2sh-p2wpkh commits to the hash160 of the pubkey in the RedeemScript\n",
      "            if False:\n                # p2sh-p2wpkh commits to the hash160 of the pubkey in the RedeemScript\n", ["C10.19"], "p2sh-p2wpkh output key looked up in the RedeemScript (F38 undone)"),
]

EXTRA["C06"] = EXTRA.get("C06", []) + [
    M("p2sh-scriptsig-not-push-only", "tx.py", "        if script_pubkey.is_p2sh() and any(\n            isinstance(command, int) and command > 0x60\n",
      "        if False and any(\n            isinstance(command, int) and command > 0x60\n", ["C06.23"], "opcodes next to the RedeemScript push accepted (F39 undone)"),
]

EXTRA["C10"] = EXTRA.get("C10", []) + [
    M("global-xpub-network-from-path", "psbt.py", "            network = hd_key.network\n        hd_key.add_raw_path_data(read_varstr(s), network=network)\n",
      "            pass\n        hd_key.add_raw_path_data(read_varstr(s), network=network)\n", ["C10.23"], "the key-origin path decides the version bytes written back (F40 undone)"),
]

EXTRA["C10"] = EXTRA.get("C10", []) + [
    M("helper-hd-pubs-keyed-by-record", "psbt_helper.py", "        hd_pubs[named_global_hd_pubkey_obj.raw_serialize()] = named_global_hd_pubkey_obj\n",
      "        hd_pubs[named_global_hd_pubkey_obj.serialize()] = named_global_hd_pubkey_obj\n", ["C10.24"], "helper keys the global xpub map by the whole record (F41 undone)"),
]

EXTRA["C18"] = EXTRA.get("C18", []) + [
    M("filter-serialised-from-set", "compactfilter.py", "        return serialize_gcs(self.sorted_hashes)\n",
      "        return serialize_gcs(sorted(list(self.hashes)))\n", ["C18.19"], "values that occur twice are dropped on serialisation (F42 undone)"),
]

EXTRA["C17"] = EXTRA.get("C17", []) + [
    M("compact-coefficient-not-padded", "helper.py", "    coefficient = coefficient.ljust(3, b\"\\x00\")\n", "    coefficient = coefficient\n", ["C17.20"], "small targets written with a short coefficient (F43 undone)"),
]

EXTRA["C17"] = EXTRA.get("C17", []) + [
    M("pow-negative-target-accepted", "block.py", "        if self.bits[2] & 0x80 or target == 0 or target >= 1 << 256:\n", "        if target == 0 or target >= 1 << 256:\n", ["C17.21"], "compact sign bit read as magnitude (F44 undone in part)"),
]

EXTRA["C15"] = EXTRA.get("C15", []) + [
    M("one-share-for-threshold-1", "shamir.py", "            return [(i, secret) for i in range(n)]\n", "            return [(0, secret)]\n", ["C15.17"], "1-of-n yields one share (F45 undone)"),
]

EXTRA["C10"] = EXTRA.get("C10", []) + [
    M("out-update-overwrites-redeem-script", "psbt.py", "            self.redeem_script = self.redeem_script or redeem_lookup.get(\n                script_pubkey.commands[1]\n            )\n            # if no RedeemScript exists, we can't update, so return\n",
      "            self.redeem_script = redeem_lookup.get(\n                script_pubkey.commands[1]\n            )\n            # if no RedeemScript exists, we can't update, so return\n", ["C10.28"], "output updater forgets the attached RedeemScript (F46 undone)"),
]

EXTRA["C12"] = EXTRA.get("C12", []) + [
    M("leaf-script-reencoded", "witness.py", "            tap_script.raw = raw_tap_script\n", "            pass\n", ["C12.22"], "leaf script hashed in its minimal re-encoding (F47 undone)"),
]

EXTRA["C16"] = EXTRA.get("C16", []) + [
    M("xfp-reader-lowercase-only", "descriptor.py", "[0-9a-fA-F]{8})\\*?", "[0-9a-f]{8})\\*?", ["C16.18"], "key-record reader refuses upper-case fingerprints the constructor writes (F49 undone)"),
]

EXTRA["C13"] = EXTRA.get("C13", []) + [
    M("musig-single-key-indexerror", "taproot.py", "        if len(self.coefs) > 1:\n            self.coefs[1] = 1\n", "        self.coefs[1] = 1\n", ["C13.1"], "single-key aggregate raises (F48 undone)"),
]

# round 5 of refactorings: the cells written so that structural rules can defer to them each decide something on their own
EXTRA["C01"] = EXTRA.get("C01", []) + [
    M("detk-retry-rekey", "pecc.py", "                return candidate\n            k = hmac.new(k, v + b\"\\x00\", s256).digest()\n", "                return candidate\n            k = hmac.new(k, v + b\"\\x01\", s256).digest()\n",
      ["C01.22"], "the RFC 6979 retry branch re-keys with 0x01 (unreachable by choice of input: probability 2^-128)"),
    M("detk-retry-no-v", "pecc.py", "            k = hmac.new(k, v + b\"\\x00\", s256).digest()\n            v = hmac.new(k, v, s256).digest()\n\n    def sign_message", "            k = hmac.new(k, v + b\"\\x00\", s256).digest()\n\n    def sign_message",
      ["C01.22"], "the RFC 6979 retry branch does not update V after re-keying"),
]
EXTRA["C02"] = EXTRA.get("C02", []) + [
    M("verify-odd-result", "pecc.py", "        if result.parity:\n            return False\n        return result.xonly() == schnorr_sig.r.xonly()", "        return result.xonly() == schnorr_sig.r.xonly()",
      ["C02.16", "C02.4"], "a signature built from the negated nonce verifies"),
]
EXTRA["C03"] = EXTRA.get("C03", []) + [
    M("ctor-curve-ne-to-lt", "pecc.py", "        if self.y**2 != self.x**3 + a * x + b:", "        if self.y**2 != self.x**3 + a * x + b and self.x.num > 2:", ["C03.23", "C03.2"], "points with x <= 2 are not tested for membership"),
]
EXTRA["C11"] = EXTRA.get("C11", []) + [
    M("change-total-skipped", "psbt.py", "            total_sats += output_desc[\"sats\"]\n\n            if psbt_out.named_pubs:", "            if psbt_out.named_pubs:", ["C11.20", "C11.5"], "outputs are not added to the total"),
]

# round 7: the cells added for "a restructuring that loses a case" each decide something on their own
EXTRA["C03"] = EXTRA.get("C03", []) + [
    M("sec-prefix-unchecked", "pecc.py", "        if sec_bin[0] not in (2, 3):\n            raise ValueError(f\"Unknown SEC prefix {sec_bin[0]}\")\n", "", ["C03.24"], "a 33-byte string with any first byte is read as a compressed key"),
]
EXTRA["C05"] = EXTRA.get("C05", []) + [
    M("bip143-single-beyond-outputs", "tx.py", "        elif hash_type & 3 == SIGHASH_SINGLE and input_index < len(self.tx_outs):", "        elif hash_type & 3 == SIGHASH_SINGLE and input_index <= len(self.tx_outs) - 1 + (hash_type >> 7):",
      ["C05.24", "C05.3"], "SINGLE|ANYONECANPAY without a matching output indexes past the outputs"),
]
EXTRA["C08"] = EXTRA.get("C08", []) + [
    M("coin-type-regtest", "hd.py", "        if self.network == \"mainnet\":\n            coin = \"0'\"", "        if self.network in (\"mainnet\", \"regtest\"):\n            coin = \"0'\"", ["C08.22"], "regtest keys derived under coin type 0'"),
]
EXTRA["C13"] = EXTRA.get("C13", []) + [
    M("sequence-number-unsigned", "taproot.py", "    return [encode_minimal_num(sequence), 0xB2, 0x75]", "    return [int(sequence).to_bytes((sequence.bit_length() + 7) // 8, \"little\"), 0xB2, 0x75]", ["C13.18"],
      "relative timelock pushed without the sign byte"),
]
