"""Additional mutants / twins (second round: written after the seeded-change rounds and the auto-twin survey).
Merged into selftest.mutants.MUTANTS by the runner."""
from selftest.mutants import M, T

EXTRA = {}

EXTRA["C01"] = [
    M("der-parse-strict-off-by-one", "pecc.py", "        r = int(s.read(rlength).hex(), 16)\n",
      "        rbin = s.read(rlength)\n        if len(rbin) > 1 and rbin[0] == 0 and rbin[1] <= 0x80:\n            raise RuntimeError(\"non-minimal\")\n        r = int(rbin.hex(), 16)\n",
      ["C01.12"], "minimal-encoding check rejects 00 80 .. which the encoder emits"),
    T("der-parse-strict-correct", "pecc.py", "        r = int(s.read(rlength).hex(), 16)\n",
      "        rbin = s.read(rlength)\n        if len(rbin) > 1 and rbin[0] == 0 and rbin[1] < 0x80:\n            raise RuntimeError(\"non-minimal\")\n        r = int(rbin.hex(), 16)\n",
      ["C01.12"], "correct minimal-encoding check: never fires on encoder output"),
]
