"""In-memory application of the unified diffs kept under /verif/seeded (breaking changes from independent agents, the
owning check must report a violation) and /verif/refactors (behaviour-preserving refactorings from independent agents,
every check must stay silent).  Nothing is written to the repository under test: the patched texts are handed to the
rules as Repo(overrides=...).  A patch whose context no longer matches the tree is skipped, never failed."""
import os
import re
import sys
from concurrent.futures import ProcessPoolExecutor

ROOT = os.path.dirname(os.path.dirname(os.path.abspath(__file__)))
if ROOT not in sys.path:
    sys.path.insert(0, ROOT)

_HUNK = re.compile(r"^@@ -(\d+)(?:,(\d+))? \+(\d+)(?:,(\d+))? @@")


def parse_diff(text):
    """-> {relative path: [(old_start, [(tag, line)])]} for `git diff` output (tags ' ', '-', '+')"""
    files, cur, hunk = {}, None, None
    for line in text.splitlines():
        if line.startswith("diff --git"):
            cur, hunk = None, None
        elif line.startswith("+++ "):
            p = line[4:].strip()
            cur = p[2:] if p.startswith("b/") else p
            files[cur] = []
        elif line.startswith("--- "):
            continue
        elif cur is not None:
            m = _HUNK.match(line)
            if m:
                hunk = (int(m.group(1)), [])
                files[cur].append(hunk)
            elif hunk is not None and line[:1] in (" ", "-", "+"):
                hunk[1].append((line[:1], line[1:]))
            elif hunk is not None and line == "":
                hunk[1].append((" ", ""))
            elif line.startswith("\\"):
                continue
    return files


def apply_to_text(text, hunks):
    """apply hunks (searching a window around the recorded position for the context); None when one does not fit"""
    lines = text.split("\n")
    offset = 0
    for start, body in hunks:
        old = [l for t, l in body if t in (" ", "-")]
        new = [l for t, l in body if t in (" ", "+")]
        # trailing blank context lines produced by our tolerant parser
        while old and new and old[-1] == "" and new[-1] == "" and body and body[-1] == (" ", "") and len(old) > 1:
            if lines[max(0, start - 1 + offset):][:len(old)] == old:
                break
            old.pop()
            new.pop()
            body = body[:-1]
        pos = None
        guess = start - 1 + offset
        for d in sorted(range(-400, 401), key=abs):
            i = guess + d
            if 0 <= i <= len(lines) - len(old) and lines[i:i + len(old)] == old:
                pos = i
                break
        if pos is None:
            return None
        lines[pos:pos + len(old)] = new
        offset += len(new) - len(old)
    return "\n".join(lines)


def overrides_for(diff_path, base):
    files = parse_diff(open(diff_path, encoding="utf-8").read())
    out = {}
    for rel, hunks in files.items():
        p = os.path.join(base, rel)
        if not os.path.exists(p):
            return None
        t2 = apply_to_text(open(p, encoding="utf-8").read(), hunks)
        if t2 is None:
            return None
        if rel.endswith(".py"):
            try:
                compile(t2, rel, "exec")
            except SyntaxError:
                return None
        out[rel] = t2
    return out


def _one(args):
    prop, root, kind, name, diff_path = args
    from sa.check import Ctx, run_property
    from sa import report
    from sa.loader import REPO_ROOT
    base = root or REPO_ROOT
    ov = overrides_for(diff_path, base)
    if ov is None:
        return (kind, name, "skip", "patch context does not match this tree")
    try:
        ctx = Ctx(root, overrides=ov)
        _, results = run_property(prop, ctx, None)
    except Exception as e:
        return (kind, name, "undecided", "%s: %s" % (type(e).__name__, str(e)[:160]))
    report.match_known(results, prop)
    viol = [r for r in results if r.status == "violation" and not r.known]
    errs = [r for r in results if r.status == "error"]
    if kind == "seeded":
        if viol:
            return (kind, name, "caught", viol[0].finding_key())
        return (kind, name, "undecided" if errs else "missed", errs[0].msg[:160] if errs else "")
    if viol:
        return (kind, name, "false-alarm", "%s: %s" % (viol[0].finding_key(), viol[0].msg[:160]))
    if errs:
        return (kind, name, "undecided", "%s: %s" % (errs[0].obl, errs[0].msg[:160]))
    return (kind, name, "silent", "")


def run(prop, root=None, jobs=16):
    tasks = []
    for kind in ("seeded", "refactors"):
        d = os.path.join(ROOT, kind, prop)
        if not os.path.isdir(d):
            continue
        for name in sorted(os.listdir(d)):
            p = os.path.join(d, name, "patch.diff")
            if os.path.exists(p):
                tasks.append((prop, root, kind, name, p))
    if not tasks:
        return {"patches": 0}, []
    with ProcessPoolExecutor(max_workers=min(jobs, len(tasks))) as ex:
        res = list(ex.map(_one, tasks))
    summary = {"patches": len(tasks), "caught": 0, "silent": 0, "skipped": 0, "details": []}
    fails = []
    for kind, name, status, msg in res:
        summary["details"].append({"set": kind, "name": name, "result": status, "report": msg})
        if status == "caught":
            summary["caught"] += 1
        elif status == "silent":
            summary["silent"] += 1
        elif status == "skip":
            summary["skipped"] += 1
        elif status == "undecided" and kind == "refactors":
            # the rules say "construct not recognised" (exit 2) on this refactoring: not an alarm, recorded as a limitation
            summary["refactor_undecided"] = summary.get("refactor_undecided", 0) + 1
        else:
            fails.append("%s %s/%s -> %s (%s)" % (kind, prop, name, status, msg))
    return summary, fails


if __name__ == "__main__":
    props = sys.argv[1:] or ["C%02d" % i for i in range(1, 21)]
    bad = 0
    for p in props:
        s, f = run(p, os.environ.get("VERIF_REPO"))
        print(p, {k: v for k, v in s.items() if k != "details"})
        for x in f:
            print("   ", x[:260])
        for d in s.get("details", []):
            if d["result"] == "undecided" and d["set"] == "refactors":
                print("    note: refactors %s/%s undecided (%s)" % (p, d["name"], d["report"][:150]))
        bad += len(f)
    sys.exit(1 if bad else 0)
