"""Checker self-test (thorough tier): every mutant of the anchored constructs must be reported by the named
obligation, every behaviour-preserving twin must stay silent.  Mutants are built in memory (source override),
compiled (so they are valid Python) and fed to the same rules; nothing is written to /repo."""
import os
import sys
from concurrent.futures import ProcessPoolExecutor

ROOT = os.path.dirname(os.path.dirname(os.path.abspath(__file__)))
if ROOT not in sys.path:
    sys.path.insert(0, ROOT)


def _apply(text, old, new):
    if text.count(old) != 1:
        return None
    return text.replace(old, new)


def _one(args):
    prop, root, m = args
    from sa.check import Ctx, run_property
    from sa import report
    from sa.loader import REPO_ROOT
    base = root or REPO_ROOT
    overrides = {}
    for rel, old, new in m["edits"]:
        p = os.path.join(base, rel)
        try:
            text = overrides.get(rel) or open(p, encoding="utf-8").read()
        except OSError:
            return (m["name"], "skip", "file %s missing" % rel)
        t2 = _apply(text, old, new)
        if t2 is None:
            return (m["name"], "skip", "anchor text not found (tree differs from the one the mutant was written for)")
        if rel.endswith(".py"):
            try:
                compile(t2, rel, "exec")
            except SyntaxError as e:
                return (m["name"], "error", "mutant does not compile: %s" % e)
        overrides[rel] = t2
    try:
        ctx = Ctx(root, overrides=overrides)
        _, results = run_property(prop, ctx, only=m.get("obligations"))
    except Exception as e:
        return (m["name"], "error", "%s: %s" % (type(e).__name__, e))
    report.match_known(results, prop)
    viol = [r for r in results if r.status == "violation" and not r.known]
    errs = [r for r in results if r.status == "error"]
    if m["expect"] == "violation":
        want = m.get("obligations")
        hit = [r for r in viol if not want or r.obl in want]
        if hit:
            return (m["name"], "killed", "%s: %s" % (hit[0].finding_key(), hit[0].msg[:160]))
        if errs:
            return (m["name"], "undecided", "%s: %s" % (errs[0].obl, errs[0].msg[:160]))
        return (m["name"], "survived", "no violation reported")
    # silent twin
    if viol:
        return (m["name"], "false-alarm", "%s: %s" % (viol[0].finding_key(), viol[0].msg[:160]))
    if errs:
        return (m["name"], "undecided", "%s: %s" % (errs[0].obl, errs[0].msg[:160]))
    return (m["name"], "silent", "")


def run(prop, root=None, jobs=16):
    from selftest import mutants, mutants2
    ms = list(mutants.MUTANTS.get(prop, [])) + list(mutants2.EXTRA.get(prop, []))
    if not ms:
        return {"mutants": 0}, []
    with ProcessPoolExecutor(max_workers=min(jobs, len(ms))) as ex:
        res = list(ex.map(_one, [(prop, root, m) for m in ms]))
    summary = {"mutants": len(ms), "killed": 0, "silent": 0, "skipped": 0, "details": []}
    fails = []
    for (name, status, msg), m in zip(res, ms):
        summary["details"].append({"mutant": name, "expect": m["expect"], "result": status, "what": m.get("what", ""), "report": msg})
        if status == "killed":
            summary["killed"] += 1
        elif status == "silent":
            summary["silent"] += 1
        elif status == "skip":
            summary["skipped"] += 1
        elif status in ("survived", "false-alarm", "error") or (status == "undecided" and m["expect"] == "silent"):
            fails.append("selftest %s: mutant %s -> %s (%s)" % (prop, name, status, msg))
        elif status == "undecided":
            # a mutant that turns the analysis undecided is detected as exit 2, not as a violation: tolerated but recorded
            summary.setdefault("undecided", 0)
            summary["undecided"] += 1
    return summary, fails


if __name__ == "__main__":
    props = sys.argv[1:] or ["C%02d" % i for i in range(1, 21)]
    bad = 0
    for p in props:
        s, f = run(p, os.environ.get("VERIF_REPO"))
        print(p, {k: v for k, v in s.items() if k != "details"})
        for d in s.get("details", []):
            if d["result"] not in ("killed", "silent"):
                print("   ", d["mutant"], d["result"], d["report"][:200])
        bad += len(f)
    sys.exit(1 if bad else 0)
