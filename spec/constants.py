"""Published constants (trusted base), each with its citation."""

# SEC 2 v2.0, section 2.4.1 "Recommended Parameters secp256k1"
SECP256K1 = {
    "P": 0xFFFFFFFFFFFFFFFFFFFFFFFFFFFFFFFFFFFFFFFFFFFFFFFFFFFFFFFEFFFFFC2F,
    "N": 0xFFFFFFFFFFFFFFFFFFFFFFFFFFFFFFFEBAAEDCE6AF48A03BBFD25E8CD0364141,
    "A": 0,
    "B": 7,
    "GX": 0x79BE667EF9DCBBAC55A06295CE870B07029BFCDB2DCE28D959F2815B16F81798,
    "GY": 0x483ADA7726A3C4655DA4FBFC0E1108A8FD17B448A68554199C47D08FFB10D4B8,
}
assert SECP256K1["P"] == 2**256 - 2**32 - 977
assert (SECP256K1["GY"] ** 2 - SECP256K1["GX"] ** 3 - 7) % SECP256K1["P"] == 0

# BIP340 / BIP341 / BIP327-draft tag strings as used by the repository's API names
TAGS = {
    "hash_aux": b"BIP0340/aux",
    "hash_challenge": b"BIP0340/challenge",
    "hash_nonce": b"BIP0340/nonce",
    "hash_tapleaf": b"TapLeaf",
    "hash_tapbranch": b"TapBranch",
    "hash_tapsighash": b"TapSighash",
    "hash_taptweak": b"TapTweak",
    "hash_keyagglist": b"KeyAgg list",
    "hash_keyaggcoef": b"KeyAgg coefficient",
    "hash_musignonce": b"MuSig/noncecoef",
}

# SLIP-0132 registered HD version bytes (https://github.com/satoshilabs/slips/blob/master/slip-0132.md)
SLIP132 = {
    "mainnet_prv": {"0488ade4": "xprv", "049d7878": "yprv", "04b2430c": "zprv", "0295b005": "Yprv", "02aa7a99": "Zprv"},
    "mainnet_pub": {"0488b21e": "xpub", "049d7cb2": "ypub", "04b24746": "zpub", "0295b43f": "Ypub", "02aa7ed3": "Zpub"},
    "testnet_prv": {"04358394": "tprv", "044a4e28": "uprv", "045f18bc": "vprv", "024285b5": "Uprv", "02575048": "Vprv"},
    "testnet_pub": {"043587cf": "tpub", "044a5262": "upub", "045f1cf6": "vpub", "024289ef": "Upub", "02575483": "Vpub"},
}
BIP32_SEED_KEY = b"Bitcoin seed"
HARDENED = 0x80000000
