"""Published constants (trusted base), each with its citation."""

# SEC 2 v2.0, section 2.4.1 "Recommended Parameters secp256k1"
SECP256K1 = {
    "P": 0xFFFFFFFFFFFFFFFFFFFFFFFFFFFFFFFFFFFFFFFFFFFFFFFFFFFFFFFEFFFFFC2F,
    "N": 0xFFFFFFFFFFFFFFFFFFFFFFFFFFFFFFFEBAAEDCE6AF48A03BBFD25E8CD0364141,
    "A": 0,
    "B": 7,
    "GX": 0x79BE667EF9DCBBAC55A06295CE870B07029BFCDB2DCE28D959F2815B16F81798,
    "GY": 0x483ADA7726A3C4655DA4FBFC0E1108A8FD17B448A68554199C47D08FFB10D4B8,
}
assert SECP256K1["P"] == 2**256 - 2**32 - 977
assert (SECP256K1["GY"] ** 2 - SECP256K1["GX"] ** 3 - 7) % SECP256K1["P"] == 0

# BIP340 / BIP341 / BIP327-draft tag strings as used by the repository's API names
TAGS = {
    "hash_aux": b"BIP0340/aux",
    "hash_challenge": b"BIP0340/challenge",
    "hash_nonce": b"BIP0340/nonce",
    "hash_tapleaf": b"TapLeaf",
    "hash_tapbranch": b"TapBranch",
    "hash_tapsighash": b"TapSighash",
    "hash_taptweak": b"TapTweak",
    "hash_keyagglist": b"KeyAgg list",
    "hash_keyaggcoef": b"KeyAgg coefficient",
    "hash_musignonce": b"MuSig/noncecoef",
}
