"""Published byte layouts (trusted base) in the shape language of sa/layoutcmp.py.

Sources: Bitcoin protocol documentation (developer reference, "Raw transaction format", "Block headers",
"Message headers", "version", "getheaders", "headers", "getdata", "ping"/"pong"), BIP144 (segwit serialization),
BIP32 (extended key serialization), BIP37 (merkleblock, filterload), BIP157 (compact filter messages),
BIP341 (control block, tapleaf hash).
Field names are the repository's attribute names; they are compared loosely (see layoutcmp._same_field).
"""

I = lambda w, e, f: ("int", w, e, f)
B = lambda w, f, rev=False: ("bytes", w, "rev" if rev else "", f)
C = lambda b: ("const", b)
N = lambda f: ("nested", f, "")
CNT = lambda f: ("count", f)
REP = lambda f, body: ("repeat", f, body)
VS = lambda f: ("varstr", f, "")

TX_LEGACY = [I(4, "LE", "version"), CNT("tx_ins"), REP("tx_ins", [N("<elem>")]), CNT("tx_outs"), REP("tx_outs", [N("<elem>")]), N("locktime")]
# BIP144: version | marker 00 | flag 01 | txins | txouts | witnesses | locktime
TX_SEGWIT = [I(4, "LE", "version"), C(b"\x00\x01"), CNT("tx_ins"), REP("tx_ins", [N("<elem>")]), CNT("tx_outs"), REP("tx_outs", [N("<elem>")]),
             REP("tx_ins", [N("<elem>.witness")]), N("locktime")]
TXIN = [B(32, "prev_tx", rev=True), I(4, "LE", "prev_index"), N("script_sig"), N("sequence")]
TXOUT = [I(8, "LE", "amount"), N("script_pubkey")]
WITNESS = [CNT("items"), REP("items", [VS("<elem>")])]
UINT32_LE_SELF = [I(4, "LE", "<self>")]

# block header: version(4 LE) prev(32, internal order = reversed display) merkle(32 reversed) time(4 LE) bits(4) nonce(4)
BLOCK_HEADER = [I(4, "LE", "version"), B(32, "prev_block", rev=True), B(32, "merkle_root", rev=True), I(4, "LE", "timestamp"), B(4, "bits"), B(4, "nonce")]

# message header: magic(4) command(12, zero padded) length(4 LE) checksum(4) payload
ENVELOPE = [B(4, "magic"), B(12, "command"), I(4, "LE", None), B(4, None), B(None, "payload")]

# BIP32: 4 version | 1 depth | 4 parent fingerprint | 4 child number BE | 32 chain code | 33 key data  (= 78 bytes)
XPRV = [B(4, "version"), I(1, "LE", "depth"), B(4, "parent_fingerprint"), I(4, "BE", "child_number"), B(32, "chain_code"), I(33, "BE", "private_key")]
XPUB = [B(4, "version"), I(1, "LE", "depth"), B(4, "parent_fingerprint"), I(4, "BE", "child_number"), B(32, "chain_code"), B(33, "point")]
XKEY_WIDTHS = [4, 1, 4, 4, 32, 33]
