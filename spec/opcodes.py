"""Consensus stack effects (trusted base), in the value language of sa/stackfx.py.

Source: Bitcoin Core script/interpreter.cpp (EvalScript) and the Bitcoin wiki "Script" page; BIP342 for the
tapscript table delta and the OP_SUCCESSx set.  x1 is the top of the stack.
Each entry: (required depth, consumed original slots, pushed values bottom→top, alt consumed, alt pushed).
"""
from sa.stackfx import norm

S = lambda i: ("slot", i)
D = lambda i: ("dec", S(i))
E = lambda e: ("enc", e)
C = lambda c: ("const", c)
B = lambda cond: ("bool", cond)


def cmp_(op, a, b):
    return ("cmp", op, a, b)


FIXED = {
    109: ("OP_2DROP", 2, 2, []),
    110: ("OP_2DUP", 2, 0, [S(2), S(1)]),
    111: ("OP_3DUP", 3, 0, [S(3), S(2), S(1)]),
    112: ("OP_2OVER", 4, 0, [S(4), S(3)]),
    113: ("OP_2ROT", 6, 6, [S(4), S(3), S(2), S(1), S(6), S(5)]),
    114: ("OP_2SWAP", 4, 4, [S(2), S(1), S(4), S(3)]),
    116: ("OP_DEPTH", 0, 0, [E(("depth", 0))]),
    117: ("OP_DROP", 1, 1, []),
    118: ("OP_DUP", 1, 0, [S(1)]),
    119: ("OP_NIP", 2, 2, [S(1)]),
    120: ("OP_OVER", 2, 0, [S(2)]),
    123: ("OP_ROT", 3, 3, [S(2), S(1), S(3)]),
    124: ("OP_SWAP", 2, 2, [S(1), S(2)]),
    125: ("OP_TUCK", 2, 2, [S(1), S(2), S(1)]),
    130: ("OP_SIZE", 1, 0, [E(("len", S(1)))]),
    135: ("OP_EQUAL", 2, 2, [E(B(cmp_("==", S(2), S(1))))]),
    139: ("OP_1ADD", 1, 1, [E(("add", D(1), C(1)))]),
    140: ("OP_1SUB", 1, 1, [E(("sub", D(1), C(1)))]),
    143: ("OP_NEGATE", 1, 1, [E(("neg", D(1)))]),
    144: ("OP_ABS", 1, 1, [E(("abs", D(1)))]),
    145: ("OP_NOT", 1, 1, [E(B(cmp_("==", D(1), C(0))))]),
    146: ("OP_0NOTEQUAL", 1, 1, [E(B(cmp_("!=", D(1), C(0))))]),
    147: ("OP_ADD", 2, 2, [E(("add", D(2), D(1)))]),
    148: ("OP_SUB", 2, 2, [E(("sub", D(2), D(1)))]),
    154: ("OP_BOOLAND", 2, 2, [E(B(("and", cmp_("!=", D(2), C(0)), cmp_("!=", D(1), C(0)))))]),
    155: ("OP_BOOLOR", 2, 2, [E(B(("or", cmp_("!=", D(2), C(0)), cmp_("!=", D(1), C(0)))))]),
    156: ("OP_NUMEQUAL", 2, 2, [E(B(cmp_("==", D(2), D(1))))]),
    158: ("OP_NUMNOTEQUAL", 2, 2, [E(B(cmp_("!=", D(2), D(1))))]),
    159: ("OP_LESSTHAN", 2, 2, [E(B(cmp_("<", D(2), D(1))))]),
    160: ("OP_GREATERTHAN", 2, 2, [E(B(cmp_(">", D(2), D(1))))]),
    161: ("OP_LESSTHANOREQUAL", 2, 2, [E(B(cmp_("<=", D(2), D(1))))]),
    162: ("OP_GREATERTHANOREQUAL", 2, 2, [E(B(cmp_(">=", D(2), D(1))))]),
    163: ("OP_MIN", 2, 2, [E(("min", D(2), D(1)))]),
    164: ("OP_MAX", 2, 2, [E(("max", D(2), D(1)))]),
    # x min max -> min <= x < max ; x = x3, min = x2, max = x1
    165: ("OP_WITHIN", 3, 3, [E(B(("and", cmp_("<=", D(2), D(3)), cmp_("<", D(3), D(1)))))]),
    166: ("OP_RIPEMD160", 1, 1, [("hash", "ripemd160", S(1))]),
    167: ("OP_SHA1", 1, 1, [("hash", "sha1", S(1))]),
    168: ("OP_SHA256", 1, 1, [("hash", "sha256", S(1))]),
    169: ("OP_HASH160", 1, 1, [("hash", "hash160", S(1))]),
    170: ("OP_HASH256", 1, 1, [("hash", "hash256", S(1))]),
}
FIXED = {k: (v[0], v[1], v[2], [norm(x) for x in v[3]]) for k, v in FIXED.items()}

# constants pushed
PUSH_NUM = {0: 0, 79: -1}
PUSH_NUM.update({80 + i: i for i in range(1, 17)})

# verify-composed opcodes: base opcode followed by OP_VERIFY
COMPOSED = {136: (135, 105), 157: (156, 105), 173: (172, 105), 175: (174, 105)}

NOPS = {97, 176, 179, 180, 181, 182, 183, 184, 185}

NAMES = {
    0: "OP_0", 76: "OP_PUSHDATA1", 77: "OP_PUSHDATA2", 78: "OP_PUSHDATA4", 79: "OP_1NEGATE", 97: "OP_NOP", 99: "OP_IF", 100: "OP_NOTIF",
    103: "OP_ELSE", 104: "OP_ENDIF", 105: "OP_VERIFY", 106: "OP_RETURN", 107: "OP_TOALTSTACK", 108: "OP_FROMALTSTACK", 109: "OP_2DROP",
    110: "OP_2DUP", 111: "OP_3DUP", 112: "OP_2OVER", 113: "OP_2ROT", 114: "OP_2SWAP", 115: "OP_IFDUP", 116: "OP_DEPTH", 117: "OP_DROP",
    118: "OP_DUP", 119: "OP_NIP", 120: "OP_OVER", 121: "OP_PICK", 122: "OP_ROLL", 123: "OP_ROT", 124: "OP_SWAP", 125: "OP_TUCK",
    130: "OP_SIZE", 135: "OP_EQUAL", 136: "OP_EQUALVERIFY", 139: "OP_1ADD", 140: "OP_1SUB", 143: "OP_NEGATE", 144: "OP_ABS", 145: "OP_NOT",
    146: "OP_0NOTEQUAL", 147: "OP_ADD", 148: "OP_SUB", 154: "OP_BOOLAND", 155: "OP_BOOLOR", 156: "OP_NUMEQUAL", 157: "OP_NUMEQUALVERIFY",
    158: "OP_NUMNOTEQUAL", 159: "OP_LESSTHAN", 160: "OP_GREATERTHAN", 161: "OP_LESSTHANOREQUAL", 162: "OP_GREATERTHANOREQUAL", 163: "OP_MIN",
    164: "OP_MAX", 165: "OP_WITHIN", 166: "OP_RIPEMD160", 167: "OP_SHA1", 168: "OP_SHA256", 169: "OP_HASH160", 170: "OP_HASH256",
    171: "OP_CODESEPARATOR", 172: "OP_CHECKSIG", 173: "OP_CHECKSIGVERIFY", 174: "OP_CHECKMULTISIG", 175: "OP_CHECKMULTISIGVERIFY",
    176: "OP_NOP1", 177: "OP_CHECKLOCKTIMEVERIFY", 178: "OP_CHECKSEQUENCEVERIFY", 179: "OP_NOP4", 180: "OP_NOP5", 181: "OP_NOP6",
    182: "OP_NOP7", 183: "OP_NOP8", 184: "OP_NOP9", 185: "OP_NOP10", 186: "OP_CHECKSIGADD",
}
NAMES.update({80 + i: "OP_%d" % i for i in range(1, 17)})

# BIP342: OP_SUCCESSx = 80, 98, 126-129, 131-134, 137-138, 141-142, 149-153, 187-254
OP_SUCCESS = {80, 98} | set(range(126, 130)) | set(range(131, 135)) | {137, 138, 141, 142} | set(range(149, 154)) | set(range(187, 255))
# BIP342 delta of the handler table: 172/173 -> schnorr checksig(verify); 174/175 disabled (fail); 186 CHECKSIGADD
TAPROOT_DELTA = {172: "op_checksig_schnorr", 173: "op_checksigverify_schnorr", 174: "<fail>", 175: "<fail>", 186: "op_checksigadd_schnorr"}

# argument groups of the interpreter: opcode -> extra arguments the handler needs besides the stack
ARITY = {99: "commands", 100: "commands", 107: "altstack", 108: "altstack", 172: "tx", 173: "tx", 174: "tx", 175: "tx", 177: "tx", 178: "tx", 186: "tx"}
