"""Canonical names for locals, by what they are bound to (see sa/roles.py).  One entry per function whose rules
mention locals; the canonical names are the spellings of the pinned tree, so nothing is renamed there."""

_TXINS = r"^self\.tx_ins$"
_TXOUTS = r"^self\.tx_outs$"

ROLES = {
    # C05 ------------------------------------------------------------------------------------------
    "tx:Tx.hash_prevouts": [("tx_in", "loop", _TXINS)],
    "tx:Tx.hash_sequence": [("tx_in", "loop", _TXINS)],
    "tx:Tx.hash_outputs": [("tx_out", "loop", _TXOUTS)],
    "tx:Tx.sha_prevouts": [("tx_in", "loop", _TXINS)],
    "tx:Tx.sha_amounts": [("tx_in", "loop", _TXINS)],
    "tx:Tx.sha_script_pubkeys": [("tx_in", "loop", _TXINS)],
    "tx:Tx.sha_sequences": [("tx_in", "loop", _TXINS)],
    "tx:Tx.sha_outputs": [("tx_out", "loop", _TXOUTS)],
    "tx:Tx.sig_hash_legacy": [("i", "loopidx", _TXINS), ("tx_in", "loop", _TXINS), ("tx_out", "loop", _TXOUTS)],
}
