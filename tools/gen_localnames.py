"""Regenerate spec/local_names.json: the spelling of every local variable of every function of the package in the
reference tree (the tree the rules were confirmed on), keyed by a spelling-independent signature of its binding sites.
Used by sa/loader.py to alpha-rename locals of the analysed tree back to these spellings.
usage: python tools/gen_localnames.py [repo-root]"""
import ast
import json
import os
import sys

ROOT = os.path.dirname(os.path.dirname(os.path.abspath(__file__)))
sys.path.insert(0, ROOT)
from sa.roles import local_signatures  # noqa: E402
from sa.normal import normalise  # noqa: E402

repo = sys.argv[1] if len(sys.argv) > 1 else "/repo"
out = {}
pkg = os.path.join(repo, "buidl")
for fn in sorted(os.listdir(pkg)):
    if not fn.endswith(".py"):
        continue
    tree = normalise(ast.parse(open(os.path.join(pkg, fn), encoding="utf-8").read()))

    def visit(body, prefix):
        for st in body:
            if isinstance(st, (ast.FunctionDef, ast.AsyncFunctionDef)):
                sigs = local_signatures(st)
                if sigs:
                    out.setdefault("%s:%s%s" % (fn[:-3], prefix, st.name), []).append([list(x) for x in sigs])
            elif isinstance(st, ast.ClassDef):
                visit(st.body, prefix + st.name + ".")
            elif isinstance(st, (ast.If, ast.Try)):
                for sub in ast.iter_child_nodes(st):
                    if isinstance(sub, ast.stmt):
                        visit([sub], prefix)
    visit(tree.body, "")
json.dump(out, open(os.path.join(ROOT, "spec", "local_names.json"), "w"), indent=0, sort_keys=True)
# every function of the reference tree (functions that are not listed here are treated as extracted helpers, sa/inline.py)
fref = {}
for fn in sorted(os.listdir(pkg)):
    if not fn.endswith(".py"):
        continue
    tree = ast.parse(open(os.path.join(pkg, fn), encoding="utf-8").read())
    names = []
    for st in tree.body:
        if isinstance(st, (ast.FunctionDef, ast.AsyncFunctionDef)):
            names.append(st.name)
        elif isinstance(st, ast.ClassDef):
            for b in st.body:
                if isinstance(b, (ast.FunctionDef, ast.AsyncFunctionDef)):
                    names.append(st.name + "." + b.name)
    fref[fn[:-3]] = sorted(set(names))
    # constants of the reference tree (module level and class level); sa/constprop.py writes out every other one
    cn = []
    for st in tree.body:
        if isinstance(st, ast.Assign):
            for t in st.targets:
                for x in ast.walk(t):
                    if isinstance(x, ast.Name):
                        cn.append(x.id)
        elif isinstance(st, ast.ClassDef):
            for b in st.body:
                if isinstance(b, ast.Assign):
                    for t in b.targets:
                        if isinstance(t, ast.Name):
                            cn.append(st.name + "." + t.id)
    fref[fn[:-3] + "#constants"] = sorted(set(cn))
json.dump(fref, open(os.path.join(ROOT, "spec", "functions_ref.json"), "w"), indent=0, sort_keys=True)
print("functions:", len(out), "locals:", sum(len(v[0]) for v in out.values()))
