#!/venv/bin/python
"""Generate /verif/MANIFEST.json from the rule modules (run from /verif)."""
import importlib
import json
import os
import sys

ROOT = os.path.dirname(os.path.dirname(os.path.abspath(__file__)))
sys.path.insert(0, ROOT)

TITLES = {}
for line in open(os.path.join(ROOT, "properties.jsonl")):
    p = json.loads(line)
    TITLES[p["id"]] = p["title"]

TECH = {
    "C01": "interval abstract interpretation (accept-sets, output ranges) + def-use rules + DER layout + constant tables",
    "C02": "CFG cut-set guards, tag tables, preimage layout extraction, parity dataflow",
    "C03": "accept-set of tag dispatch, path-sensitive zero-divisor / curve-membership cut-sets, parity-map extraction",
    "C04": "interval partition of push/varint chains, writer/reader layout extraction vs spec tables, typed read-set non-interference, cut-set on fetcher",
    "C05": "symbolic byte-accumulator execution with constant propagation of hash_type vs BIP143/341 layout tables, memo read-set analysis",
    "C06": "per-iteration cut-sets, CFG x interval product on len(witness), commitment guards, template tables",
    "C07": "abstract interpretation over a symbolic stack (stack-effect inference) vs consensus table, dispatch/arity tables, guard order",
    "C08": "interval partition of the hardened threshold, HMAC-data layout extraction, 78-byte layout vs BIP32, SLIP-132 tables, sibling dataflow",
    "C09": "checksum cut-sets, constant-selection siblings, alphabets/constants tables, version-byte derived leading-character sets, HRP dispatch evaluation",
    "C10": "per-key-type writer/reader codec extraction, ordering analysis of dict iteration, per-arm cut-sets, affine threshold comparison of sibling arms",
    "C11": "path-sensitive cut-sets for script-hash commitments, dominance of the change label, accumulator-path analysis",
    "C12": "sibling ordering extraction, control-block writer vs reader slice tiling, even-Y dataflow on both ECC back ends",
    "C13": "sorted-before-use dataflow, cut-set on self-verification, loop emission count over combinations",
    "C14": "accept-set and checksum cut-sets, table/formula folding (11w = ENT + ENT/32), data-file digest, call binding, loop-count folding",
    "C15": "cut-sets with threshold-1 exemption, consistency-test inventory, round-table reversal, header bit-layout folding",
    "C16": "constant tables, regex AST inspection, sorted-before-use, affine branch separation",
    "C17": "exactness (no float) analysis, interval state of the compact-bits exponent, relation check, layout vs header spec, per-iteration cut-sets",
    "C18": "bit-width abstract interpretation of rotations, constant tables, dataflow of the filter range, layout of filter messages",
    "C19": "cut-sets on envelope parsing, layout extraction of every fixed message vs protocol tables, registry (classmethod) table",
    "C20": "interval partition of CBOR prefixes with reader agreement, sibling constants, per-iteration cut-sets, affine chunk tiling",
}


def _extra_technique(m):
    kinds = [k for _, k, _f in m.OBLIGATIONS]
    extra = []
    if any(k.startswith("CELLS") or k in ("BITS", "AFFINE", "ORDER", "LAYOUT parity map") for k in kinds):
        extra.append("finite-cell / free-term / stated-bounded abstract evaluation of the functions' syntax trees (sa/cells.py, own evaluator, nothing imported or run)")
    extra.append("repository-wide necessary-condition rules over the anchor modules (MEMO cache keys, SET-ORDER, FALSY-DEFAULT, MUTABLE-DEFAULT, IDENTITY, ALIAS, "
                 "CTOR-/SAME-NAME-FORWARD, ERROR-SENTINEL, STRIP-SET, GENERATOR-ONCE, LOOP-LEFTOVER)")
    return "; " + "; ".join(extra)


def main():
    checks = []
    for i in range(1, 21):
        pid = "C%02d" % i
        m = importlib.import_module("rules." + pid)
        n = len(m.OBLIGATIONS)
        checks.append({
            "property_id": pid,
            "quick_cmd": "/venv/bin/python -m sa.check %s --tier quick" % pid,
            "thorough_cmd": "/venv/bin/python -m sa.check %s --tier thorough" % pid,
            "evidence_file": "/verif/evidence/%s.json" % pid,
            "replay_cmd_template": "/venv/bin/python -m sa.replay {path}",
            "engine": "sa",
            "level_claimed": {
                "category": "other",
                "text": ("Repository-specific static analysis: %d obligation groups decide, for every input and every path at once, the structural clauses of '%s' that are "
                         "visible in code shape (see DESIGN.md §4 %s). A pass means every such necessary condition holds on the current source. Obligations of kind "
                         "CELLS evaluate the functions' syntax trees with the project's own evaluator (nothing of /repo is imported or run): where the text of the "
                         "obligation says so the cells are a complete partition of the quantified input and hold for every input, otherwise they are a stated finite "
                         "set and decide only those cells (DESIGN.md §9.14-§9.16). Value-level behaviour outside these is not certified.") % (n, TITLES[pid], pid),
                "design_ref": "DESIGN.md §4 " + pid,
            },
            "level_note": ("Decided clauses only: " + m.EXPLANATION + " (The list of what is not decided predates the evaluation-based obligations; where a CELLS obligation below "
                           "covers one of those items it decides the cells named in its evidence text, no more.) Rule kinds: " + "; ".join(dict.fromkeys(k for _, k, _f in m.OBLIGATIONS)) + ". Trusted base: Python ast of the working tree, the CFG / interval / layout / stack engines in /verif/sa, "
                           "oracle tables in /verif/spec transcribed from the cited specifications."),
            "technique": "static analysis: " + TECH[pid] + _extra_technique(m),
        })
    man = {
        "version": 1,
        "setup_cmd": "/venv/bin/python -m sa.check selfcheck",
        "hooks": {
            "guard": "BUIDL_PYTHON_VERIF",
            "enable": "none needed: the checks read source text only; no instrumentation is compiled in",
            "baseline_off_cmd": "cd /repo && /venv/bin/python -m pytest -ra -q -p no:cacheprovider --timeout=900 --continue-on-collection-errors",
            "source_commits": [],
            "add_only": True,
        },
        "engines": [{
            "name": "sa",
            "path": "/verif/sa",
            "serves_properties": ["C%02d" % i for i in range(1, 21)],
            "kind_free_text": "pure-stdlib static analyser over Python ast: loader/constant folder, statement CFG with path-sensitive reachability, reaching definitions and origin sets, "
                              "interval-set abstract interpretation, byte-layout symbolic execution (writers and stream readers), symbolic-stack effect inference, typed attribute read-sets, "
                              "bit-width analysis, finite-cell / formal-term abstract evaluation of the syntax tree (sa/cells.py; nothing of the repository is imported or run), "
                              "repository-wide necessary conditions (cache keys, aliasing, identity, mutable defaults, argument forwarding); rule tables per property in /verif/rules, "
                              "oracle tables in /verif/spec",
        }],
        "checks": checks,
        "notes": "All twenty properties are claimed for their structurally decidable clauses only (DESIGN.md §1, §4, §6). exit 0 = all obligations discharged (KNOWN-FINDING lines allowed), "
                 "exit 1 = VIOLATION, exit 2 = ANALYSIS-ERROR (undecided, never reported as a violation). VERIF_REPO selects another checkout for development; registered commands use /repo.",
        "not_applicable": [],
    }
    with open(os.path.join(ROOT, "MANIFEST.json"), "w") as f:
        json.dump(man, f, indent=1)
    print("MANIFEST.json written with %d checks" % len(checks))


if __name__ == "__main__":
    main()
