#!/bin/sh
# import_refac.sh Cxx : copy a refactoring sub-agent's out/<k>/ into /verif/refactors/Cxx/<k>/
p=$1
for d in /tmp/seed/$p/out/*/; do
  k=$(basename $d)
  mkdir -p /verif/refactors/$p/$k
  cp $d/patch.diff $d/equiv.py $d/meta.json /verif/refactors/$p/$k/ 2>/dev/null
done
ls /verif/refactors/$p
