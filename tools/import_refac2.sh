#!/bin/sh
# import_refac2.sh Cxx [prefix] : copy a refactoring sub-agent's out/<k>/ into /verif/refactors/Cxx/<prefix><k>/
p=$1
pre=${2:-r2-}
mkdir -p /verif/refactors/$p
for f in ${SEEDROOT:-/tmp/seed}/$p/out/*.py; do [ -f "$f" ] && cp "$f" /verif/refactors/$p/; done
for d in ${SEEDROOT:-/tmp/seed}/$p/out/*/; do
  k=$(basename $d)
  [ -f $d/patch.diff ] || continue
  mkdir -p /verif/refactors/$p/$pre$k
  cp $d/patch.diff $d/equiv.py $d/meta.json /verif/refactors/$p/$pre$k/ 2>/dev/null
done
ls /verif/refactors/$p
