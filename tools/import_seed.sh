#!/bin/sh
# import_seed.sh Cxx : copy a sub-agent's out/<k>/ into /verif/seeded/Cxx/<k>/
p=$1
for d in /tmp/seed/$p/out/*/; do
  k=$(basename $d)
  mkdir -p /verif/seeded/$p/$k
  cp $d/patch.diff $d/demo.py $d/meta.json /verif/seeded/$p/$k/ 2>/dev/null
done
ls /verif/seeded/$p
