#!/bin/sh
# import_seed.sh Cxx [prefix] : copy a sub-agent's out/<k>/ into /verif/seeded/Cxx/<prefix><k>/
p=$1
pre=$2
for d in /tmp/seed/$p/out/*/; do
  k=$(basename $d)
  [ -f $d/patch.diff ] || continue
  mkdir -p /verif/seeded/$p/$pre$k
  cp $d/patch.diff $d/demo.py $d/meta.json /verif/seeded/$p/$pre$k/ 2>/dev/null
done
ls /verif/seeded/$p
