"""regen_patch.py <dir>...: rewrite <dir>/patch.diff as a well-formed unified diff against /repo's current files, from the in-memory
application of the existing (possibly hand-edited) patch.  Used after re-basing a stored patch by hand."""
import difflib
import os
import sys

ROOT = os.path.dirname(os.path.dirname(os.path.abspath(__file__)))
sys.path.insert(0, ROOT)
from selftest.patches import overrides_for  # noqa: E402

for d in sys.argv[1:]:
    p = os.path.join(d, "patch.diff")
    ov = overrides_for(p, "/repo")
    if ov is None:
        print("does not apply:", d)
        continue
    out = []
    for rel, new in sorted(ov.items()):
        old = open(os.path.join("/repo", rel), encoding="utf-8").read()
        if old == new:
            continue
        out.append("diff --git a/%s b/%s\n" % (rel, rel))
        out += list(difflib.unified_diff(old.splitlines(True), new.splitlines(True), "a/" + rel, "b/" + rel, n=3))
    open(p, "w", encoding="utf-8").write("".join(out))
    print("rewritten:", d)
