#!/bin/sh
# full regression of the checker: clean tree, mutants/twins, auto-twins, seeded changes
cd /verif
echo "== clean tree"
for i in 01 02 03 04 05 06 07 08 09 10 11 12 13 14 15 16 17 18 19 20; do /venv/bin/python -m sa.check C$i --no-evidence 2>&1 | grep -v condarc | grep "VIOLATION\|ANALYSIS-ERROR\|tier=" | grep -v "violations=0 undecided=0"; done
echo "== mutants"
/venv/bin/python -m selftest.runner 2>&1 | grep -v condarc | grep -v "^C.. {"
if [ "$1" != "fast" ]; then
echo "== autotwin"
/venv/bin/python -m selftest.autotwin 2>&1 | grep -v condarc | grep "false-alarm\|undecided\|error" | grep -v "^C.. {" | cut -c1-260
echo "== agent patches (seeded must be caught, refactors must be silent; in memory)"
/venv/bin/python -m selftest.patches 2>&1 | grep -v condarc | grep -v "^C.. {"
fi
echo "== done"
