"""Run the checks against the seeded changes kept under /verif/seeded/<prop>/<name>/ (patch.diff, demo.py, meta.json).

Each patch is applied to a scratch worktree of /repo's HEAD created under $TMPDIR (never to /repo itself), the
demonstration is run there (must print BROKEN; on the clean tree it must print OK), every property's quick check
is run with --repo <worktree>, and the worktree is removed.  Prints one line per change:

    C01/1-verify-range  demo=BROKEN  own=VIOLATION(C01.1)  others=-

usage: python tools/seeded.py [--props C01,C02] [--all-checks] [--json out.json]
"""
import argparse
import json
import os
import shutil
import subprocess
import sys
import tempfile
from concurrent.futures import ThreadPoolExecutor

ROOT = os.path.dirname(os.path.dirname(os.path.abspath(__file__)))
REPO = os.environ.get("VERIF_REPO", "/repo")
PY = "/venv/bin/python"
PROPS = ["C%02d" % i for i in range(1, 21)]


def sh(cmd, cwd=None, env=None, timeout=600):
    e = dict(os.environ)
    e.update(env or {})
    p = subprocess.run(cmd, cwd=cwd, env=e, capture_output=True, text=True, timeout=timeout)
    return p.returncode, p.stdout + p.stderr


def run_check(prop, wt):
    rc, out = sh([PY, "-m", "sa.check", prop, "--tier", "quick", "--repo", wt, "--no-evidence"], cwd=ROOT,
                 env={"VERIF_TIER": "quick"})
    obl = []
    lines = out.splitlines()
    for i, l in enumerate(lines):
        if l.startswith("VIOLATION") and i + 1 < len(lines):
            nxt = lines[i + 1]
            if "instance=" in nxt:
                obl.append(nxt.split("instance=")[1].split()[0].split("|")[0])
        if l.startswith("ANALYSIS-ERROR"):
            obl.append("E:" + " ".join(l.split()[2:4]))
    return rc, sorted(set(obl)), out


def one(item, all_checks):
    prop, name, d = item
    wt = tempfile.mkdtemp(prefix="seedwt_")
    shutil.rmtree(wt)
    res = {"prop": prop, "name": name}
    try:
        rc, out = sh(["git", "-C", REPO, "worktree", "add", "--detach", wt, "HEAD"])
        if rc:
            res["error"] = "worktree: " + out[-200:]
            return res
        demo = os.path.join(d, "demo.py")
        if os.path.exists(demo):
            rc, out = sh([PY, demo], cwd=wt, timeout=900)
            res["demo_clean"] = "BROKEN" if "BROKEN" in out else ("OK" if "OK" in out else (out.strip().splitlines() or ["?"])[-1][:40])
        rc, out = sh(["git", "-C", wt, "apply", os.path.join(d, "patch.diff")])
        if rc:
            res["error"] = "apply: " + out[-300:]
            return res
        if os.path.exists(demo):
            rc, out = sh([PY, demo], cwd=wt, timeout=900)
            res["demo_patched"] = "BROKEN" if "BROKEN" in out else ("OK" if "OK" in out else (out.strip().splitlines() or ["?"])[-1][:40])
        equiv = os.path.join(d, "equiv.py")
        if os.path.exists(equiv):
            rc, out = sh([PY, equiv, REPO], cwd=wt, timeout=1800)
            res["equiv"] = "DIFFERENT" if "DIFFERENT" in out else ("SAME" if "SAME" in out else (out.strip().splitlines() or ["?"])[-1][:60])
        rc, obl, out = run_check(prop, wt)
        res["own_rc"] = rc
        res["own"] = obl
        res["own_out"] = out[-1500:] if rc else ""
        others = {}
        if all_checks:
            for p in PROPS:
                if p == prop:
                    continue
                rc2, obl2, out2 = run_check(p, wt)
                if rc2:
                    others[p] = {"rc": rc2, "obl": obl2}
        res["others"] = others
    finally:
        sh(["git", "-C", REPO, "worktree", "remove", "--force", wt])
        shutil.rmtree(wt, ignore_errors=True)
    return res


def main():
    ap = argparse.ArgumentParser()
    ap.add_argument("--props")
    ap.add_argument("--all-checks", action="store_true")
    ap.add_argument("--json")
    ap.add_argument("--match", help="regular expression on <prop>/<name>; also selects every stored change whose meta.json says it was re-based")
    ap.add_argument("--dir", default=os.path.join(ROOT, "seeded"))
    ap.add_argument("--expect", default="violation", choices=["violation", "silent"],
                    help="violation: breaking changes (seeded/); silent: behaviour-preserving refactorings (refactors/)")
    a = ap.parse_args()
    a.dir = os.path.abspath(a.dir)
    items = []
    want = a.props.split(",") if a.props else None
    for prop in sorted(os.listdir(a.dir)):
        pd = os.path.join(a.dir, prop)
        if not os.path.isdir(pd) or (want and prop not in want):
            continue
        for name in sorted(os.listdir(pd)):
            d = os.path.join(pd, name)
            if os.path.exists(os.path.join(d, "patch.diff")):
                if a.match:
                    import re
                    rebased = False
                    try:
                        rebased = "rebased" in json.load(open(os.path.join(d, "meta.json")))
                    except Exception:
                        pass
                    if not (re.search(a.match, "%s/%s" % (prop, name)) or rebased):
                        continue
                items.append((prop, name, d))
    with ThreadPoolExecutor(max_workers=8) as ex:
        results = list(ex.map(lambda it: one(it, a.all_checks), items))
    missed = 0
    want_rc = 0 if a.expect == "silent" else 1
    for r in results:
        if "error" in r:
            print("%s/%s ERROR %s" % (r["prop"], r["name"], r["error"]))
            missed += 1
            continue
        own = {0: "silent", 1: "VIOLATION", 2: "UNDECIDED"}.get(r["own_rc"], "rc=%s" % r["own_rc"])
        if r["own_rc"] != want_rc or (a.expect == "silent" and r.get("others")):
            missed += 1
        if "equiv" in r:
            own = "equiv=%s %s" % (r["equiv"], own)
        oth = ",".join("%s:%s%s" % (p, {1: "V", 2: "U"}.get(v["rc"], "?"), v["obl"]) for p, v in r.get("others", {}).items()) or "-"
        print("%s/%-34s demo=%s/%s own=%s%s others=%s" % (r["prop"], r["name"], r.get("demo_clean", "-"), r.get("demo_patched", "-"), own,
                                                          r["own"], oth))
    if a.expect == "silent":
        print("refactorings=%d silent=%d alarmed-or-undecided=%d" % (len(results), len(results) - missed, missed))
    else:
        print("changes=%d caught=%d not-caught=%d" % (len(results), len(results) - missed, missed))
    if a.json:
        json.dump(results, open(a.json, "w"), indent=1)
    return 1 if missed else 0


if __name__ == "__main__":
    sys.exit(main())
