"""try_variant.py Cxx <patch.diff|-> <file> <old> <new> : apply an optional patch in memory, then replace text `old` by `new` in
buidl/<file>, and run the property's rules on the result (development aid for checking that a rule still fires on a refactored tree)."""
import sys, os
sys.path.insert(0, os.path.dirname(os.path.dirname(os.path.abspath(__file__))))
from selftest.patches import overrides_for
from sa.check import Ctx, run_property
from sa import report
from sa.loader import REPO_ROOT

prop, diff, fn, old, new = sys.argv[1:6]
ov = overrides_for(diff, REPO_ROOT) if diff != "-" else {}
rel = "buidl/" + fn
t = ov.get(rel) or open(os.path.join(REPO_ROOT, rel)).read()
assert old in t, "old text not found"
ov[rel] = t.replace(old, new)
compile(ov[rel], rel, "exec")
ctx = Ctx(None, overrides=ov)
_, results = run_property(prop, ctx, None)
report.match_known(results, prop)
for r in results:
    if r.status != "ok":
        print(r.status, r.obl, r.msg[:300])
print("done", len(results))
